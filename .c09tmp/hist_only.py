import os, sys, time, json
sys.path.insert(0, '/verif'); sys.path.insert(0, os.environ.get('VERIF_REPO', '/repo'))
from props import c09
from mc.stats import Stats
from mc.pool import pmap
quick = sys.argv[1] == 'quick'
fam = sys.argv[2] if len(sys.argv) > 2 else None
tasks = [t for t in c09.hist_tasks(quick, 0) if fam is None or t[1][0] == fam]
t = time.time(); st = Stats()
for _, s in pmap(c09._shard, tasks): st.merge(s)
print('tasks', len(tasks), 'states', st.states, 'exec', st.executions, 'nontrivial', st.nontrivial, 'wall', round(time.time()-t, 1))
print(dict(st.outcomes))
for sig, v in st.violations.items():
    print(sig, v['count']); print('   ', v['what'][:400]); print('   ', json.dumps(v['witness'])[:500])
