import os, sys, json
sys.path.insert(0, '/verif'); sys.path.insert(0, os.environ.get('VERIF_REPO', '/repo'))
from props import c09
from mc.stats import Stats
spec = c09.H_POOLS["p4"]; sel = [i for i, e in enumerate(spec) if e[3]]
steps = c09._h_steps(c09.H_KINDS["k5"], sel)
# shards whose first step is harmless under m5 (msg(U1)) and one harmful
for name, s1 in (("msg(U1)", ("msg", 4, -1)), ("anyof.ctor(U1,B_idx)", ("anyof.ctor", 4, 2))):
    st = Stats(); c09.check_histories(st, "p4", "k5", 3, steps.index(s1), 0)
    print(name, st.states, {k: (v["count"], v["witness"]["steps_text"]) for k, v in st.violations.items()})
