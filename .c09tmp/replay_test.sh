#!/bin/bash
# runs inside with_patch.sh (VERIF_REPO set): produce replay files by a history-only run, then replay each with ./check
cd /verif
/venv/bin/python - <<'PY'
import os, sys, json, hashlib
sys.path.insert(0, '/verif'); sys.path.insert(0, os.environ['VERIF_REPO'])
from props import c09
from mc.stats import Stats
st = Stats()
for i in (-1, 261):
    c09.check_histories(st, "p10", "k5", 2, i, 0)
steps = c09._h_steps(c09.H_KINDS["k5"], list(range(10)))
print([steps[i] for i in (210, 216)])
for sig, v in st.violations.items():
    h = hashlib.sha1(sig.encode()).hexdigest()[:12]
    json.dump({"property": "C09", "signature": sig, "what": v["what"], "witness": v["witness"]}, open(f'/verif/.c09tmp/rep_{h}.json', 'w'), default=str)
    print(sig, v["witness"]["steps_text"])
PY
for f in /verif/.c09tmp/rep_*.json; do echo "-- $f (patched)"; ./check C09 --replay $f; echo "exit $?"; done
