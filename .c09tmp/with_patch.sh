#!/bin/bash
# usage: with_patch.sh <patch> <cmd...>   runs cmd with VERIF_REPO=<private patched copy>
set -e
T=$(mktemp -d /verif/.c09tmp/copy-XXXX)
cp -r /repo/xdsl $T/xdsl
(cd $T && patch -p1 -s -i "$1")
shift
VERIF_REPO=$T "$@" || echo "exit=$?"
rm -rf $T
