import os, sys, time
sys.path.insert(0, "/verif"); sys.path.insert(0, os.environ.get("VERIF_REPO", "/repo"))
from props import c13
from mc.pool import pmap
from mc.stats import Stats
quick = sys.argv[1] == "quick"
only = sys.argv[2:] 
sps = [sp for sp in c13.spaces(quick) if sp.get("family") == "mb" and (not only or sp["name"] in only)]
n = 48
t = time.time()
tot = Stats()
for _, st in pmap(c13._shard, [(sp, i, sp.get("shards", 192), 0) for sp in sps for i in range(sp.get("shards", 192))]):
    tot.merge(st)
print("states", tot.states, "exec", tot.executions, "nontrivial", tot.nontrivial, "wall", round(time.time() - t, 1), "cpu", os.times())
print({k: v for k, v in tot.counters.items()} if hasattr(tot, "counters") else "")
for k, v in sorted(tot.outcomes.items()): print("  ", k, v)
for k, v in tot.violations.items(): print("VIOL", k, v["count"])
