import os, shutil, subprocess, sys, tempfile
patch = os.path.abspath(sys.argv[1])
tmp = tempfile.mkdtemp(prefix='verif-seed-', dir=os.path.dirname(patch))
try:
    shutil.copytree('/repo/xdsl', os.path.join(tmp, 'xdsl'), ignore=shutil.ignore_patterns('__pycache__'))
    for pt in sys.argv[1:sys.argv.index('--')]:
        r = subprocess.run(['patch', '-p1', '-s', '-i', os.path.abspath(pt)], cwd=tmp, capture_output=True, text=True)
        if r.returncode: print('PATCH FAILED', r.stdout, r.stderr); sys.exit(3)
    env = dict(os.environ, VERIF_REPO=tmp, PYTHONHASHSEED='0', PYTHONDONTWRITEBYTECODE='1')
    r = subprocess.run(sys.argv[sys.argv.index('--') + 1:], env=env, cwd='/verif')
    print('exit', r.returncode)
finally:
    shutil.rmtree(tmp, ignore_errors=True)
