"""Generator tree of builtin attribute / type VALUES (shared by C06 and C08).

Every value is described by a *desc*: a JSON-able nested list  [constructor-tag, arg, ...]  that names the
public constructor of xdsl.dialects.builtin and its arguments (floats are written as the hex bit pattern of
the Python double that is passed to the constructor, so a desc is exact and printable).  `build(desc)`
applies the constructors; nothing here samples: a *family* is an indexable, deterministic, exhaustively
enumerated list of descs within the bounds stated in `bounds(tier)`.

Also here (harness side, independent of xdsl's printer / parser / Attribute.__eq__):
  akey(attr)         structural key: class + parameters, floats by bit pattern, bool/int unified,
                     mappings as sorted item tuples.  (mc.canon.attr_key is not used for the verdict because
                     it maps every DictionaryAttr to the same key - immutabledict is a Mapping with empty
                     __slots__ - and distinguishes IntAttr(False) from IntAttr(0).)
  ieee_to_double / double_bits / narrow_bits   bit-level float helpers written with integer arithmetic.
"""
from __future__ import annotations

import enum
import itertools
import struct
from typing import Any, Callable, Iterable, Sequence

# --------------------------------------------------------------------------------------- float bit helpers
F16 = (5, 10)
BF16 = (8, 7)
F32 = (8, 23)
F64 = (11, 52)
FMT = {"f16": F16, "bf16": BF16, "f32": F32, "f64": F64}


def double_bits(x: float) -> int:
    return struct.unpack("<Q", struct.pack("<d", x))[0]


def bits_double(b: int) -> float:
    return struct.unpack("<d", struct.pack("<Q", b))[0]


def ieee_to_double_bits(p: int, fmt: tuple[int, int]) -> int:
    """Bit pattern of the double that has exactly the value (and, for NaNs, the left-aligned payload and
    sign) of the IEEE pattern `p` of format (exponent bits, mantissa bits).  Integer arithmetic only."""
    eb, mb = fmt
    sign = (p >> (eb + mb)) & 1
    e = (p >> mb) & ((1 << eb) - 1)
    m = p & ((1 << mb) - 1)
    bias = (1 << (eb - 1)) - 1
    if e == (1 << eb) - 1:                       # inf / nan
        return (sign << 63) | (0x7FF << 52) | (m << (52 - mb))
    if e == 0:
        if m == 0:
            return sign << 63
        # subnormal: m * 2^(1-bias-mb); normalise (always a normal double for eb < 11)
        if fmt == F64:
            return (sign << 63) | m
        sh = mb - m.bit_length() + 1              # shift to put the leading 1 at bit mb
        m2 = (m << sh) & ((1 << mb) - 1)
        e2 = 1 - bias - sh
        return (sign << 63) | ((e2 + 1023) << 52) | (m2 << (52 - mb))
    if fmt == F64:
        return p
    return (sign << 63) | ((e - bias + 1023) << 52) | (m << (52 - mb))


def ieee_to_double(p: int, fmt: tuple[int, int]) -> float:
    return bits_double(ieee_to_double_bits(p, fmt))


def narrow_bits(db: int, fmt: tuple[int, int]) -> int | None:
    """Inverse of ieee_to_double_bits for doubles that are exactly representable; None otherwise."""
    eb, mb = fmt
    if fmt == F64:
        return db
    sign = db >> 63
    e = (db >> 52) & 0x7FF
    m = db & ((1 << 52) - 1)
    bias = (1 << (eb - 1)) - 1
    drop = 52 - mb
    top = (sign << (eb + mb))
    if e == 0x7FF:
        if m & ((1 << drop) - 1):
            return None
        return top | (((1 << eb) - 1) << mb) | (m >> drop)
    if e == 0:
        return top if m == 0 else None
    ue = e - 1023
    if ue > bias:
        return None
    if ue >= 1 - bias:
        if m & ((1 << drop) - 1):
            return None
        return top | ((ue + bias) << mb) | (m >> drop)
    # subnormal in the narrow format
    sh = (1 - bias) - ue
    full = (1 << 52) | m
    if sh > mb or full & ((1 << (drop + sh)) - 1):
        return None
    return top | (full >> (drop + sh))


def fhex(x: float) -> str:
    return f"0x{double_bits(x):016x}"


def unhex(s: str) -> float:
    return bits_double(int(s, 16))


# --------------------------------------------------------------------------------------- structural key
def dkey(d: Any) -> Any:
    from collections.abc import Mapping

    from xdsl.ir import Attribute

    if isinstance(d, Attribute):
        return akey(d)
    if isinstance(d, (bool, int)) and not isinstance(d, enum.Enum):
        return ("i", int(d))
    if isinstance(d, float):
        return ("f", f"{double_bits(d):016x}")
    if isinstance(d, str):
        return ("s", d)
    if isinstance(d, (bytes, bytearray, memoryview)):
        return ("y", bytes(d))
    if isinstance(d, enum.Enum):
        return ("e", type(d).__qualname__, d.name)
    if isinstance(d, (tuple, list)):
        return ("t", tuple(dkey(x) for x in d))
    if isinstance(d, (set, frozenset)):
        return ("S", tuple(sorted((dkey(x) for x in d), key=repr)))
    if isinstance(d, Mapping):
        return ("m", tuple(sorted(((dkey(k), dkey(v)) for k, v in d.items()), key=repr)))
    if d is None:
        return ("n",)
    if hasattr(d, "__dataclass_fields__"):
        return ("D", type(d).__qualname__, tuple((f, dkey(getattr(d, f))) for f in d.__dataclass_fields__))
    return ("r", type(d).__qualname__, repr(d))


def akey(a: Any) -> Any:
    """class + parameters, never Attribute.__eq__ / __hash__ / the printer."""
    from xdsl.ir import Data, ParametrizedAttribute

    cls = type(a)
    cname = (getattr(cls, "name", None), cls.__qualname__)
    if isinstance(a, ParametrizedAttribute):
        return ("P", cname, tuple(dkey(p) for p in a.parameters))
    if isinstance(a, Data):
        return ("D", cname, dkey(a.data))
    return ("A", cname, repr(a))


# --------------------------------------------------------------------------------------- build
SIGN = {"signless": "SIGNLESS", "signed": "SIGNED", "unsigned": "UNSIGNED"}


def _affine_expr(e: Any) -> Any:
    from xdsl.ir.affine import AffineExpr

    t = e[0]
    if t == "d":
        return AffineExpr.dimension(e[1])
    if t == "s":
        return AffineExpr.symbol(e[1])
    if t == "c":
        return AffineExpr.constant(e[1])
    a = _affine_expr(e[1])
    b = e[2] if isinstance(e[2], int) else _affine_expr(e[2])
    if t == "+":
        return a + b
    if t == "-":
        return a - b
    if t == "*":
        return a * b
    if t == "floordiv":
        return a // b
    if t == "ceildiv":
        return a.ceil_div(b)
    if t == "mod":
        return a % b
    raise ValueError(e)


def _num(v: Any) -> Any:
    """desc scalar -> python number: ints stay ints, '0x...' strings are double bit patterns."""
    if isinstance(v, str):
        return unhex(v)
    if isinstance(v, list):          # complex pair
        return tuple(_num(x) for x in v)
    return v


def build(d: Any) -> Any:
    """Apply the public constructors named by the desc."""
    from xdsl.dialects import builtin as B

    t = d[0]
    if t == "i":
        return B.IntegerType(d[1], getattr(B.Signedness, SIGN[d[2]]))
    if t == "index":
        return B.IndexType()
    if t in ("f16", "bf16", "f32", "f64", "f80", "f128"):
        return {"f16": B.Float16Type, "bf16": B.BFloat16Type, "f32": B.Float32Type, "f64": B.Float64Type,
                "f80": B.Float80Type, "f128": B.Float128Type}[t]()
    if t == "ftype":                                   # reduced precision float type by class name
        return getattr(B, d[1])()
    if t == "IntegerAttr":
        return B.IntegerAttr(d[1], build(d[2]))
    if t == "FloatAttr":
        return B.FloatAttr(unhex(d[1]), build(d[2]))
    if t == "FloatAttrW":                              # FloatAttr(value, <bitwidth int>)
        return B.FloatAttr(unhex(d[1]), d[2])
    if t == "StringAttr":
        return B.StringAttr(d[1])
    if t == "BytesAttr":
        return B.BytesAttr(bytes.fromhex(d[1]))
    if t == "UnitAttr":
        return B.UnitAttr()
    if t == "NoneAttr":
        return B.NoneAttr()
    if t == "NoneType":
        return B.NoneType()
    if t == "ArrayAttr":
        return B.ArrayAttr([build(x) for x in d[1]])
    if t == "DictionaryAttr":
        return B.DictionaryAttr({k: build(v) for k, v in d[1]})
    if t == "SymbolRefAttr":
        return B.SymbolRefAttr(d[1], list(d[2]))
    if t == "Dense":
        return B.DenseIntOrFPElementsAttr.from_list(build(d[1]), [_num(x) for x in d[2]])
    if t == "DenseArray":
        return B.DenseArrayBase.from_list(build(d[1]), [_num(x) for x in d[2]])
    if t == "UnknownLoc":
        return B.UnknownLoc()
    if t == "FileLineColLoc":
        return B.FileLineColLoc(B.StringAttr(d[1]), B.IntAttr(d[2]), B.IntAttr(d[3]))
    if t == "NameLoc":
        return B.NameLoc(B.StringAttr(d[1]), build(d[2]))
    if t == "CallSiteLoc":
        return B.CallSiteLoc(build(d[1]), build(d[2]))
    if t == "FusedLoc":
        return B.FusedLoc([build(x) for x in d[1]], build(d[2]))
    if t == "AffineMapAttr":
        from xdsl.ir.affine import AffineMap

        return B.AffineMapAttr(AffineMap(d[1], d[2], tuple(_affine_expr(e) for e in d[3])))
    if t == "StridedLayoutAttr":
        return B.StridedLayoutAttr(list(d[1]), d[2])
    if t in ("TensorType", "MemRefType"):
        d = list(d)
        d[2] = [B.DYNAMIC_INDEX if x == DYN else x for x in d[2]]
    if t == "VectorType":
        if len(d) > 3 and d[3] is not None:
            sc = B.ArrayAttr([B.IntegerAttr(int(x), 1) for x in d[3]])
            return B.VectorType(build(d[1]), list(d[2]), sc)
        return B.VectorType(build(d[1]), list(d[2]))
    if t == "TensorType":
        if len(d) > 3 and d[3] is not None:
            return B.TensorType(build(d[1]), list(d[2]), build(d[3]))
        return B.TensorType(build(d[1]), list(d[2]))
    if t == "MemRefType":
        lay = build(d[3]) if len(d) > 3 and d[3] is not None else B.NoneAttr()
        ms = build(d[4]) if len(d) > 4 and d[4] is not None else B.NoneAttr()
        return B.MemRefType(build(d[1]), list(d[2]), lay, ms)
    if t == "UnrankedTensorType":
        return B.UnrankedTensorType(build(d[1]))
    if t == "UnrankedMemRefType":
        return B.UnrankedMemRefType.from_type(build(d[1]), build(d[2]) if len(d) > 2 and d[2] is not None else B.NoneAttr())
    if t == "FunctionType":
        return B.FunctionType.from_lists([build(x) for x in d[1]], [build(x) for x in d[2]])
    if t == "TupleType":
        return B.TupleType([build(x) for x in d[1]])
    if t == "ComplexType":
        return B.ComplexType(build(d[1]))
    if t == "OpaqueAttr":
        return B.OpaqueAttr.from_strings(d[1], d[2], build(d[3]) if len(d) > 3 and d[3] is not None else B.NoneAttr())
    if t == "unpack":                                  # FloatAttr from a raw pattern of a reduced-precision type
        ty = build(d[1])
        return B.FloatAttr(ty.unpack(bytes.fromhex(d[2]), 1)[0], ty)
    raise ValueError(f"unknown desc tag {t!r}")


TAGS = frozenset((
    "i", "index", "f16", "bf16", "f32", "f64", "f80", "f128", "ftype", "IntegerAttr", "FloatAttr", "FloatAttrW", "StringAttr",
    "BytesAttr", "UnitAttr", "NoneAttr", "NoneType", "ArrayAttr", "DictionaryAttr", "SymbolRefAttr", "Dense", "DenseArray",
    "UnknownLoc", "FileLineColLoc", "NameLoc", "CallSiteLoc", "FusedLoc", "AffineMapAttr", "StridedLayoutAttr", "VectorType",
    "TensorType", "MemRefType", "UnrankedTensorType", "UnrankedMemRefType", "FunctionType", "TupleType", "ComplexType",
    "OpaqueAttr", "unpack"))


def desc_size(d: Any) -> int:
    """number of constructor applications in a desc (generator-tree edges)."""
    if isinstance(d, list) and d and isinstance(d[0], str) and d[0] in TAGS:
        return 1 + sum(desc_size(x) for x in d[1:] if isinstance(x, list))
    if isinstance(d, list):
        return sum(desc_size(x) for x in d if isinstance(x, list))
    return 0


def is_type_desc(d: Any) -> bool:
    return d[0] in ("i", "index", "f16", "bf16", "f32", "f64", "f80", "f128", "ftype", "NoneType", "VectorType",
                    "TensorType", "MemRefType", "UnrankedTensorType", "UnrankedMemRefType", "FunctionType",
                    "TupleType", "ComplexType")


# --------------------------------------------------------------------------------------- families
class Family:
    """Indexable deterministic list of descs."""

    def __init__(self, name: str, n: int, get: Callable[[int], Any], note: str = "") -> None:
        self.name, self.n, self.get, self.note = name, n, get, note

    def __len__(self) -> int:
        return self.n

    @staticmethod
    def of(name: str, items: Iterable[Any], note: str = "") -> "Family":
        lst = list(items)
        return Family(name, len(lst), lst.__getitem__, note)


WIDTHS = (1, 2, 3, 8, 16, 32, 64, 128)
SIGNS = ("signless", "signed", "unsigned")
ALPHABET = ("a", '"', "\\", "\n", "\0", "é", "\U0001F600", " ")


def int_candidates(w: int) -> list[int]:
    """{min, -1, 0, 1, max, max_unsigned} (+2, -2 and the first value outside each end, which the constructor
    is expected to refuse for some signedness)."""
    return sorted({-(1 << (w - 1)), -1, 0, 1, (1 << (w - 1)) - 1, (1 << w) - 1, 2, -2, -(1 << (w - 1)) - 1, 1 << w})


def in_range(v: int, w: int, s: str) -> bool:
    lo, hi = {"signless": (-(1 << (w - 1)), 1 << w), "signed": (-(1 << (w - 1)), 1 << (w - 1)),
              "unsigned": (0, 1 << w)}[s]
    return lo <= v < hi


def fam_integer() -> Family:
    out = []
    for w in WIDTHS:
        for s in SIGNS:
            for v in int_candidates(w):
                if in_range(v, w, s):
                    out.append(["IntegerAttr", v, ["i", w, s]])
    for v in (-(1 << 63), -(1 << 63) - 1, -2, -1, 0, 1, 2, (1 << 63) - 1, 1 << 63, (1 << 64) - 1, 1 << 64, 1 << 200):
        out.append(["IntegerAttr", v, ["index"]])
    return Family.of("IntegerAttr", out, "widths 1,2,3,8,16,32,64,128 x signless/signed/unsigned x boundary values in range; index")


def fam_small_float(name: str, fmt: tuple[int, int]) -> Family:
    def get(i: int) -> Any:
        return ["FloatAttr", f"0x{ieee_to_double_bits(i, fmt):016x}", [name]]

    return Family(f"FloatAttr.{name}", 1 << 16, get, f"all 65536 bit patterns of {name}")


M32 = (0, 1, 2, 0x400000, 0x7FFFFF, 0x7FFFFE, 0x2AAAAA, 0x555555, 0x012345, 0x400001, 0x200000, 0x3FFFFF)
M64 = (0, 1, 2, 1 << 51, (1 << 52) - 1, (1 << 52) - 2, 0x5555555555555, 0xAAAAAAAAAAAAA, 0x123456789ABCD,
       (1 << 51) | 1, 1 << 50, (1 << 51) - 1)


def f32_patterns(tier: str) -> list[int]:
    pats: list[int] = []
    for s in (0, 1):
        for e in range(256):
            for m in M32:
                pats.append((s << 31) | (e << 23) | m)
    one = 0x3F800000
    for s in (0, 0x80000000):
        pats += [s | (one + k) for k in range(-4, 5)]
    # contiguous slice of [1000, 1024): 8 decimal digits are too coarse here, 9 are needed for many values
    n = 512 if tier == "quick" else 8192
    pats += [0x447A0000 + k for k in range(n)]
    # integral values whose %.9g has no '.', so the printer's hex fallback is used
    for v in (16777216.0, 16777218.0, 123456792.0, 1e9, 2.0 ** 31, 2.0 ** 63, 2.0 ** 100, 1e10, 0.1, 1e-10, 3.0e38):
        b = struct.unpack("<I", struct.pack("<f", v))[0]
        pats += [b, b | 0x80000000]
    seen: set[int] = set()
    return [p for p in pats if not (p in seen or seen.add(p))]


def f64_patterns(tier: str) -> list[int]:
    exps = list(range(2048)) if tier != "quick" else list(range(0, 64)) + list(range(960, 1100)) + list(range(1984, 2048))
    pats: list[int] = []
    for s in (0, 1):
        for e in exps:
            for m in M64:
                pats.append((s << 63) | (e << 52) | m)
    one = 0x3FF0000000000000
    for s in (0, 1 << 63):
        pats += [s | (one + k) for k in range(-4, 5)]
    n = 512 if tier == "quick" else 8192
    pats += [0x408F400000000000 + k for k in range(n)]         # [1000, 1000 + n ulp): need 17 digits
    for v in (9007199254740992.0, 9007199254740994.0, 1e17, 1e22, 1e23, 2.0 ** 63, 2.0 ** 64, 0.1, 0.3, 1e-320, 5e-324,
              1.7976931348623157e308, 2.2250738585072014e-308, 123456789012345680.0):
        b = double_bits(v)
        pats += [b, b | (1 << 63)]
    seen: set[int] = set()
    return [p for p in pats if not (p in seen or seen.add(p))]


def fam_f32(tier: str) -> Family:
    pats = f32_patterns(tier)
    return Family("FloatAttr.f32", len(pats), lambda i: ["FloatAttr", f"0x{ieee_to_double_bits(pats[i], F32):016x}", ["f32"]],
                  "sign x all 256 exponent fields x 12 mantissas; 1+-k ulp k<=4; contiguous slice above 1000.0; hex-fallback integers")


def fam_f32_unit_interval() -> Family:
    """thorough only: every f32 in [1, 2)."""
    return Family("FloatAttr.f32.[1,2)", 1 << 23,
                  lambda i: ["FloatAttr", f"0x{ieee_to_double_bits(0x3F800000 + i, F32):016x}", ["f32"]],
                  "all 2^23 f32 values in [1,2)")


def fam_f64(tier: str) -> Family:
    pats = f64_patterns(tier)
    return Family("FloatAttr.f64", len(pats), lambda i: ["FloatAttr", f"0x{pats[i]:016x}", ["f64"]],
                  "sign x exponent fields (quick: 0..63, 960..1099, 1984..2047; thorough: all 2048) x 12 mantissas; "
                  "1+-k ulp; contiguous slice above 1000.0; hex-fallback integers")


REDUCED = ("Float8E5M2Type", "Float8E4M3Type", "Float8E4M3FNType", "Float8E5M2FNUZType", "Float8E4M3FNUZType",
           "Float8E4M3B11FNUZType", "Float8E3M4Type", "Float8E8M0FNUType", "Float6E2M3FNType", "Float6E3M2FNType",
           "Float4E2M1FNType")
REDUCED_BITS = {"Float6E2M3FNType": 6, "Float6E3M2FNType": 6, "Float4E2M1FNType": 4}


def fam_reduced() -> Family:
    out = []
    for cls in REDUCED:
        for p in range(1 << REDUCED_BITS.get(cls, 8)):
            out.append(["unpack", ["ftype", cls], f"{p:02x}"])
    return Family.of("FloatAttr.reduced", out, "every bit pattern of the 8/6/4-bit float types (value obtained with type.unpack)")


def fam_tf32(tier: str) -> Family:
    if tier == "quick":
        pats = [(s << 18) | (e << 10) | m for s in (0, 1) for e in range(256) for m in (0, 1, 0x200, 0x3FF, 0x155)]
    else:
        pats = list(range(1 << 19))
    return Family("FloatAttr.tf32", len(pats),
                  lambda i: ["unpack", ["ftype", "FloatTF32Type"], pats[i].to_bytes(3, "little").hex()],
                  "tf32: quick sign x all exponents x 5 mantissas, thorough all 2^19 patterns")


def fam_wide_float() -> Family:
    out = []
    for t in ("f80", "f128"):
        for v in (0.0, -0.0, 1.0, 1.5, 0.1, float("inf"), float("nan")):
            out.append(["FloatAttr", fhex(v), [t]])
    return Family.of("FloatAttr.wide", out, "f80/f128 (recorded as outcomes only: no packing format exists for them)")


def strings(maxlen: int) -> list[str]:
    out = []
    for n in range(maxlen + 1):
        for tup in itertools.product(ALPHABET, repeat=n):
            out.append("".join(tup))
    return out


def fam_string(tier: str) -> Family:
    n = 2 if tier == "quick" else 3
    return Family.of("StringAttr", (["StringAttr", s] for s in strings(n)), f"all strings of length <= {n} over {ALPHABET!r}")


BYTE2 = (0x00, 0x22, 0x5C, 0x0A, 0x7F, 0x80, 0xFF, 0x41, 0x20, 0x30, 0x46)


def fam_bytes() -> Family:
    out = [["BytesAttr", ""]]
    out += [["BytesAttr", f"{b:02x}"] for b in range(256)]
    out += [["BytesAttr", f"{a:02x}{b:02x}"] for a in BYTE2 for b in BYTE2]
    out += [["BytesAttr", "5c3030"], ["BytesAttr", "5c5c22"], ["BytesAttr", "c3a9"], ["BytesAttr", "f09f9880"]]
    return Family.of("BytesAttr", out, "empty, all 1-byte, all 2-byte over 11 boundary bytes, 4 longer")


# ---- dense
def fbits(name: str) -> list[str]:
    """boundary element pool of a float element type (as double hex)."""
    fmt = FMT[name]
    eb, mb = fmt
    w = 1 + eb + mb
    sign = 1 << (w - 1)
    expmask = ((1 << eb) - 1) << mb
    one = ((1 << (eb - 1)) - 1) << mb
    pats = [0, sign, one, sign | one, expmask | (1 << (mb - 1)), expmask | (1 << (mb - 1)) | 1, sign | expmask | 1,
            expmask, sign | expmask, 1, expmask - 1, one + 1]
    # an integral value beyond 2^(mantissa bits + 1): f32/f64 print it with the hexadecimal fallback
    pats.append((((1 << (eb - 1)) - 1 + mb + 1) << mb))
    return [f"0x{ieee_to_double_bits(p, fmt):016x}" for p in pats]


def ibits(w: int, s: str = "signless") -> list[int]:
    return [v for v in (0, 1, -1, -(1 << (w - 1)), (1 << (w - 1)) - 1, (1 << w) - 1) if in_range(v, w, s)]


DENSE_ELEMS = ("i1", "i8", "i32", "i64", "index", "f16", "f32", "f64", "bf16", "ui8", "si8")
SHAPES = ([], [0], [1], [2], [2, 2])


def elem_type_desc(e: str) -> Any:
    if e == "index":
        return ["index"]
    if e[0] == "f" or e == "bf16":
        return [e]
    if e.startswith("ui"):
        return ["i", int(e[2:]), "unsigned"]
    if e.startswith("si"):
        return ["i", int(e[2:]), "signed"]
    return ["i", int(e[1:]), "signless"]


def elem_pool(e: str) -> list[Any]:
    if e == "index":
        return [0, 1, -1, -(1 << 63), (1 << 63) - 1]
    if e in FMT:
        return fbits(e)
    t = elem_type_desc(e)
    return ibits(t[1], t[2])


def fam_dense(tier: str) -> Family:
    out = []
    k4 = 3 if tier == "quick" else 5                 # pool prefix used for the 4-element shape
    for e in DENSE_ELEMS:
        et = elem_type_desc(e)
        pool = elem_pool(e)
        for shape in SHAPES:
            n = 1
            for dim in shape:
                n *= dim
            conts = [["TensorType", et, shape]]
            if shape and 0 not in shape and e in ("i8", "i32", "f32", "index"):
                conts.append(["VectorType", et, shape])
            if shape == [2] and e in ("i32", "f32"):
                conts.append(["MemRefType", et, shape])
            for c in conts:
                if n == 0:
                    out.append(["Dense", c, []])
                    continue
                # splat form: one element given to from_list
                if n != 1:
                    for v in pool:
                        out.append(["Dense", c, [v]])
                # full form: every n-tuple over the (prefix of the) boundary pool
                p = pool if n <= 2 else pool[:k4]
                for tup in itertools.product(p, repeat=n):
                    out.append(["Dense", c, list(tup)])
    # complex element types (pairs)
    # float pools include nan / +-inf: the printer falls back to hexadecimal bit patterns for them inside the pair
    fpool = lambda n: [fbits(n)[i] for i in (0, 1, 2, 4, 7, 8)]  # noqa: E731
    for e, pool in (("f32", fpool("f32")), ("f64", fpool("f64")), ("i32", [0, -1, 5])):
        ct = ["ComplexType", elem_type_desc(e)]
        pairs = [[a, b] for a in pool for b in pool]
        for shape in ([], [1], [2]):
            n = 2 if shape == [2] else 1
            if n == 2:
                for v in pairs:
                    out.append(["Dense", ["TensorType", ct, shape], [v]])
            for tup in itertools.product(pairs if n == 1 else pairs[:6], repeat=n):
                out.append(["Dense", ["TensorType", ct, shape], list(tup)])
    return Family.of("DenseIntOrFPElementsAttr", out,
                     f"shapes [],[0],[1],[2],[2,2] x {DENSE_ELEMS} x tensor(+vector/memref) x splat / every tuple over the "
                     f"boundary pool (4-element shapes: first {k4} pool values); complex<f32>/complex<i32> pairs")


def fam_dense_array(tier: str) -> Family:
    out = []
    maxlen = 2 if tier == "quick" else 3
    for e in ("i1", "i8", "i16", "i32", "i64", "f16", "f32", "f64", "bf16", "ui8", "si32"):
        et = elem_type_desc(e)
        pool = elem_pool(e)
        pool3 = pool[:6]
        for n in range(maxlen + 1):
            for tup in itertools.product(pool if n < 3 else pool3, repeat=n):
                out.append(["DenseArray", et, list(tup)])
    return Family.of("DenseArrayBase", out, f"11 element types x every list of length <= {maxlen} over the boundary pool")


# ---- leaves and containers
def leaf_pool() -> list[Any]:
    nanp = f"0x{ieee_to_double_bits(0x7FC12345, F32):016x}"
    return [
        ["IntegerAttr", 1, ["i", 32, "signless"]],
        ["IntegerAttr", 1, ["i", 1, "signless"]],
        ["IntegerAttr", -1, ["i", 8, "signed"]],
        ["FloatAttr", fhex(-0.0), ["f32"]],
        ["FloatAttr", nanp, ["f32"]],
        ["FloatAttr", fhex(0.1), ["f64"]],
        ["StringAttr", 'a"\\\n'],
        ["UnitAttr"],
        ["i", 32, "signless"],
        ["index"],
        ["SymbolRefAttr", "needs quote", ["b"]],
        ["Dense", ["TensorType", ["f32"], [2]], [fhex(0.0), fhex(-0.0)]],
        ["AffineMapAttr", 1, 0, [["d", 0]]],
        ["UnknownLoc"],
        ["FunctionType", [["i", 32, "signless"]], []],
        ["BytesAttr", "00ff"],
    ]


KEYS = ("a", "_b1", "has space", "é", "1a", "a.b", "", "aé", "e\u0301")   # last two: a non-ASCII letter / combining mark AFTER an
#                                                                          ASCII start - a Python identifier, not an MLIR bare id (C06-m8)


def containers1(leaves: Sequence[Any], kv: Sequence[Any]) -> list[Any]:
    out = []
    for n in range(3):
        for tup in itertools.product(leaves, repeat=n):
            out.append(["ArrayAttr", list(tup)])
    for k in KEYS:
        for v in leaves:
            out.append(["DictionaryAttr", [[k, v]]])
    for k1, k2 in itertools.permutations(KEYS[:5], 2):
        for v1, v2 in itertools.product(kv, repeat=2):
            out.append(["DictionaryAttr", [[k1, v1], [k2, v2]]])
    out.append(["DictionaryAttr", []])
    return out


def fam_containers(tier: str) -> Family:
    leaves = leaf_pool()
    kv = leaves[:4] + [leaves[7]] if tier == "quick" else leaves[:8]
    d1 = containers1(leaves, kv)
    # depth 2: containers over a pool of 4 leaves + 8 depth-1 containers
    inner = [leaves[0], leaves[3], leaves[7], leaves[8],
             ["ArrayAttr", []], ["ArrayAttr", [leaves[3]]], ["ArrayAttr", [leaves[0], leaves[8]]],
             ["DictionaryAttr", []], ["DictionaryAttr", [["a", leaves[7]]]], ["DictionaryAttr", [["has space", leaves[4]]]],
             ["ArrayAttr", [leaves[7], leaves[7]]], ["DictionaryAttr", [["b", leaves[0]], ["a", leaves[3]]]]]
    d2 = []
    for n in (1, 2):
        for tup in itertools.product(inner, repeat=n):
            if any(x[0] in ("ArrayAttr", "DictionaryAttr") for x in tup):
                d2.append(["ArrayAttr", list(tup)])
    for k in ("a", "has space"):
        for v in inner[4:]:
            d2.append(["DictionaryAttr", [[k, v]]])
    for v1, v2 in itertools.product(inner[4:], repeat=2):
        d2.append(["DictionaryAttr", [["x", v1], ["y", v2]]])
    return Family.of("ArrayAttr/DictionaryAttr", d1 + d2,
                     "arrays of length <= 2 and dictionaries with <= 2 entries over a 16-leaf pool; depth 2 over 4 leaves + 8 containers")


SYMS = ("a", "a.b", "needs quote", "0", "é", 'q"\\', "", "_x$1", "\n", "aé")


def fam_symbol(tier: str) -> Family:
    out = []
    depth = 2
    for root in SYMS:
        for n in range(depth + 1):
            for nest in itertools.product(SYMS if n < 2 else SYMS[:5], repeat=n):
                out.append(["SymbolRefAttr", root, list(nest)])
    return Family.of("SymbolRefAttr", out, f"root x nested path of length <= 2 over {SYMS!r}")


def fam_locations() -> Family:
    files = ("f.mlir", 'q"\\', "", "é \n")
    base = [["UnknownLoc"]]
    for f in files:
        for line, col in ((0, 0), (1, 2), (2 ** 31, 2 ** 32 + 1)):
            base.append(["FileLineColLoc", f, line, col])
    names = ("n", "has space", 'q"')
    lvl1 = list(base)
    for n in names:
        lvl1.append(["NameLoc", n, ["NoneAttr"]])
        for b in base[:3]:
            lvl1.append(["NameLoc", n, b])
    small = base[:3]
    for a in small:
        for b in small:
            lvl1.append(["CallSiteLoc", a, b])
    for n in range(3):
        for tup in itertools.product(small, repeat=n):
            lvl1.append(["FusedLoc", list(tup), ["NoneAttr"]])
    lvl1.append(["FusedLoc", [small[0]], ["StringAttr", "meta"]])
    lvl1.append(["FusedLoc", [small[0], small[1]], ["IntegerAttr", 1, ["i", 32, "signless"]]])
    # depth 2
    mid = [["NameLoc", "n", ["UnknownLoc"]], ["CallSiteLoc", small[0], small[1]], ["FusedLoc", [small[1]], ["NoneAttr"]],
           ["FusedLoc", [], ["NoneAttr"]], ["NameLoc", "m", ["NoneAttr"]]]
    lvl2 = []
    for m in mid:
        lvl2.append(["NameLoc", "outer", m])
        lvl2.append(["CallSiteLoc", m, small[0]])
        lvl2.append(["CallSiteLoc", small[1], m])
        lvl2.append(["FusedLoc", [m, small[0]], ["NoneAttr"]])
    return Family.of("locations", lvl1 + lvl2, "UnknownLoc, FileLineColLoc, NameLoc, CallSiteLoc, FusedLoc nested to depth 2")


def fam_affine() -> Family:
    d0, d1, s0 = ["d", 0], ["d", 1], ["s", 0]
    maps = [
        [0, 0, []], [1, 0, [d0]], [2, 0, [d0, d1]], [2, 0, [d1, d0]], [0, 0, [["c", 0]]], [0, 0, [["c", -1]]],
        [0, 0, [["c", 1 << 40]]], [2, 1, [["+", d0, s0]]], [1, 0, [["*", d0, 2]]], [1, 0, [["*", d0, -1]]],
        [1, 0, [["mod", d0, 3]]], [1, 0, [["floordiv", d0, 2]]], [1, 0, [["ceildiv", d0, 4]]],
        [2, 1, [["+", ["+", ["+", d0, ["*", d1, 2]], s0], 5]]], [1, 0, [["+", d0, -1]]], [2, 0, [["-", d0, d1]]],
        [2, 1, [["*", ["+", d0, d1], 3], ["mod", ["+", d0, s0], 2]]], [1, 1, [["+", ["*", d0, 4], ["*", s0, 2]]]],
        [1, 0, [["floordiv", ["+", d0, 1], 2]]], [3, 0, [["d", 2], d0]], [0, 2, [s0, ["s", 1]]], [2, 0, []],
        [1, 0, [["mod", ["*", d0, 2], 4]]], [1, 0, [["+", ["*", d0, -2], -3]]],
    ]
    return Family.of("AffineMapAttr", (["AffineMapAttr"] + m for m in maps), "24 maps built with the AffineExpr operators")


def scalar_types() -> list[Any]:
    return [["i", 1, "signless"], ["i", 32, "signless"], ["i", 8, "signed"], ["i", 16, "unsigned"], ["index"], ["f16"], ["bf16"],
            ["f32"], ["f64"], ["i", 128, "signless"], ["i", 0, "signless"]]


DYN = "?"          # dynamic dimension marker in descs (mapped to builtin.DYNAMIC_INDEX by build)


def fam_types(tier: str) -> Family:
    sc = scalar_types()
    out: list[Any] = list(sc) + [["f80"], ["f128"], ["NoneType"], ["UnitAttr"]]
    out += [["ftype", c] for c in REDUCED + ("FloatTF32Type",)]
    for w in WIDTHS:
        for s in SIGNS:
            out.append(["i", w, s])
    out += [["ComplexType", t] for t in sc[:9] if t != ["index"]]
    shapes = ([], [0], [1], [2, 3], [DYN], [2, DYN, 4], [DYN, DYN], [1 << 40])
    elts = [sc[1], sc[7], sc[4], ["ComplexType", sc[7]]]
    for e in elts:
        for sh in shapes:
            out.append(["TensorType", e, sh])
            out.append(["MemRefType", e, sh])
            if DYN not in sh:
                out.append(["VectorType", e, sh])
        out.append(["UnrankedTensorType", e])
        out.append(["UnrankedMemRefType", e])
        out.append(["UnrankedMemRefType", e, ["IntegerAttr", 1, ["i", 32, "signless"]]])
    # nested shaped element types
    out.append(["TensorType", ["VectorType", sc[7], [4]], [2]])
    out.append(["MemRefType", ["VectorType", sc[1], [2, 2]], [DYN]])
    out.append(["TensorType", ["TensorType", sc[7], [1]], [1]])
    # scalable vectors
    for flags in itertools.product((False, True), repeat=2):
        out.append(["VectorType", sc[7], [2, 4], list(flags)])
    out.append(["VectorType", sc[1], [8], [True]])
    # tensor encodings
    for enc in (["StringAttr", "enc"], ["IntegerAttr", 1, ["i", 64, "signless"]], ["DictionaryAttr", [["a", ["UnitAttr"]]]], ["UnitAttr"]):
        out.append(["TensorType", sc[7], [2], enc])
        out.append(["TensorType", sc[7], [], enc])
    # memref layouts / memory spaces
    layouts = [["StridedLayoutAttr", [1], 0], ["StridedLayoutAttr", [4, 1], 0], ["StridedLayoutAttr", [4, 1], 7],
               ["StridedLayoutAttr", [None, 1], None], ["StridedLayoutAttr", [], 0], ["StridedLayoutAttr", [-1, 1], -2],
               ["AffineMapAttr", 2, 0, [["d", 1], ["d", 0]]], ["AffineMapAttr", 2, 1, [["+", ["d", 0], ["s", 0]], ["d", 1]]]]
    spaces = [None, ["IntegerAttr", 1, ["i", 32, "signless"]], ["IntegerAttr", 2, ["index"]], ["StringAttr", "gpu"], ["UnitAttr"]]
    for lay in [None] + layouts:
        for ms in spaces:
            if lay is None and ms is None:
                continue
            out.append(["MemRefType", sc[7], [2, 2], lay, ms])
    out += layouts
    # function / tuple types
    small = [sc[1], sc[7], ["TensorType", sc[7], [2]], ["FunctionType", [], []], ["FunctionType", [sc[1]], [sc[1]]],
             ["TupleType", []], ["NoneType"]]
    for ni in range(3):
        for ins in itertools.product(small, repeat=ni):
            for no in range(3):
                for outs in itertools.product(small if ni < 2 else small[:4], repeat=no):
                    out.append(["FunctionType", list(ins), list(outs)])
    for n in range(3):
        for tup in itertools.product(small, repeat=n):
            out.append(["TupleType", list(tup)])
    out.append(["TupleType", [["TupleType", [["TupleType", []]]]]])
    out += [["OpaqueAttr", "d", "v"], ["OpaqueAttr", 'q"', "\\\n", sc[1]], ["OpaqueAttr", "", ""]]
    seen: set[str] = set()
    uniq = []
    for d in out:
        r = repr(d)
        if r not in seen:
            seen.add(r)
            uniq.append(d)
    return Family.of("types", uniq, "scalar / complex / vector / tensor / memref (static, dynamic, 0-d, scalable, encodings, "
                                   "strided+affine layouts, memory spaces) / function / tuple types, OpaqueAttr")


def families(tier: str) -> list[Family]:
    fs = [fam_integer(), fam_small_float("f16", F16), fam_small_float("bf16", BF16), fam_f32(tier), fam_f64(tier),
          fam_reduced(), fam_tf32(tier), fam_wide_float(), fam_string(tier), fam_bytes(), fam_dense(tier),
          fam_dense_array(tier), fam_containers(tier), fam_symbol(tier), fam_locations(), fam_affine(), fam_types(tier)]
    if tier != "quick":
        fs.append(fam_f32_unit_interval())
    return fs


def bounds(tier: str) -> dict[str, Any]:
    return {f.name: {"cases": len(f), "space": f.note} for f in families(tier)}


# --------------------------------------------------------------------------------------- boundary pool for C08
def boundary_pool() -> list[Any]:
    """~ 220 descs: boundary leaves, float payload twins bare and nested."""
    out: list[Any] = []
    for w in (1, 8, 32, 64):
        for s in SIGNS:
            for v in (0, 1, -1, (1 << w) - 1):
                if in_range(v, w, s):
                    out.append(["IntegerAttr", v, ["i", w, s]])
    out += [["IntegerAttr", v, ["index"]] for v in (0, 1, -1)]
    twins: list[Any] = []
    for name in ("f16", "bf16", "f32", "f64"):
        fmt = FMT[name]
        eb, mb = fmt
        w = 1 + eb + mb
        sign = 1 << (w - 1)
        expmask = ((1 << eb) - 1) << mb
        q = 1 << (mb - 1)
        one = ((1 << (eb - 1)) - 1) << mb
        for p in (0, sign, one, expmask | q, expmask | q | 1, sign | expmask | q, expmask | 1, expmask, sign | expmask, 1):
            twins.append(["FloatAttr", f"0x{ieee_to_double_bits(p, fmt):016x}", [name]])
    out += twins
    out += [["FloatAttrW", fhex(1.0), 32], ["FloatAttrW", fhex(0.0), 64]]
    out += [["StringAttr", s] for s in ("", "a", "A", "a ", "\0", "é", "é", "\U0001F600")]
    out += [["BytesAttr", h] for h in ("", "00", "61", "c3a9")]
    out += [["UnitAttr"], ["NoneAttr"], ["NoneType"], ["UnknownLoc"], ["FileLineColLoc", "f", 1, 2], ["FileLineColLoc", "f", 2, 1],
            ["NameLoc", "n", ["NoneAttr"]], ["NameLoc", "n", ["UnknownLoc"]], ["CallSiteLoc", ["UnknownLoc"], ["FileLineColLoc", "f", 1, 2]],
            ["FusedLoc", [["UnknownLoc"]], ["NoneAttr"]], ["FusedLoc", [], ["NoneAttr"]]]
    out += [["SymbolRefAttr", "a", []], ["SymbolRefAttr", "a", ["b"]], ["SymbolRefAttr", "a.b", []], ["SymbolRefAttr", "b", ["a"]]]
    out += [["AffineMapAttr", 1, 0, [["d", 0]]], ["AffineMapAttr", 2, 0, [["d", 0]]], ["AffineMapAttr", 1, 1, [["s", 0]]],
            ["AffineMapAttr", 1, 0, [["+", ["d", 0], 1]]], ["AffineMapAttr", 0, 0, [["c", 1]]]]
    out += scalar_types()
    f32z, f32nz = ["FloatAttr", fhex(0.0), ["f32"]], ["FloatAttr", fhex(-0.0), ["f32"]]
    f64z, f64nz = ["FloatAttr", fhex(0.0), ["f64"]], ["FloatAttr", fhex(-0.0), ["f64"]]
    nan1 = ["FloatAttr", f"0x{ieee_to_double_bits(0x7FC00000, F32):016x}", ["f32"]]
    nan2 = ["FloatAttr", f"0x{ieee_to_double_bits(0x7FC00001, F32):016x}", ["f32"]]
    nan3 = ["FloatAttr", f"0x{ieee_to_double_bits(0xFFC00000, F32):016x}", ["f32"]]
    i1, i0 = ["IntegerAttr", 1, ["i", 32, "signless"]], ["IntegerAttr", 0, ["i", 32, "signless"]]
    nested = [f32z, f32nz, nan1, nan2, nan3, f64z, f64nz, i1, i0]
    out += [["ArrayAttr", []], ["ArrayAttr", [i1, i0]], ["ArrayAttr", [i0, i1]], ["ArrayAttr", [i1, i1]], ["ArrayAttr", [i1]],
            ["ArrayAttr", [["ArrayAttr", []]]]]
    out += [["ArrayAttr", [x]] for x in nested]
    out += [["DictionaryAttr", [["a", x]]] for x in nested]
    out += [["DictionaryAttr", []], ["DictionaryAttr", [["a", i1], ["b", i0]]], ["DictionaryAttr", [["b", i0], ["a", i1]]],
            ["DictionaryAttr", [["a", i0], ["b", i1]]], ["DictionaryAttr", [["b", i1]]]]
    out += [["ArrayAttr", [["DictionaryAttr", [["k", x]]]]] for x in (f32z, f32nz, nan1, nan2)]
    t2 = ["TensorType", ["f32"], [2]]
    z, nz = fhex(0.0), fhex(-0.0)
    n1 = f"0x{ieee_to_double_bits(0x7FC00000, F32):016x}"
    n2 = f"0x{ieee_to_double_bits(0x7FC00001, F32):016x}"
    for elems in ([z], [nz], [z, nz], [nz, z], [n1], [n2], [n1, n2], [z, n1]):
        out.append(["Dense", t2, elems])
    out += [["Dense", ["TensorType", ["f64"], [1]], [x]] for x in (z, nz)]
    out += [["Dense", ["TensorType", ["i", 32, "signless"], [2]], e] for e in ([0], [0, 0], [0, 1], [1, 0], [-1])]
    out += [["Dense", ["VectorType", ["i", 32, "signless"], [2]], [0]], ["Dense", ["TensorType", ["i", 64, "signless"], [1]], [0]],
            ["Dense", ["TensorType", ["i", 8, "signless"], [4]], [0]], ["Dense", ["TensorType", ["i", 32, "signless"], [1]], [0]]]
    out += [["DenseArray", ["f32"], [z]], ["DenseArray", ["f32"], [nz]], ["DenseArray", ["f32"], [n1]], ["DenseArray", ["f32"], [n2]],
            ["DenseArray", ["i", 32, "signless"], [0]], ["DenseArray", ["i", 32, "signless"], []], ["DenseArray", ["i", 8, "signless"], [0, 0, 0, 0]],
            ["DenseArray", ["i", 64, "signless"], []], ["DenseArray", ["f64"], [z]], ["DenseArray", ["i", 64, "signless"], [0]]]
    out += [["TensorType", ["f32"], [2]], ["TensorType", ["f32"], [2], ["UnitAttr"]], ["TensorType", ["f32"], [DYN]], ["TensorType", ["f32"], []],
            ["VectorType", ["f32"], [2]], ["VectorType", ["f32"], [2], [True]], ["VectorType", ["f32"], [2], [False]],
            ["MemRefType", ["f32"], [2]], ["MemRefType", ["f32"], [2], ["StridedLayoutAttr", [1], 0]],
            ["MemRefType", ["f32"], [2], None, ["IntegerAttr", 0, ["i", 32, "signless"]]], ["UnrankedTensorType", ["f32"]],
            ["UnrankedMemRefType", ["f32"]], ["ComplexType", ["f32"]], ["ComplexType", ["f64"]],
            ["FunctionType", [], []], ["FunctionType", [["f32"]], []], ["FunctionType", [], [["f32"]]],
            ["FunctionType", [["f32"], ["f64"]], []], ["FunctionType", [["f64"], ["f32"]], []],
            ["TupleType", []], ["TupleType", [["f32"]]], ["TupleType", [["TupleType", []]]],
            ["StridedLayoutAttr", [1], 0], ["StridedLayoutAttr", [1], None], ["StridedLayoutAttr", [None], 0],
            ["OpaqueAttr", "d", "v"], ["OpaqueAttr", "d", "v", ["f32"]]]
    seen: set[str] = set()
    uniq = []
    for d in out:
        r = repr(d)
        if r not in seen:
            seen.add(r)
            uniq.append(d)
    return uniq


# --------------------------------------------------------------------------------------- expected payloads
# Harness-side EXPECTED payload of a desc, computed from the desc alone (never from the built object), so that
# a constructor that silently changes the data it is given is visible.  Conventions taken from the documented
# behaviour of the constructors and nothing else:
#   * signless / signed integers are stored as their signed representative ("ambiguous values will always be
#     negative"), unsigned ones as they are; an element occupies 1/2/4/8 bytes, little endian, two's complement;
#   * a float element is the IEEE pattern of its type; NaNs are compared modulo quieting (the hardware sets the
#     quiet bit when a signalling NaN is narrowed) and, for f16, modulo the payload (CPython's half-float packing
#     keeps only the sign of a NaN) - both are applied to the expected AND the observed pattern;
#   * from_list with ONE element and a shape of n != 1 elements is a splat of that element.
def elem_layout(t: Any) -> tuple[str, int, str, int, str]:
    """(printable name, byte size, kind in int/f16/bf16/f32/f64, width, signedness) of a scalar element type desc."""
    if t[0] == "index":
        return "index", 8, "int", 64, "signless"
    if t[0] in FMT:
        return t[0], {"f16": 2, "bf16": 2, "f32": 4, "f64": 8}[t[0]], t[0], 0, ""
    if t[0] == "i":
        w = t[1]
        size = 1 if w <= 8 else 2 if w <= 16 else 4 if w <= 32 else 8
        return {"signless": "i", "signed": "si", "unsigned": "ui"}[t[2]] + str(w), size, "int", w, t[2]
    raise ValueError(t)


def norm_int(v: int, w: int, s: str, is_index: bool = False) -> int:
    if is_index or s == "unsigned" or w == 0:
        return v
    half = 1 << (w - 1)
    return ((v + half) % (1 << w)) - half


def canon_float_bits(p: int, kind: str) -> int:
    eb, mb = FMT[kind]
    expmask = ((1 << eb) - 1) << mb
    if p & expmask == expmask and p & ((1 << mb) - 1):
        if kind == "f16":
            return (p & (1 << (eb + mb))) | expmask | (1 << (mb - 1))
        return p | (1 << (mb - 1))
    return p


def _expected_elem(v: Any, t: Any) -> list[int] | None:
    """expected stored bit pattern(s) of one element given in a desc"""
    if t[0] == "ComplexType":
        a, b = _expected_elem(v[0], t[1]), _expected_elem(v[1], t[1])
        return None if a is None or b is None else a + b
    name, size, kind, w, s = elem_layout(t)
    if kind == "int":
        return [norm_int(v, w, s, t[0] == "index") % (1 << (8 * size))]
    nb = narrow_bits(int(v, 16), FMT[kind])
    return None if nb is None else [canon_float_bits(nb, kind)]


def _scalar(t: Any) -> Any:
    return t[1] if t[0] == "ComplexType" else t


def expected_payload(d: Any) -> tuple | None:
    """hashable expected payload of a leaf desc: (tag, type desc repr, canonical element patterns) or None"""
    t = d[0]
    if t in ("Dense", "DenseArray"):
        et = d[1][1] if t == "Dense" else d[1]
        elems = list(d[2])
        if t == "Dense":
            n = 1
            for dim in d[1][2]:
                n *= dim
            if len(elems) == 1 and n != 1:
                elems = elems * n
        out: list[int] = []
        for v in elems:
            e = _expected_elem(v, et)
            if e is None:
                return None
            out += e
        return (t, repr(d[1]), tuple(out))
    if t == "FloatAttr" and d[2][0] in FMT:
        nb = narrow_bits(int(d[1], 16), FMT[d[2][0]])
        return None if nb is None else (t, d[2][0], (canon_float_bits(nb, d[2][0]),))
    if t == "IntegerAttr":
        if d[2][0] == "index":
            return (t, "index", (d[1],))
        return (t, repr(d[2]), (norm_int(d[1], d[2][1], d[2][2]),))
    return None


def observed_payload(d: Any, x: Any) -> tuple | None:
    """the same shape of value, read from the BUILT attribute (raw buffer with struct / stored python number)"""
    t = d[0]
    if t in ("Dense", "DenseArray"):
        et = d[1][1] if t == "Dense" else d[1]
        _, size, kind, _, _ = elem_layout(_scalar(et))
        buf = bytes(x.data.data)
        if len(buf) % size:
            return (t, repr(d[1]), ("bad-length", len(buf)))
        vals = [v[0] for v in struct.iter_unpack("<" + {1: "B", 2: "H", 4: "I", 8: "Q"}[size], buf)]
        if kind != "int":
            vals = [canon_float_bits(v, kind) for v in vals]
        return (t, repr(d[1]), tuple(vals))
    if t == "FloatAttr" and d[2][0] in FMT:
        nb = narrow_bits(double_bits(x.value.data), FMT[d[2][0]])
        return (t, d[2][0], (None if nb is None else canon_float_bits(nb, d[2][0]),))
    if t == "IntegerAttr":
        return (t, "index" if d[2][0] == "index" else repr(d[2]), (int(x.value.data),))
    return None


# ---- harness-written literals (never the printer)
def _type_text(t: Any) -> str:
    if t[0] == "ComplexType":
        return f"complex<{_type_text(t[1])}>"
    if t[0] in ("TensorType", "VectorType", "MemRefType"):
        dims = "".join(f"{dim}x" for dim in t[2])
        return {"TensorType": "tensor", "VectorType": "vector", "MemRefType": "memref"}[t[0]] + f"<{dims}{_type_text(t[1])}>"
    return elem_layout(t)[0]


def _elem_text(v: Any, t: Any) -> str:
    if t[0] == "ComplexType":
        return f"({_elem_text(v[0], t[1])}, {_elem_text(v[1], t[1])})"
    name, size, kind, w, s = elem_layout(t)
    if kind == "int":
        if w == 1 and t[0] != "index":
            return "true" if v else "false"
        return str(v)
    db = int(v, 16)
    if (db >> 52) & 0x7FF == 0x7FF:                      # inf / nan: the bit pattern of the element type in hex
        return f"0x{narrow_bits(db, FMT[kind]):0{2 * size}X}"
    return f"{bits_double(db):.17e}"                      # always contains '.', identifies the double exactly


def literal(d: Any) -> str | None:
    """MLIR text of a Dense / DenseArray desc written by the harness from the desc alone."""
    t = d[0]
    if t == "Dense":
        et, shape, elems = d[1][1], d[1][2], d[2]
        n = 1
        for dim in shape:
            n *= dim
        if not elems:
            body = ""
        elif len(elems) == 1 and (n != 1 or not shape):
            body = _elem_text(elems[0], et)
        else:
            def nest(vals: list[Any], dims: list[int]) -> str:
                if len(dims) <= 1:
                    return "[" + ", ".join(_elem_text(v, et) for v in vals) + "]"
                k = len(vals) // dims[0]
                return "[" + ", ".join(nest(vals[i:i + k], dims[1:]) for i in range(0, len(vals), k)) + "]"
            body = nest(list(elems), list(shape))
        return f"dense<{body}> : {_type_text(d[1])}"
    if t == "DenseArray":
        if not d[2]:
            return f"array<{_type_text(d[1])}>"
        return f"array<{_type_text(d[1])}: " + ", ".join(_elem_text(v, d[1]) for v in d[2]) + ">"
    return None
