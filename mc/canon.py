"""Independent canonical form of IR forests (the isomorphism oracle).

canon(roots) serialises ops / blocks / regions into nested tuples.  Values and blocks defined
inside the forest are numbered in definition order (a pre-pass, so forward references and graph
regions need no special case); anything defined outside is a free variable identified by object
identity.  Because MLIR equivalence respects the order of blocks, ops, operands and results, the
correspondence between two isomorphic forests is forced, hence   isomorphic <=> equal canon.

Never calls is_structurally_equivalent, Attribute.__eq__ or the printer: attributes are keyed
structurally (class + parameters, floats by bit pattern).
"""
from __future__ import annotations

import enum
import struct
from collections.abc import Mapping
from typing import Any, Iterable, Sequence


def data_key(d: Any) -> Any:
    from xdsl.ir import Attribute

    if isinstance(d, Attribute):
        return attr_key(d)
    if isinstance(d, bool):
        return ("i", int(d))  # Python: True == 1; IntAttr(True) and IntAttr(1) denote the same payload
    if isinstance(d, int):
        return ("i", d)
    if isinstance(d, float):
        return ("f", struct.pack("<d", d))
    if isinstance(d, str):
        return ("s", d)
    if isinstance(d, (bytes, bytearray)):
        return ("y", bytes(d))
    if isinstance(d, enum.Enum):
        return ("e", type(d).__qualname__, d.name)
    if isinstance(d, (tuple, list)):
        return ("t", tuple(data_key(x) for x in d))
    if isinstance(d, (set, frozenset)):
        return ("S", tuple(sorted((data_key(x) for x in d), key=repr)))
    if isinstance(d, Mapping):   # dict, immutabledict (DictionaryAttr payload), ...
        return ("d", tuple(sorted(((data_key(k), data_key(v)) for k, v in d.items()), key=repr)))
    if d is None:
        return ("n",)
    if hasattr(d, "__dataclass_fields__"):
        return ("D", type(d).__qualname__, tuple((f, data_key(getattr(d, f))) for f in d.__dataclass_fields__))
    if hasattr(d, "__slots__") and not isinstance(d, type):
        try:
            return ("O", type(d).__qualname__, tuple((f, data_key(getattr(d, f))) for f in d.__slots__))
        except Exception:  # noqa: BLE001
            pass
    return ("r", type(d).__qualname__, repr(d))


_ATTR_CACHE: dict[int, tuple[Any, Any]] = {}


def attr_key(a: Any) -> Any:
    """Structural key of an attribute: class + parameters, floats by bits."""
    from xdsl.ir import Data, ParametrizedAttribute

    hit = _ATTR_CACHE.get(id(a))
    if hit is not None and hit[0] is a:
        return hit[1]
    cls = type(a)
    cname = (getattr(cls, "name", None), cls.__qualname__)
    if isinstance(a, ParametrizedAttribute):
        k = ("P", cname, tuple(data_key(p) for p in a.parameters))
    elif isinstance(a, Data):
        k = ("D", cname, data_key(a.data))
    else:
        k = ("A", cname, repr(a))
    if len(_ATTR_CACHE) > 200000:
        _ATTR_CACHE.clear()
    _ATTR_CACHE[id(a)] = (a, k)
    return k


class _Numbering:
    def __init__(self) -> None:
        self.values: dict[int, int] = {}
        self.blocks: dict[int, int] = {}
        self.keep: list[Any] = []

    def add_value(self, v: Any) -> None:
        self.values[id(v)] = len(self.values)
        self.keep.append(v)

    def add_block(self, b: Any) -> None:
        self.blocks[id(b)] = len(self.blocks)
        self.keep.append(b)


def _number(node: Any, num: _Numbering) -> None:
    from xdsl.ir import Block, Operation, Region

    if isinstance(node, Operation):
        for r in node.results:
            num.add_value(r)
        for reg in node.regions:
            _number(reg, num)
    elif isinstance(node, Region):
        for b in node.blocks:
            num.add_block(b)
        for b in node.blocks:
            _number_block_body(b, num)
    elif isinstance(node, Block):
        if id(node) not in num.blocks:
            num.add_block(node)
        _number_block_body(node, num)
    else:
        raise TypeError(node)


def _number_block_body(b: Any, num: _Numbering) -> None:
    for a in b.args:
        num.add_value(a)
    for op in b.ops:
        _number(op, num)


def canon(roots: Any, *, hints: bool = False, normalize: bool = False, ext: dict[int, Any] | None = None) -> tuple:
    """roots: an IR node or a sequence of IR nodes.  ext: optional labels for free objects
    (id -> label); unlabeled free objects are identified by id()."""
    from xdsl.ir import Block, Operation, Region

    if isinstance(roots, (Operation, Block, Region)):
        roots = [roots]
    num = _Numbering()
    for r in roots:
        _number(r, num)
    ext = ext or {}

    def vref(v: Any) -> Any:
        from xdsl.ir import ErasedSSAValue

        n = num.values.get(id(v))
        if n is not None:
            return ("v", n)
        if isinstance(v, ErasedSSAValue):
            return ("erased", attr_key(v.type))
        return ("ext", ext.get(id(v), id(v)))

    def bref(b: Any) -> Any:
        n = num.blocks.get(id(b))
        if n is not None:
            return ("^", n)
        return ("ext^", ext.get(id(b), id(b)))

    def c_op(op: Any) -> tuple:
        attrs = op.attributes
        props = op.properties
        if normalize:
            attrs, props = normalized_dicts(op)
        return (
            "op",
            op.name,
            tuple(vref(o) for o in op._operands),
            tuple((attr_key(r.type), r.name_hint) if hints else attr_key(r.type) for r in op.results),
            tuple(sorted((k, attr_key(v)) for k, v in attrs.items())),
            tuple(sorted((k, attr_key(v)) for k, v in props.items())),
            tuple(bref(s) for s in op._successors),
            tuple(c_region(r) for r in op.regions),
        )

    def c_block(b: Any) -> tuple:
        return (
            "block",
            (bref(b), b.name_hint) if hints else bref(b),
            tuple((attr_key(a.type), a.name_hint) if hints else attr_key(a.type) for a in b.args),
            tuple(c_op(o) for o in b.ops),
        )

    def c_region(r: Any) -> tuple:
        return ("region", tuple(c_block(b) for b in r.blocks))

    out = []
    for r in roots:
        if isinstance(r, Operation):
            out.append(c_op(r))
        elif isinstance(r, Block):
            out.append(c_block(r))
        else:
            out.append(c_region(r))
    return tuple(out)


def normalized_dicts(op: Any) -> tuple[dict[str, Any], dict[str, Any]]:
    """C04/C05 wording: a property equal to its declared default is treated like an absent one and
    an inherent attribute given in the attribute dictionary like the property it denotes."""
    attrs = dict(op.attributes)
    props = dict(op.properties)
    try:
        d = type(op).get_irdl_definition()  # IRDLOperation only
    except Exception:  # noqa: BLE001
        return attrs, props
    for name, pdef in d.properties.items():
        if name in attrs and name not in props:
            props[name] = attrs.pop(name)
        default = getattr(pdef, "default_value", None)
        if default is not None and name in props and attr_key(props[name]) == attr_key(default):
            del props[name]
    # declared (inherent) attributes with a default behave the same way
    for name, adef in getattr(d, "attributes", {}).items():
        default = getattr(adef, "default_value", None)
        if default is not None and name in attrs and attr_key(attrs[name]) == attr_key(default):
            del attrs[name]
    return attrs, props


def canon_diff(a: Any, b: Any, path: str = "") -> str | None:
    """first difference between two canonical forms, as 'path: left != right' (debug aid for witnesses)"""
    if a == b:
        return None
    if isinstance(a, tuple) and isinstance(b, tuple):
        if len(a) != len(b):
            return f"{path}: length {len(a)} != {len(b)}: {str(a)[:200]} | {str(b)[:200]}"
        for i, (x, y) in enumerate(zip(a, b)):
            d = canon_diff(x, y, f"{path}/{i}")
            if d is not None:
                return d
    return f"{path}: {str(a)[:300]} != {str(b)[:300]}"


def first_op_diff(a: Any, b: Any, normalize: bool = True) -> str:
    """Root-cause label for two non-equivalent ops trees: '<op name>|<field>[:<key>:<attr class>]' of the first
    operation (pre-order, lockstep) whose own fields differ.  Used to build narrow violation signatures."""
    ca, cb = canon([a], normalize=normalize)[0], canon([b], normalize=normalize)[0]

    def rec(x: tuple, y: tuple) -> str | None:
        # x, y are c_op tuples
        if x == y:
            return None
        if x[1] != y[1]:
            return f"{x[1]}|op-name"
        names = {2: "operands", 3: "result-types", 4: "attr", 5: "prop", 6: "successors"}
        for i in (2, 3, 6):
            if x[i] != y[i]:
                return f"{x[1]}|{names[i]}"
        for i in (4, 5):
            if x[i] != y[i]:
                dx, dy = dict(x[i]), dict(y[i])
                for k in sorted(set(dx) | set(dy)):
                    if dx.get(k) != dy.get(k):
                        v = dx.get(k) or dy.get(k)
                        kind = "missing" if (k not in dx or k not in dy) else "differs"
                        return f"{x[1]}|{names[i]}:{k}:{v[1][1]}:{kind}"
        rx, ry = x[7], y[7]
        if len(rx) != len(ry):
            return f"{x[1]}|region-count"
        for r1, r2 in zip(rx, ry):
            if len(r1[1]) != len(r2[1]):
                return f"{x[1]}|block-count"
            for b1, b2 in zip(r1[1], r2[1]):
                if b1[2] != b2[2]:
                    return f"{x[1]}|block-arg-types"
                if len(b1[3]) != len(b2[3]):
                    return f"{x[1]}|op-count"
                for o1, o2 in zip(b1[3], b2[3]):
                    d = rec(o1, o2)
                    if d is not None:
                        return d
        return f"{x[1]}|unknown"

    return rec(ca, cb) or "equal"
