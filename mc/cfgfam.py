"""Generated family of small cf CFG programs for C14 (pure Python, nothing here imports xdsl).

A program is one `func.func @f([%s: i1 | i8,] %a: i8, %b: i8) -> i8` with n blocks (3 <= n <= 5):

  block 0      the entry block: nothing but its terminator, one of
                  br     cf.br ^T(..)
                  cond   cf.cond_br %s, ^T(..), ^E(..)
                  sw1    cf.switch %s : i8, [default: ^D(..), 0: ^C0(..)]
                  sw2    cf.switch %s : i8, [default: ^D(..), 0: ^C0(..), -1: ^C1(..)]
               every successor slot independently targets any later block (the same block may be targeted by several
               slots, with different operands), every successor operand is %a or %b;
               %s is a function argument or (selector variants) an arith.constant in the entry block
  block i      1 <= i <= n-2, k_i in {0,1,2} block arguments of type i8, ends in `cf.br ^j(..)` with j > i (edges go
               forward: the CFG is a DAG with the single exit block n-1);
                 kind pass  the block is ONLY its terminator; every forwarded operand is one of its own arguments or %a
                            (so an argument is forwarded 0, 1 or 2 times)
                 kind use   the block computes  t = (((%b - v0) * v1) + v2) - v3 ...  over V = its own arguments (each once)
                            followed by its extra uses (V = [%a] when that is empty) and forwards (t, %a)[:k_j]; when
                            k_j = 0 the value is observed by an opaque `"test.op"(%t)` (effect log) instead
  block n-1    the exit block, k in {0,1,2}: kind pass `func.return %x0` (`%a` when k = 0), kind use `func.return %t`
  extra uses   a use block dominated by pass blocks may use each of THEIR block arguments 0, 1 or 2 more times
               (at most `max_extras` extra uses per block, in the order (block, argument))

Only CFGs in which every block is reachable and at least one non-exit block is a pass block are generated.
Dominators are computed here (forward DAG: dom(i) = {i} + intersection of dom(p) over predecessors p).

spec = (sel, tkind, slots, blocks)
   sel     "arg" | "none" (entry br) | "c<int>" (constant selector)
   slots   tuple of (target, operands)            operands: tuple of value names "a" "b"
   blocks  tuple, entry i-1 describes block i: (nargs, kind, extras, target | None, operands)
           value names: "a" "b" "t" (the value computed by this use block) "x<i>_<j>" (argument j of block i)
"""
from __future__ import annotations

import itertools

TKINDS = ("br", "cond", "sw1", "sw2")
NSLOTS = {"br": 1, "cond": 2, "sw1": 2, "sw2": 3}
CASES = {"sw1": (0,), "sw2": (0, -1)}
OPS = ("arith.subi", "arith.muli", "arith.addi")
SELS = {"br": ("none",), "cond": ("arg", "c1", "c0"), "sw1": ("arg", "c0", "c7"), "sw2": ("arg", "c0", "c-1", "c7")}
T = "i8"
# input box: both ways of a condition / every case value and two selectors that take the default; 3 x 3 data values
A_VALUES = (0, 3, 0x85)
B_VALUES = (1, 0x7C, 0xFF)
SEL_VALUES = {"cond": (0, 1), "sw1": (0, 1, 0xFF), "sw2": (0, 0xFF, 1, 0x80)}


def arg_types(spec) -> tuple:
    sel, tkind = spec[0], spec[1]
    if sel != "arg":
        return (T, T)
    return (("i1" if tkind == "cond" else T), T, T)


def inputs(spec) -> list[tuple]:
    sel, tkind = spec[0], spec[1]
    box = [A_VALUES, B_VALUES]
    if sel == "arg":
        box.insert(0, SEL_VALUES[tkind])
    return list(itertools.product(*box))


def succs(spec) -> list[list[int]]:
    _, _, slots, blocks = spec
    out = [[t for t, _ in slots]]
    for (_, _, _, target, _) in blocks:
        out.append([] if target is None else [target])
    return out


def dominators(succ: list[list[int]]) -> list[set[int]] | None:
    """dominator sets of a forward DAG (every edge i -> j has j > i); None when a block is unreachable"""
    n = len(succ)
    preds: list[list[int]] = [[] for _ in range(n)]
    for i, ss in enumerate(succ):
        for j in ss:
            preds[j].append(i)
    dom: list[set[int]] = [{0}]
    for i in range(1, n):
        if not preds[i]:
            return None
        d = set.intersection(*[dom[p] for p in preds[i]])
        dom.append(d | {i})
    return dom


def _val(v: str) -> str:
    return "%" + v


def _succ(target: int, operands) -> str:
    if not operands:
        return f"^b{target}"
    return f"^b{target}(" + ", ".join(_val(v) for v in operands) + " : " + ", ".join(T for _ in operands) + ")"


def use_values(i: int, nargs: int, extras) -> list[str]:
    vs = [f"x{i}_{j}" for j in range(nargs)] + list(extras)
    return vs or ["a"]


def render(spec) -> str:
    sel, tkind, slots, blocks = spec
    lines = []
    at = arg_types(spec)
    sig = ", ".join(f"%{n}: {t}" for n, t in zip(("s", "a", "b") if len(at) == 3 else ("a", "b"), at))
    lines.append(f"  func.func @f({sig}) -> {T} {{")
    if sel.startswith("c"):
        c = int(sel[1:])
        lines.append(f"    %s = arith.constant {('true' if c else 'false') if tkind == 'cond' else f'{c} : {T}'}")
    if tkind == "br":
        lines.append(f"    cf.br {_succ(*slots[0])}")
    elif tkind == "cond":
        lines.append(f"    cf.cond_br %s, {_succ(*slots[0])}, {_succ(*slots[1])}")
    else:
        lines.append(f"    cf.switch %s : {T}, [")
        arms = [f"      default: {_succ(*slots[0])}"] + [f"      {c}: {_succ(*slots[1 + k])}" for k, c in enumerate(CASES[tkind])]
        lines.append(",\n".join(arms))
        lines.append("    ]")
    for i, (nargs, kind, extras, target, operands) in enumerate(blocks, start=1):
        head = f"  ^b{i}"
        if nargs:
            head += "(" + ", ".join(f"%x{i}_{j}: {T}" for j in range(nargs)) + ")"
        lines.append(head + ":")
        if kind == "use":
            acc = "%b"
            vs = use_values(i, nargs, extras)
            for k, v in enumerate(vs):
                name = "%t" + (f"{i}" if k == len(vs) - 1 else f"{i}_{k}")
                lines.append(f"    {name} = {OPS[k % 3]} {acc}, {_val(v)} : {T}")
                acc = name
        ren = [(f"t{i}" if v == "t" else v) for v in operands]
        if kind == "use" and "t" not in operands:
            lines.append(f'    "test.op"(%t{i}) : ({T}) -> ()')  # a value that is not forwarded is observed as an effect
        if target is None:
            lines.append(f"    func.return {_val(ren[0])} : {T}")
        else:
            lines.append(f"    cf.br {_succ(target, ren)}")
    lines.append("  }")
    return "builtin.module {\n" + "\n".join(lines) + "\n}"


def label(spec) -> tuple[str, str]:
    """(construct, variant) for violation signatures: the entry terminator, and the shape class of the CFG -- no counts,
    no concrete operands"""
    sel, tkind, slots, blocks = spec
    construct = {"br": "cf.br", "cond": "cf.cond_br", "sw1": "cf.switch", "sw2": "cf.switch"}[tkind]
    targets = [t for t, _ in slots]
    feats = ["generated-cfg", "const-selector" if sel.startswith("c") else "arg-selector" if sel == "arg" else "no-selector"]
    if len(set(targets)) < len(targets):
        feats.append("repeated-successor")
    n = len(blocks) + 1
    pass_blocks = [i for i, b in enumerate(blocks, start=1) if b[1] == "pass" and i != n - 1]
    if any(t in pass_blocks for t in targets):
        feats.append("to-pass-through")
    if any(b[2] for b in blocks):
        feats.append("pass-through-arg-used-in-dominated-block")
    return construct, ":".join(feats)


def _sums(n: int, hi: int, total: int):
    """all vectors of length n over 0..hi with sum <= total"""
    if n == 0:
        yield ()
        return
    for k in range(min(hi, total) + 1):
        for rest in _sums(n - 1, hi, total - k):
            yield (k,) + rest


def _extras_choices(cands: list[str], max_extras: int):
    """multiplicity 0/1/2 for every candidate value, at most max_extras uses in total"""
    def rec(i: int, left: int):
        if i == len(cands):
            yield ()
            return
        for m in range(min(2, left) + 1):
            for rest in rec(i + 1, left - m):
                yield (cands[i],) * m + rest
    yield from rec(0, max_extras)


def structures(n: int, tkind: str, max_total_args: int):
    """(nargs vector, kinds vector, targets of blocks 1..n-2, entry slot targets, dominator sets)"""
    m = n - 1  # non-entry blocks 1..m
    for nargs in _sums(m, 2, max_total_args):
        for kinds in itertools.product(("pass", "use"), repeat=m):
            if "pass" not in kinds[:m - 1]:
                continue
            for targets in itertools.product(*[range(i + 1, m + 1) for i in range(1, m)]):
                for st in itertools.product(range(1, m + 1), repeat=NSLOTS[tkind]):
                    succ = [list(st)] + [[t] for t in targets] + [[]]
                    dom = dominators(succ)
                    if dom is None:
                        continue
                    yield nargs, kinds, targets, st, dom


def programs(n: int, tkind: str, max_total_args: int, max_extras: int, sels=None, shard: tuple[int, int] = (0, 1)):
    """every spec of the family with n blocks and the entry terminator tkind; shard (k, K) keeps the structures whose
    index is k modulo K (the K shards partition the family)"""
    m = n - 1
    for idx, (nargs, kinds, targets, st, dom) in enumerate(structures(n, tkind, max_total_args)):
        if idx % shard[1] != shard[0]:
            continue
        slot_choices = [[(t, ops) for ops in itertools.product(("a", "b"), repeat=nargs[t - 1])] for t in st]
        block_choices = []
        for i in range(1, m + 1):
            k, kind = nargs[i - 1], kinds[i - 1]
            target = targets[i - 1] if i < m else None
            if kind == "pass":
                own = [f"x{i}_{j}" for j in range(k)]
                if target is None:
                    opnds = [((own[0],) if own else ("a",))]
                else:
                    opnds = list(itertools.product(own + ["a"], repeat=nargs[target - 1]))
                block_choices.append([(k, kind, (), target, o) for o in opnds])
            else:
                cands = [f"x{p}_{j}" for p in sorted(dom[i]) if p not in (0, i) and kinds[p - 1] == "pass" and p != m
                         for j in range(nargs[p - 1])]
                o = ("t",) if target is None else ("t", "a")[:nargs[target - 1]]
                block_choices.append([(k, kind, ex, target, o) for ex in _extras_choices(cands, max_extras)])
        for sel in (sels or SELS[tkind]):
            if sel not in SELS[tkind]:
                continue
            for slots in itertools.product(*slot_choices):
                for blocks in itertools.product(*block_choices):
                    yield (sel, tkind, tuple(slots), tuple(blocks))
