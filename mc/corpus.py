"""The .mlir corpus of the repository as a finite, completely enumerable input set.

chunks()   : every `// -----`-separated chunk of every .mlir file under /repo/tests (and docs),
             as (relative path, chunk index, text).  Deterministic order.
fresh_ctx(): a new Context with every registered dialect (lazily loaded), unregistered ops allowed.
parse()    : parse + verify a chunk -> ModuleOp | None (None = the chunk is not a valid module;
             negative tests, custom drivers, ... are simply not part of the verified corpus).
"""
from __future__ import annotations

import os
from typing import Iterator

REPO = os.environ.get("VERIF_REPO", "/repo")
# the corpus itself always comes from /repo (scratch copies used for mutation trials hold xdsl/ only)
CORPUS_ROOT = "/repo" if not os.path.isdir(os.path.join(REPO, "tests")) else REPO


def files(sub: str = "tests") -> list[str]:
    out = []
    root = os.path.join(CORPUS_ROOT, sub)
    for d, _dirs, fs in os.walk(root):
        for f in fs:
            if f.endswith(".mlir"):
                out.append(os.path.relpath(os.path.join(d, f), CORPUS_ROOT))
    return sorted(out)


EXTRA_DIR = os.path.join(os.path.dirname(os.path.abspath(__file__)), "extra_corpus")
EXTRA_PREFIX = "verif-extra/"


def chunks_of(rel: str) -> list[str]:
    path = os.path.join(EXTRA_DIR, rel[len(EXTRA_PREFIX):]) if rel.startswith(EXTRA_PREFIX) else os.path.join(CORPUS_ROOT, rel)
    with open(path, encoding="utf-8", errors="replace") as f:
        text = f.read()
    parts, cur = [], []
    for line in text.split("\n"):
        if line.strip().startswith("// -----"):
            parts.append("\n".join(cur))
            cur = []
        else:
            cur.append(line)
    parts.append("\n".join(cur))
    return [p for p in parts if p.strip()]


def chunks(sub: str = "tests") -> Iterator[tuple[str, int, str]]:
    for rel in files(sub):
        for i, c in enumerate(chunks_of(rel)):
            yield rel, i, c


def extra_chunks() -> Iterator[tuple[str, int, str]]:
    """hand-written valid modules (generic form) with shapes the in-tree tests never contain; every chunk must parse and verify"""
    for f in sorted(os.listdir(EXTRA_DIR)):
        if f.endswith(".mlir"):
            for i, c in enumerate(chunks_of(EXTRA_PREFIX + f)):
                yield EXTRA_PREFIX + f, i, c


_DIALECTS = None


def fresh_ctx(allow_unregistered: bool = True):
    from xdsl.context import Context
    from xdsl.universe import Universe

    global _DIALECTS
    if _DIALECTS is None:  # entry-point discovery is slow (0.2 s); the table itself is immutable
        _DIALECTS = dict(Universe.get_multiverse().all_dialects)
    ctx = Context(allow_unregistered=allow_unregistered)
    for name, factory in _DIALECTS.items():
        ctx.register_dialect(name, factory)
    return ctx


def parse(text: str, name: str = "<chunk>", verify: bool = True, allow_unregistered: bool = True):
    """-> ModuleOp or None.  Never raises."""
    from xdsl.parser import Parser

    try:
        m = Parser(fresh_ctx(allow_unregistered), text, name).parse_module()
        if verify:
            m.verify()
        return m
    except BaseException as e:  # noqa: BLE001
        if isinstance(e, (KeyboardInterrupt, SystemExit)):
            raise
        return None


_MANIFEST = None


def was_verified(rel: str, index: int, text: str) -> bool:
    """True iff this exact chunk text parsed and verified when mc/corpus_verified.json was generated (tools/gen_corpus_manifest.py)"""
    import hashlib
    import json

    global _MANIFEST
    if _MANIFEST is None:
        try:
            with open(os.path.join(os.path.dirname(os.path.abspath(__file__)), "corpus_verified.json")) as f:
                _MANIFEST = {(a, b): c for a, b, c in json.load(f)}
        except FileNotFoundError:
            _MANIFEST = {}
    return _MANIFEST.get((rel, index)) == hashlib.sha1(text.encode()).hexdigest()[:16]


def why_rejected(text: str, name: str = "<chunk>") -> tuple[str, str]:
    """(exception class, last line of the message) of parsing + verifying a chunk"""
    from xdsl.parser import Parser

    try:
        Parser(fresh_ctx(), text, name).parse_module().verify()
        return ("", "")
    except BaseException as e:  # noqa: BLE001
        if isinstance(e, (KeyboardInterrupt, SystemExit)):
            raise
        lines = str(e).strip().splitlines()
        return (type(e).__name__, lines[-1].strip()[:160] if lines else "")
