"""Explicit-state exploration engines (no sampling anywhere).

bfs_histories : states are *histories* (tuples of actions) rebuilt on fresh real objects;
                de-dup on a canonical key; invariant / step oracle evaluated on every transition.
dfs_choices   : stateless exploration of a run that consults a Chooser at every choice point;
                enumerates choice prefixes with an iterated deviation bound (CHESS-style).
product/seqs  : helpers for generator trees.
"""
from __future__ import annotations

import collections
import itertools
from typing import Any, Callable, Hashable, Iterable, Iterator, Sequence

from mc.stats import Stats


def bfs_histories(
    st: Stats,
    build: Callable[[tuple], Any],            # history -> fresh real state (replays real calls)
    enabled: Callable[[Any], Iterable[Any]],  # state -> actions (JSON-able, hashable)
    step: Callable[[Any, Any], Any],          # (state, action) -> observation ; mutates state; may raise Skip
    key: Callable[[Any], Hashable],           # canonical form of a state
    check: Callable[[Any, tuple, Any], None], # (state, history, obs) -> None ; records violations itself
    depth: int,
    roots: Sequence[tuple] = ((),),
    max_states: int | None = None,
) -> None:
    seen: set[Hashable] = set()
    frontier: collections.deque[tuple] = collections.deque()
    for r in roots:
        s = build(r)
        k = key(s)
        if k not in seen:
            seen.add(k)
            frontier.append(r)
    st.states += len(seen)
    while frontier:
        hist = frontier.popleft()
        if len(hist) >= depth:
            continue
        base = build(hist)
        for a in list(enabled(base)):
            s = build(hist)
            try:
                obs = step(s, a)
            except Skip:
                st.bump("skipped_raising_calls")
                continue
            st.transitions += 1
            st.executions += 1
            h2 = hist + (a,)
            check(s, h2, obs)
            k = key(s)
            if k not in seen:
                if max_states is not None and len(seen) >= max_states:
                    st.cap(f"max_states={max_states}")
                    continue
                seen.add(k)
                st.states += 1
                st.max_depth = max(st.max_depth, len(h2))
                frontier.append(h2)


class Skip(Exception):
    """raised by step() when the real call raised: not a transition."""


class Chooser:
    """Choice oracle for one execution.  Replays `prefix`, then takes choice 0."""

    def __init__(self, prefix: Sequence[int]) -> None:
        self.prefix = list(prefix)
        self.taken: list[int] = []
        self.arity: list[int] = []

    def choose(self, n: int) -> int:
        """pick one of n alternatives (0 = default)."""
        i = len(self.taken)
        if i < len(self.prefix):
            c = self.prefix[i]
            if c >= n:
                raise ReplayDivergence(f"choice {i}: prefix wants {c} but only {n} alternatives")
        else:
            c = 0
        self.taken.append(c)
        self.arity.append(n)
        return c


class ReplayDivergence(RuntimeError):
    pass


def dfs_choices(
    run: Callable[[Chooser], Any],         # executes the real code under the chooser; returns observation
    on_execution: Callable[[Chooser, Any], None],
    bound: int,                            # max number of non-default choices (deviations)
    max_executions: int | None = None,
) -> tuple[int, bool]:
    """Enumerate every execution with at most `bound` deviations.  Returns (#executions, capped)."""
    stack: list[list[int]] = [[]]
    n = 0
    capped = False
    while stack:
        prefix = stack.pop()
        ch = Chooser(prefix)
        obs = run(ch)
        n += 1
        on_execution(ch, obs)
        if max_executions is not None and n >= max_executions:
            capped = bool(stack)
            if capped:
                break
        used = sum(1 for c in prefix if c != 0)
        if used >= bound:
            continue
        for i in range(len(prefix), len(ch.taken)):
            for alt in range(1, ch.arity[i]):
                stack.append(ch.taken[:i] + [alt])
    return n, capped


def seqs(alphabet: Sequence[Any], max_len: int, min_len: int = 0) -> Iterator[tuple]:
    for n in range(min_len, max_len + 1):
        yield from itertools.product(alphabet, repeat=n)
