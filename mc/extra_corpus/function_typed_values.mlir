// hand-written (generic form): values and results of function type in ops with custom formats
"builtin.module"() ({
  "func.func"() <{function_type = (i32) -> ((i32) -> i32), sym_name = "g"}> ({
  ^bb0(%a: i32):
    %x = "test.op"() : () -> ((i32) -> i32)
    "func.return"(%x) : ((i32) -> i32) -> ()
  }) : () -> ()
}) : () -> ()
// -----
"builtin.module"() ({
  "func.func"() <{function_type = () -> ((i32) -> i32), sym_name = "decl", sym_visibility = "private"}> ({
  }) : () -> ()
}) : () -> ()
// -----
"builtin.module"() ({
  "func.func"() <{function_type = ((i32) -> i32) -> (), sym_name = "arg"}> ({
  ^bb0(%f: (i32) -> i32):
    "func.return"() : () -> ()
  }) : () -> ()
}) : () -> ()
// -----
"builtin.module"() ({
  "func.func"() <{function_type = () -> (() -> ()), sym_name = "unit"}> ({
    %x = "test.op"() : () -> (() -> ())
    "func.return"(%x) : (() -> ()) -> ()
  }) : () -> ()
}) : () -> ()
// -----
"builtin.module"() ({
  "func.func"() <{function_type = (i1) -> (), sym_name = "ifs"}> ({
  ^bb0(%c: i1):
    %f = "test.op"() : () -> ((i32) -> i32)
    %r = "scf.if"(%c) ({
      "scf.yield"(%f) : ((i32) -> i32) -> ()
    }, {
      "scf.yield"(%f) : ((i32) -> i32) -> ()
    }) : (i1) -> ((i32) -> i32)
    "func.return"() : () -> ()
  }) : () -> ()
}) : () -> ()
// -----
"builtin.module"() ({
  "func.func"() <{function_type = (index) -> (), sym_name = "fors"}> ({
  ^bb0(%n: index):
    %f = "test.op"() : () -> ((i32) -> i32)
    %r = "scf.for"(%n, %n, %n, %f) ({
    ^bb1(%i: index, %acc: (i32) -> i32):
      "scf.yield"(%acc) : ((i32) -> i32) -> ()
    }) : (index, index, index, (i32) -> i32) -> ((i32) -> i32)
    "func.return"() : () -> ()
  }) : () -> ()
}) : () -> ()
// -----
"builtin.module"() ({
  "func.func"() <{function_type = (i32) -> (), sym_name = "cast"}> ({
  ^bb0(%a: i32):
    %f = "builtin.unrealized_conversion_cast"(%a) : (i32) -> ((i32) -> i32)
    %g = "builtin.unrealized_conversion_cast"(%f) : ((i32) -> i32) -> i32
    "func.return"() : () -> ()
  }) : () -> ()
}) : () -> ()
// -----
"builtin.module"() ({
  "func.func"() <{function_type = () -> (), sym_name = "calls"}> ({
    %f = "test.op"() : () -> ((i32) -> i32)
    %r = "func.call"(%f) <{callee = @h}> : ((i32) -> i32) -> ((i32) -> i32)
    "func.return"() : () -> ()
  }) : () -> ()
  "func.func"() <{function_type = ((i32) -> i32) -> ((i32) -> i32), sym_name = "h", sym_visibility = "private"}> ({
  }) : () -> ()
}) : () -> ()
// -----
"builtin.module"() ({
  "func.func"() <{function_type = (i1) -> (), sym_name = "brs"}> ({
  ^bb0(%c: i1):
    %f = "test.op"() : () -> ((i32) -> i32)
    "cf.cond_br"(%c, %f, %f) [^bb1, ^bb2] <{operandSegmentSizes = array<i32: 1, 1, 1>}> : (i1, (i32) -> i32, (i32) -> i32) -> ()
  ^bb1(%x: (i32) -> i32):
    "cf.br"(%x) [^bb2] : ((i32) -> i32) -> ()
  ^bb2(%y: (i32) -> i32):
    "func.return"() : () -> ()
  }) : () -> ()
}) : () -> ()
// -----
"builtin.module"() ({
  "func.func"() <{function_type = () -> (tuple<>, tuple<i32, tuple<>>), sym_name = "tuples"}> ({
    %x, %y = "test.op"() : () -> (tuple<>, tuple<i32, tuple<>>)
    "func.return"(%x, %y) : (tuple<>, tuple<i32, tuple<>>) -> ()
  }) : () -> ()
}) : () -> ()
