"""Bounded IR enumerator (generator tree) over the `test` dialect.

A *description* is pure data, so it is hashable, picklable and JSON-able:
  region  := (block, ...)
  block   := (n_args, (op, ...))
  op      := (kind, operands, successors, nested)     kind: index into KINDS (or a custom table)
                                                       operands: value indices (definition order,
                                                       whole forest pre-order, see mc/canon.py) or
                                                       ('x', k) for the k-th external value
                                                       successors: block indices of the op's own region
                                                       nested: None | region
`enumerate_regions` yields every description within the bounds: all skeletons first, then all
wirings (operands drawn from ALL values of the forest: dominating, forward references, own results,
values of enclosing and of nested regions; successors from all blocks of the op's region).
"""
from __future__ import annotations

import itertools
from dataclasses import dataclass
from typing import Any, Iterator, Sequence


@dataclass(frozen=True)
class Kind:
    name: str
    n_operands: int
    n_results: int
    n_succ: int = 0
    region: bool = False        # carries one nested region
    terminator: bool = False
    attr: str | None = None     # value of attribute "k" (distinguishes otherwise equal kinds)
    rtype: str = "i32"
    prop: str | None = None     # value of property "prop1"


KINDS: tuple[Kind, ...] = (
    Kind("def", 0, 1),
    Kind("use1", 1, 1),
    Kind("use2", 2, 0),
    Kind("term", 0, 0, terminator=True),
    Kind("br", 0, 0, n_succ=1, terminator=True),
    Kind("cbr", 1, 0, n_succ=2, terminator=True),
    Kind("reg", 0, 1, region=True),
    Kind("attr", 0, 1, attr="x"),
)


def skeletons(kinds: Sequence[Kind], max_blocks: int, max_ops: int, max_args: int, depth: int,
              need_term: bool) -> Iterator[tuple[tuple, int]]:
    """yield (region skeleton, ops used).  block skeleton = (n_args, (opskel,...)); opskel=(kind_idx, nested|None).
    Terminators only occur in last position of a block; with need_term every block ends in one."""

    def op_seqs(budget: int) -> Iterator[tuple[tuple, int, bool]]:
        yield (), 0, False
        if budget <= 0:
            return
        for ki, k in enumerate(kinds):
            if k.region:
                if depth <= 0:
                    continue
                nesteds = list(skeletons(kinds, 1, budget - 1, max_args, depth - 1, need_term))
            else:
                nesteds = [(None, 0)]
            for nested, nu in nesteds:
                first = (ki, nested)
                cost = 1 + nu
                if cost > budget:
                    continue
                if k.terminator:
                    yield (first,), cost, True
                else:
                    for rest, ru, rt in op_seqs(budget - cost):
                        yield (first,) + rest, cost + ru, rt

    def blocks_list(nb: int, budget: int) -> Iterator[tuple[tuple, int]]:
        if nb == 0:
            yield (), 0
            return
        for na in range(max_args + 1):
            for ops, used, ends_term in op_seqs(budget):
                if need_term and not ends_term:
                    continue
                for rest, used2 in blocks_list(nb - 1, budget - used):
                    yield ((na, ops),) + rest, used + used2

    for nb_total in range(1, max_blocks + 1):
        yield from blocks_list(nb_total, max_ops)


def _index(skel: tuple, kinds: Sequence[Kind]) -> tuple[int, list]:
    """number values in definition order (same rule as mc/canon.py); returns (#values, slots)
    slots: list of (path, 'o'|'s', arity_domain) in pre-order"""
    nvals = 0

    def region(r):
        nonlocal nvals
        for (na, ops) in r:
            nvals += na
            for (ki, nested) in ops:
                nvals += kinds[ki].n_results
                if nested is not None:
                    region(nested)

    region(skel)
    return nvals, []


def wirings(skel: tuple, kinds: Sequence[Kind], n_ext: int = 0, max_wirings: int | None = None) -> Iterator[tuple]:
    """all complete descriptions for one skeleton"""
    nvals, _ = _index(skel, kinds)
    vchoices: list[Any] = list(range(nvals)) + [("x", k) for k in range(n_ext)]

    # collect slots in pre-order: for each op, its operand slots then successor slots
    slots: list[list[Any]] = []

    def collect(r):
        nb = len(r)
        for (na, ops) in r:
            for (ki, nested) in ops:
                k = kinds[ki]
                for _ in range(k.n_operands):
                    slots.append(vchoices)
                for _ in range(k.n_succ):
                    slots.append(list(range(nb)))
                if nested is not None:
                    collect(nested)

    collect(skel)
    if any(len(s) == 0 for s in slots):
        return
    count = 0
    for choice in itertools.product(*slots):
        it = iter(choice)

        def fill(r):
            out = []
            for (na, ops) in r:
                oo = []
                for (ki, nested) in ops:
                    k = kinds[ki]
                    operands = tuple(next(it) for _ in range(k.n_operands))
                    succs = tuple(next(it) for _ in range(k.n_succ))
                    oo.append((ki, operands, succs, fill(nested) if nested is not None else None))
                out.append((na, tuple(oo)))
            return tuple(out)

        yield fill(skel)
        count += 1
        if max_wirings is not None and count >= max_wirings:
            return


def enumerate_regions(kinds: Sequence[Kind] = KINDS, max_blocks: int = 2, max_ops: int = 3, max_args: int = 1,
                      depth: int = 1, need_term: bool = False, n_ext: int = 0) -> Iterator[tuple]:
    for skel, used in skeletons(kinds, max_blocks, max_ops, max_args, depth, need_term):
        yield from wirings(skel, kinds, n_ext)


# ------------------------------------------------------------------ building real IR
_TYPES = None


def _types():
    global _TYPES
    if _TYPES is None:
        from xdsl.dialects.builtin import IndexType, i1, i32, i64

        _TYPES = {"i32": i32, "i64": i64, "i1": i1, "index": IndexType()}
    return _TYPES


class Built:
    """real IR built from a description + the objects in definition order"""

    def __init__(self) -> None:
        self.region = None
        self.values: list[Any] = []
        self.blocks: list[Any] = []
        self.ops: list[Any] = []


def build_region(desc: tuple, kinds: Sequence[Kind] = KINDS, ext: Sequence[Any] = (), arg_type: str = "i32") -> Built:
    """Build a detached Region from a description.  Operands are wired in a second pass so that
    forward references work."""
    from xdsl.dialects.builtin import StringAttr
    from xdsl.dialects.test import TestOp, TestTermOp
    from xdsl.ir import Block, Region

    T = _types()
    out = Built()
    pending: list[tuple[Any, tuple, tuple, list]] = []

    def mk_region(r) -> Any:
        # n_args is an int (all of arg_type) or a tuple of type names
        blocks = [Block(arg_types=[T[arg_type]] * na if isinstance(na, int) else [T[t] for t in na]) for (na, _) in r]
        for b in blocks:
            out.blocks.append(b)
        for b, (na, ops) in zip(blocks, r):
            out.values.extend(b.args)
            for (ki, operands, succs, nested) in ops:
                k = kinds[ki]
                cls = TestTermOp if k.terminator else TestOp
                attrs = {"k": StringAttr(k.attr)} if k.attr is not None else {}
                props = {"prop1": StringAttr(k.prop)} if k.prop is not None else {}
                op = cls(result_types=[T[k.rtype]] * k.n_results, attributes=attrs, properties=props)
                out.ops.append(op)
                out.values.extend(op.results)
                b.add_op(op)
                pending.append((op, operands, succs, blocks))
                if nested is not None:
                    op.add_region(mk_region(nested))
                elif k.region:
                    op.add_region(Region())
        return Region(blocks)

    out.region = mk_region(desc)
    for op, operands, succs, blocks in pending:
        if operands:
            op.operands = [ext[o[1]] if isinstance(o, tuple) else out.values[o] for o in operands]
        if succs:
            op.successors = [blocks[s] for s in succs]
    return out


def build_module(desc: tuple, kinds: Sequence[Kind] = KINDS):
    """wrap a single-block description into builtin.module (graph region, no terminator needed),
    a multi-block one into test.op inside a module"""
    from xdsl.dialects.builtin import ModuleOp
    from xdsl.dialects.test import TestOp

    b = build_region(desc, kinds)
    if len(desc) == 1 and desc[0][0] == 0:
        return ModuleOp(b.region), b
    return ModuleOp([TestOp(regions=[b.region])]), b
