"""Independent whole-forest structural invariant walker (the C01 invariant).

irinv(roots) walks the PRIVATE pointer fields directly (never the public iterators) and
returns a list of (kind, message) problems.  The universe is everything reachable downward from
`roots` (ops, blocks, regions); the caller passes every live object it holds (attached or
detached) so that "claims a parent but is not in the parent's list" is also caught.
"""
from __future__ import annotations

from typing import Any, Iterable

LIMIT = 100000


def _chain(first: Any, nxt: str) -> tuple[list[Any], bool]:
    out, seen = [], set()
    cur = first
    while cur is not None:
        if id(cur) in seen or len(out) > LIMIT:
            return out, True
        seen.add(id(cur))
        out.append(cur)
        cur = getattr(cur, nxt)
    return out, False


def irinv(roots: Iterable[Any], *, forbid_erased_operands: bool = False, name=lambda o: type(o).__name__) -> list[tuple[str, str]]:
    from xdsl.ir import Block, BlockArgument, ErasedSSAValue, Operation, OpResult, Region

    errs: list[tuple[str, str]] = []

    def err(kind: str, msg: str) -> None:
        if len(errs) < 50:
            errs.append((kind, msg))

    ops: dict[int, Any] = {}
    blocks: dict[int, Any] = {}
    regions: dict[int, Any] = {}
    todo = list(roots)
    # ---- containers, walked through private pointers
    while todo:
        n = todo.pop()
        if isinstance(n, Operation):
            if id(n) in ops:
                continue
            ops[id(n)] = n
            for r in n.regions:
                if r.parent is not n:
                    err("region-parent", f"region of {name(n)} does not point back to it")
                todo.append(r)
            if len({id(r) for r in n.regions}) != len(n.regions):
                err("region-dup", f"{name(n)} holds the same region twice")
        elif isinstance(n, Block):
            if id(n) in blocks:
                continue
            blocks[id(n)] = n
            fwd, cyc1 = _chain(n._first_op, "_next_op")
            bwd, cyc2 = _chain(n._last_op, "_prev_op")
            if cyc1 or cyc2:
                err("op-list-cycle", f"op list of {name(n)} is cyclic")
            if [id(x) for x in fwd] != [id(x) for x in reversed(bwd)]:
                err("op-list-fwd-bwd", f"forward and backward op lists of {name(n)} differ: "
                    f"{[name(x) for x in fwd]} vs {[name(x) for x in reversed(bwd)]}")
            if fwd and fwd[0]._prev_op is not None:
                err("op-list-head", f"first op of {name(n)} has a prev pointer")
            if fwd and fwd[-1]._next_op is not None:
                err("op-list-tail", f"last op of {name(n)} has a next pointer")
            for o in fwd:
                if o.parent is not n:
                    err("op-parent", f"{name(o)} in list of {name(n)} has parent {name(o.parent) if o.parent is not None else None}")
            for o in bwd:
                if o.parent is not n:
                    err("op-parent", f"{name(o)} in backward list of {name(n)} has wrong parent")
            todo.extend(fwd)
            todo.extend(bwd)
            for i, a in enumerate(n._args):
                if not isinstance(a, BlockArgument):
                    err("arg-class", f"arg {i} of {name(n)} is not a BlockArgument")
                    continue
                if a.index != i:
                    err("arg-index", f"arg at position {i} of {name(n)} has index {a.index}")
                if a.block is not n:
                    err("arg-owner", f"arg {i} of {name(n)} has another owner")
            if len({id(a) for a in n._args}) != len(n._args):
                err("arg-dup", f"{name(n)} holds an argument twice")
        elif isinstance(n, Region):
            if id(n) in regions:
                continue
            regions[id(n)] = n
            fwd, cyc1 = _chain(n._first_block, "_next_block")
            bwd, cyc2 = _chain(n._last_block, "_prev_block")
            if cyc1 or cyc2:
                err("block-list-cycle", "block list is cyclic")
            if [id(x) for x in fwd] != [id(x) for x in reversed(bwd)]:
                err("block-list-fwd-bwd", f"forward and backward block lists differ: "
                    f"{[name(x) for x in fwd]} vs {[name(x) for x in reversed(bwd)]}")
            if fwd and fwd[0]._prev_block is not None:
                err("block-list-head", "first block has a prev pointer")
            if fwd and fwd[-1]._next_block is not None:
                err("block-list-tail", "last block has a next pointer")
            for b in fwd + bwd:
                if b.parent is not n:
                    err("block-parent", f"{name(b)} in a region's list has another parent")
            todo.extend(fwd)
            todo.extend(bwd)
        elif n is None:
            continue
        else:
            raise TypeError(n)

    # ---- membership: whoever claims a parent is in the parent's list exactly once
    for o in ops.values():
        p = o.parent
        if p is None:
            if o._next_op is not None or o._prev_op is not None:
                err("detached-op-links", f"detached {name(o)} still has sibling pointers")
        else:
            lst, _ = _chain(p._first_op, "_next_op")
            c = sum(1 for x in lst if x is o)
            if c != 1:
                err("op-membership", f"{name(o)} claims parent {name(p)} but occurs {c} times in its list")
        for i, r in enumerate(o.results):
            if not isinstance(r, OpResult):
                err("result-class", f"result {i} of {name(o)} is not an OpResult")
                continue
            if r.index != i:
                err("result-index", f"result at position {i} of {name(o)} has index {r.index}")
            if r.op is not o:
                err("result-owner", f"result {i} of {name(o)} has another owner")
    for b in blocks.values():
        p = b.parent
        if p is None:
            if b._next_block is not None or b._prev_block is not None:
                err("detached-block-links", f"detached {name(b)} still has sibling pointers")
        else:
            lst, _ = _chain(p._first_block, "_next_block")
            c = sum(1 for x in lst if x is b)
            if c != 1:
                err("block-membership", f"{name(b)} claims a parent region but occurs {c} times in its list")
    for r in regions.values():
        p = r.parent
        if p is not None:
            c = sum(1 for x in p.regions if x is r)
            if c != 1:
                err("region-membership", f"region claims parent {name(p)} but occurs {c} times in its regions")

    # ---- use-def chains
    values: dict[int, Any] = {}
    for o in ops.values():
        for r in o.results:
            values[id(r)] = r
        for v in o._operands:
            values.setdefault(id(v), v)
    for b in blocks.values():
        for a in b._args:
            values[id(a)] = a
    succ_targets: dict[int, Any] = dict(blocks)
    for o in ops.values():
        for s in o._successors:
            succ_targets.setdefault(id(s), s)

    expected: dict[int, list[tuple[int, int]]] = {id(v): [] for v in values.values()}
    bexpected: dict[int, list[tuple[int, int]]] = {id(b): [] for b in succ_targets.values()}
    for o in ops.values():
        if len(o._operands) != len(o._operand_uses):
            err("operand-uses-len", f"{name(o)} has {len(o._operands)} operands but {len(o._operand_uses)} operand uses")
        for i, (v, u) in enumerate(zip(o._operands, o._operand_uses)):
            if u._operation is not o or u._index != i:
                err("operand-use-record", f"operand use {i} of {name(o)} records ({name(u._operation)}, {u._index})")
            expected[id(v)].append((id(o), i))
            if forbid_erased_operands and isinstance(v, ErasedSSAValue) and o.parent is not None:
                err("erased-operand", f"operand {i} of attached {name(o)} is an ErasedSSAValue")
        if len(o._successors) != len(o._successor_uses):
            err("successor-uses-len", f"{name(o)} has {len(o._successors)} successors but {len(o._successor_uses)} uses")
        for i, (s, u) in enumerate(zip(o._successors, o._successor_uses)):
            if u._operation is not o or u._index != i:
                err("successor-use-record", f"successor use {i} of {name(o)} records ({name(u._operation)}, {u._index})")
            bexpected[id(s)].append((id(o), i))

    def check_uses(owner: Any, exp: list[tuple[int, int]], what: str, slot) -> None:
        chain, cyc = _chain(owner.first_use, "_next_use")
        if cyc:
            err(f"{what}-uses-cycle", f"use list of {name(owner)} is cyclic")
            return
        prev = None
        for u in chain:
            if u._prev_use is not prev:
                err(f"{what}-uses-prev", f"use list of {name(owner)} has a wrong prev pointer")
                break
            prev = u
        got = []
        for u in chain:
            o = u._operation
            got.append((id(o), u._index))
            if id(o) not in ops:
                err(f"{what}-uses-stale", f"use list of {name(owner)} holds a use by {name(o)} which is not live")
                continue
            lst = slot(o)
            if u._index >= len(lst) or lst[u._index] is not owner:
                err(f"{what}-uses-wrong", f"use list of {name(owner)} holds ({name(o)}, {u._index}) which does not reference it")
        if sorted(got) != sorted(exp):
            miss = len([e for e in exp if e not in got])
            extra = len([g for g in got if g not in exp])
            dup = len(got) - len(set(got))
            err(f"{what}-uses-mismatch", f"use list of {name(owner)}: {miss} missing, {extra} extra, {dup} duplicated vs operand/successor lists")

    for v in values.values():
        check_uses(v, expected[id(v)], "value", lambda o: o._operands)
    for b in succ_targets.values():
        check_uses(b, bexpected[id(b)], "block", lambda o: o._successors)
    return errs
