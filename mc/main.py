"""Launcher: python -m mc.main <Cnn> [--tier quick|thorough] [--replay file]

Contract (MANIFEST): exit 0 = property held on everything explored (known findings are
printed as KNOWN-FINDING lines); exit 1 + "VIOLATION property=<id> replay=<path>" for every
violation signature not listed in known_findings.json; exit 2 = harness error.
"""
from __future__ import annotations

import argparse
import hashlib
import importlib
import json
import os
import sys
import time
import traceback
from typing import Any

from mc.stats import Stats

ROOT = os.path.dirname(os.path.dirname(os.path.abspath(__file__)))
# runs against a scratch copy of the repo (mutation trials) must not overwrite real evidence / replays
OUT = os.path.join(os.environ["VERIF_REPO"], "_verif_out") if os.environ.get("VERIF_REPO") else ROOT
FINDINGS = os.path.join(ROOT, "known_findings.json")


def load_findings(pid: str) -> dict[str, dict[str, Any]]:
    try:
        with open(FINDINGS) as f:
            data = json.load(f)
    except FileNotFoundError:
        return {}
    return {e["signature"]: e for e in data.get("known", []) if e.get("property") == pid}


class Ctx:
    def __init__(self, pid: str, tier: str, seed: int) -> None:
        self.pid = pid
        self.tier = tier
        self.seed = seed
        self.quick = tier == "quick"
        self.stats = Stats()
        self.t0 = time.time()
        self.level = "model_checking"
        self.rule = ""
        self.assumptions: list[str] = []
        self.exhaustive = True
        self.bounds: dict[str, Any] = {}

    def merge(self, st: Stats) -> None:
        self.stats.merge(st)

    def pick(self, quick: Any, thorough: Any) -> Any:
        return quick if self.quick else thorough

    # ------------------------------------------------------------------
    def finish(self) -> int:
        st = self.stats
        known = load_findings(self.pid)
        new: list[tuple[str, dict[str, Any]]] = []
        for sig in sorted(st.violations):
            v = st.violations[sig]
            if sig in known:
                print(f"KNOWN-FINDING: property={self.pid} {known[sig].get('what', v['what'])} [{sig}] (x{v['count']})")
            else:
                new.append((sig, v))
        rdir = os.path.join(OUT, "replays", self.pid)
        if os.path.isdir(rdir):  # replays describe the latest run only
            for f in os.listdir(rdir):
                if f.endswith(".json"):
                    os.unlink(os.path.join(rdir, f))
        for sig, v in new:
            os.makedirs(rdir, exist_ok=True)
            h = hashlib.sha1(sig.encode()).hexdigest()[:12]
            path = os.path.join(rdir, f"{h}.json")
            with open(path, "w") as f:
                json.dump({"property": self.pid, "signature": sig, "what": v["what"], "count": v["count"],
                           "witness": v["witness"], "tier": self.tier, "seed": self.seed}, f, indent=1, default=str)
            print(f"VIOLATION property={self.pid} replay={path}")
            print(f"  signature: {sig}\n  what: {v['what']}\n  occurrences: {v['count']}")
        if st.caps:
            self.exhaustive = False
        cov: dict[str, Any] = {
            "states": st.states,
            "transitions": st.transitions,
            "traces_validated_against_impl": st.executions,
            "evaluations": max(st.evaluations, st.executions),
            "distinct_nontrivial": st.nontrivial,
            "rule": self.rule,
            "samples": st.samples[:6] or ["(none)"],
            "exhaustive": bool(self.exhaustive),
            "bounds": self.bounds,
            "distinct_outcomes": len(st.outcomes),
            "outcomes": dict(st.outcomes.most_common(40)),
            "caps_hit": st.caps,
            "max_depth": st.max_depth,
            "known_findings_seen": sorted(s for s in st.violations if s in known),
            "new_violation_signatures": [s for s, _ in new],
        }
        for k, v in st.extra.items():
            cov.setdefault(k, v)
        ev = {
            "property_id": self.pid,
            "tier": self.tier,
            "seed": self.seed,
            "level": self.level,
            "coverage": cov,
            "assumptions": self.assumptions,
            "wall_s": round(time.time() - self.t0, 3),
            "violations": len(new),
        }
        os.makedirs(os.path.join(OUT, "evidence"), exist_ok=True)
        with open(os.path.join(OUT, "evidence", f"{self.pid}.json"), "w") as f:
            json.dump(ev, f, indent=1, default=str)
        # compact per-tier ledger (kept next to the evidence so that a quick run does not erase what thorough covered)
        os.makedirs(os.path.join(OUT, "runs"), exist_ok=True)
        with open(os.path.join(OUT, "runs", f"{self.pid}.{self.tier}.json"), "w") as f:
            json.dump({"property_id": self.pid, "tier": self.tier, "seed": self.seed, "wall_s": ev["wall_s"],
                       "states": st.states, "transitions": st.transitions, "executions": st.executions,
                       "evaluations": cov["evaluations"], "distinct_nontrivial": st.nontrivial,
                       "distinct_outcomes": len(st.outcomes), "exhaustive": bool(self.exhaustive), "caps_hit": st.caps,
                       "bounds": self.bounds, "known_findings_seen": len(cov["known_findings_seen"]),
                       "new_violations": len(new)}, f, indent=1, default=str)
        print(f"[{self.pid}] tier={self.tier} seed={self.seed} states={st.states} transitions={st.transitions} "
              f"executions={st.executions} nontrivial={st.nontrivial} outcomes={len(st.outcomes)} "
              f"known={len(cov['known_findings_seen'])} new={len(new)} exhaustive={self.exhaustive} "
              f"wall={ev['wall_s']}s")
        return 1 if new else 0


def main(argv: list[str] | None = None) -> int:
    ap = argparse.ArgumentParser()
    ap.add_argument("prop")
    ap.add_argument("--tier", default=os.environ.get("VERIF_TIER", "quick"), choices=["quick", "thorough"])
    ap.add_argument("--replay", default=None)
    args = ap.parse_args(argv)
    pid = args.prop.upper()
    seed = int(os.environ.get("VERIF_SEED", "0") or 0)
    sys.path.insert(0, ROOT)
    # always import the working tree of /repo
    repo = os.environ.get("VERIF_REPO", "/repo")
    if repo not in sys.path:
        sys.path.insert(0, repo)
    try:
        mod = importlib.import_module(f"props.{pid.lower()}")
        if args.replay:
            with open(args.replay) as f:
                rep = json.load(f)
            ok = mod.replay(rep)
            print(("REPLAY holds" if ok else f"VIOLATION property={pid} replay={args.replay}"))
            return 0 if ok else 1
        ctx = Ctx(pid, args.tier, seed)
        mod.run(ctx)
        return ctx.finish()
    except SystemExit:
        raise
    except BaseException:  # noqa: BLE001
        traceback.print_exc()
        print(f"HARNESS-ERROR property={pid}", file=sys.stderr)
        return 2


if __name__ == "__main__":
    sys.exit(main())
