"""Process pool with per-task hard timeouts (kill -9), fork based.

pmap(fn, tasks)                      -> iterator of (task, result) ; no timeouts
kmap(fn, tasks, timeout_s=...)       -> iterator of (task, status, result)
                                        status in {"ok", "timeout", "crash"}
A task that times out is an *outcome*, never silently dropped.
"""
from __future__ import annotations

import multiprocessing as mp
import os
import signal
import time
import traceback
from typing import Any, Callable, Iterable, Iterator

NPROC = int(os.environ.get("VERIF_NPROC", "0")) or min(16, os.cpu_count() or 1)

_ctx = mp.get_context("fork")


def _worker(fn: Callable[[Any], Any], conn) -> None:  # pragma: no cover - child
    signal.signal(signal.SIGINT, signal.SIG_IGN)
    while True:
        try:
            msg = conn.recv()
        except EOFError:
            return
        if msg is None:
            return
        idx, task = msg
        try:
            res = ("ok", fn(task))
        except BaseException as e:  # noqa: BLE001 - report everything to the parent
            res = ("error", f"{type(e).__name__}: {e}\n{traceback.format_exc()[-3000:]}")
        try:
            conn.send((idx, res))
        except Exception as e:  # unpicklable result
            conn.send((idx, ("error", f"result not picklable: {e}")))


class _Slot:
    def __init__(self, fn):
        self.fn = fn
        self.start()

    def start(self):
        self.parent, child = _ctx.Pipe()
        self.proc = _ctx.Process(target=_worker, args=(self.fn, child), daemon=True)
        self.proc.start()
        child.close()
        self.busy = None  # (idx, task, deadline)

    def kill(self):
        try:
            os.kill(self.proc.pid, signal.SIGKILL)
        except ProcessLookupError:
            pass
        self.proc.join()
        try:
            self.parent.close()
        except Exception:
            pass


class HarnessError(RuntimeError):
    pass


def kmap(fn: Callable[[Any], Any], tasks: Iterable[Any], timeout_s: float | Callable[[Any], float] | None = None,
         procs: int | None = None) -> Iterator[tuple[Any, str, Any]]:
    """Unordered map with hard timeouts.  Exceptions inside fn are harness errors
    (fn is expected to catch what it wants to classify)."""
    procs = procs or NPROC
    it = iter(enumerate(tasks))
    slots = [_Slot(fn) for _ in range(procs)]
    pending = 0
    exhausted = False
    try:
        while True:
            # dispatch
            for s in slots:
                if s.busy is None and not exhausted:
                    try:
                        idx, task = next(it)
                    except StopIteration:
                        exhausted = True
                        break
                    t = timeout_s(task) if callable(timeout_s) else timeout_s
                    s.busy = (idx, task, (time.monotonic() + t) if t else None)
                    s.parent.send((idx, task))
                    pending += 1
            if pending == 0 and exhausted:
                break
            # collect
            conns = [s.parent for s in slots if s.busy is not None]
            ready = mp.connection.wait(conns, timeout=0.05)
            now = time.monotonic()
            for s in slots:
                if s.busy is None:
                    continue
                idx, task, deadline = s.busy
                if s.parent in ready:
                    try:
                        ridx, res = s.parent.recv()
                    except (EOFError, ConnectionResetError):
                        s.kill()
                        s.start()
                        pending -= 1
                        yield task, "crash", None
                        continue
                    assert ridx == idx
                    s.busy = None
                    pending -= 1
                    if res[0] == "error":
                        raise HarnessError(f"worker raised on task {task!r}: {res[1]}")
                    yield task, "ok", res[1]
                elif deadline is not None and now > deadline:
                    s.kill()
                    s.start()
                    pending -= 1
                    yield task, "timeout", None
                elif not s.proc.is_alive():
                    s.kill()
                    s.start()
                    pending -= 1
                    yield task, "crash", None
    finally:
        for s in slots:
            try:
                s.parent.send(None)
            except Exception:
                pass
        for s in slots:
            s.proc.join(timeout=0.5)
            if s.proc.is_alive():
                s.kill()


def pmap(fn: Callable[[Any], Any], tasks: Iterable[Any], procs: int | None = None) -> Iterator[tuple[Any, Any]]:
    tasks = list(tasks)
    if (procs or NPROC) == 1 or len(tasks) <= 1:
        for t in tasks:
            yield t, fn(t)
        return
    for task, status, res in kmap(fn, tasks, None, procs):
        if status != "ok":
            raise HarnessError(f"worker {status} on task {task!r}")
        yield task, res


def run_batches_bisect(fn: Callable[[Any], Any], batches: list, on_result: Callable[[Any], None],
                       on_item_timeout: Callable[[Any, str], None], kill_s: float, per_item_s: float = 0.02,
                       min_kill_s: float = 3.0) -> None:
    """batches: list of (tag, [items]).  fn((tag, items)) -> result.  A batch that does not return within
    kill_s + per_item_s*len(items) is killed and split in halves (with a halved kill time, never below
    min_kill_s) until the single offending item is isolated; on_item_timeout((tag, item), status) is called
    for it.  Nothing is dropped silently."""
    pending = list(batches)
    while pending:
        retry = []
        for task, status, res in kmap(fn, pending, timeout_s=lambda b, k=kill_s: k + per_item_s * len(b[1])):
            if status == "ok":
                on_result(res)
                continue
            tag, items = task
            if len(items) == 1:
                on_item_timeout((tag, items[0]), status)
            else:
                half = len(items) // 2
                retry.append((tag, items[:half]))
                retry.append((tag, items[half:]))
        pending = retry
        kill_s = max(min_kill_s, kill_s / 2)


# ---------------------------------------------------------------------------------------------
# watchdog map: the worker reports which item of its batch it is working on; the parent kills a worker
# that makes no progress for stall_s seconds and learns exactly which item stalled.
def _worker_wd(fn, conn) -> None:  # pragma: no cover - child
    signal.signal(signal.SIGINT, signal.SIG_IGN)
    while True:
        try:
            msg = conn.recv()
        except EOFError:
            return
        if msg is None:
            return
        idx, task = msg

        def progress(i: int, idx=idx) -> None:
            conn.send((idx, ("progress", i)))

        try:
            res = ("ok", fn(task, progress))
        except BaseException as e:  # noqa: BLE001
            res = ("error", f"{type(e).__name__}: {e}\n{traceback.format_exc()[-3000:]}")
        conn.send((idx, res))


def kmap_watchdog(fn: Callable[[Any, Callable[[int], None]], Any], tasks: Iterable[Any], stall_s: float,
                  procs: int | None = None) -> Iterator[tuple[Any, str, Any]]:
    """yields (task, "ok", result) or (task, "stall"/"crash", index of the item in progress)."""
    procs = procs or NPROC
    it = iter(enumerate(tasks))

    class Slot:
        def __init__(self):
            self.start()

        def start(self):
            self.parent, child = _ctx.Pipe()
            self.proc = _ctx.Process(target=_worker_wd, args=(fn, child), daemon=True)
            self.proc.start()
            child.close()
            self.busy = None
            self.at = 0
            self.last = 0.0

        def kill(self):
            try:
                os.kill(self.proc.pid, signal.SIGKILL)
            except ProcessLookupError:
                pass
            self.proc.join()
            try:
                self.parent.close()
            except Exception:
                pass

    slots = [Slot() for _ in range(procs)]
    pending = 0
    exhausted = False
    try:
        while True:
            for s in slots:
                if s.busy is None and not exhausted:
                    try:
                        idx, task = next(it)
                    except StopIteration:
                        exhausted = True
                        break
                    s.busy = (idx, task)
                    s.at = 0
                    s.last = time.monotonic()
                    s.parent.send((idx, task))
                    pending += 1
            if pending == 0 and exhausted:
                break
            conns = [s.parent for s in slots if s.busy is not None]
            ready = mp.connection.wait(conns, timeout=0.05)
            now = time.monotonic()
            for s in slots:
                if s.busy is None:
                    continue
                idx, task = s.busy
                done = False
                while s.parent in ready or s.parent.poll():
                    try:
                        ridx, res = s.parent.recv()
                    except (EOFError, ConnectionResetError):
                        at = s.at
                        s.kill()
                        s.start()
                        pending -= 1
                        yield task, "crash", at
                        done = True
                        break
                    if res[0] == "progress":
                        s.at = res[1]
                        s.last = now
                        ready = [c for c in ready if c is not s.parent]
                        continue
                    s.busy = None
                    pending -= 1
                    if res[0] == "error":
                        raise HarnessError(f"worker raised on task: {res[1]}")
                    yield task, "ok", res[1]
                    done = True
                    break
                if done or s.busy is None:
                    continue
                if now - s.last > stall_s:
                    at = s.at
                    s.kill()
                    s.start()
                    pending -= 1
                    yield task, "stall", at
                elif not s.proc.is_alive():
                    at = s.at
                    s.kill()
                    s.start()
                    pending -= 1
                    yield task, "crash", at
    finally:
        for s in slots:
            try:
                s.parent.send(None)
            except Exception:
                pass
        for s in slots:
            s.proc.join(timeout=0.5)
            if s.proc.is_alive():
                s.kill()
