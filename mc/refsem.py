"""mc.refsem -- INDEPENDENT reference semantics for func / arith / cf / scf
(+ memref alloc/load/store on tiny buffers, affine.apply/min/max/for/load/store).

Written from the MLIR LangRef / dialect documentation.  It walks real xDSL IR objects but
shares NO code with `xdsl.interpreters` or `xdsl.utils.comparisons` (neither is imported):
ops are recognised by their `op.name` string, attributes are read from `op.properties` /
`op.attributes`, types by `type.name`.

Value model
-----------
* integer / index values are BIT PATTERNS: Python ints in [0, 2^w)  (index: `index_width`, 64 by
  default).  Signed / unsigned views are explicit (`sview`, plain bits).
* float values are IEEE-754 bit patterns of the value's own format (f16, bf16, f32, f64).
  Arithmetic is computed in binary64 and rounded ONCE to the target format (innocuous double
  rounding: 53 >= 2p+2 for p <= 24; cross-checked in the self test against exact rational
  arithmetic rounded by `round_exact`).
* NaN: every arithmetic op that produces a NaN produces the canonical quiet NaN (sign 0, top
  mantissa bit only).  Pure bit moves (constant, select, bitcast, block arguments, calls, memory,
  negf which only flips the sign bit) preserve payloads.  `values_equal` treats any NaN as equal to
  any NaN of the same type, so callers never depend on payloads.
* POISON: a distinguished value.  Poison-producing ops (shift amount >= width, nsw/nuw overflow,
  fptosi out of range, nnan/ninf violations, reads of uninitialised memory) return POISON,
  which propagates through every op that uses it (arith.select only when it is the condition or
  the chosen arm).  IMMEDIATE UNDEFINED BEHAVIOUR (integer division / remainder by zero, signed
  division overflow INT_MIN / -1, branching / looping / indexing / calling-externally on poison,
  out-of-bounds memory access, non-positive scf.for step, failed cf.assert) aborts the run.  In both
  cases `run_func` returns POISON as the result: callers must EXCLUDE such inputs.
* AMBIGUOUS: where the documentation allows more than one answer (minnumf/maxnumf on zeros of
  different sign, scf.for whose induction variable would overflow) the run is flagged ambiguous;
  `run_func` maps that to POISON as well (exclude), `execute` exposes the flag.
* Fast-math flags other than nnan / ninf do not change the reference result.

API (see the bottom of the file for the self test, `python -m mc.refsem`)
---------------------------------------------------------------------------
    run_func(module_or_func, args, name=None, **kw) -> (results | POISON, effect_log)
        args: one entry per function argument: int (any Python int, taken modulo 2^w) or float (rounded
        to the argument's float type) or, for memref arguments, a flat list of ints / a Buffer.
        results: tuple of (type_string, bits) pairs, e.g. (("i3", 5), ("f32", 0x3f800000)).
        effect_log: list of tuples ("call", callee, ((type, bits), ...)),
                    ("op", op_name, ((type, bits), ...))  for opaque ops (test.op ...),
                    ("store", buffer_id, (i, j, ...), (type, bits)).
    execute(module_or_func, args, name=None, **kw) -> Outcome   (results, log, poison, ub, ambiguous,
        steps, memory = final contents of memref arguments)
    Machine(index_width=64, fuel=200000, trace=None, unknown_op=None, externals=None)
        .eval_op(op, operand_values) -> list of result values (ints / POISON / Buffer), for a single
        detached op;  .call(func_op, values)  (both raise UndefinedBehaviour on immediate UB and set
        machine.ambiguous when the answer is not unique);  trace(op, operand_values, result_values) is called
        after every op (region ops after their body, post-order; terminators with result_values [])
        in execution order;  unknown_op(machine, op, operand_values) may return the result
        values of an op refsem does not model (return None to fall back to the default: opaque
        effect + deterministic results);  externals: {callee: fn(machine, arg_values) -> values}.
    helpers: POISON, sview(bits, w), mask(w), type_str(t), int_width(t), float_format(t),
        float_to_bits(fmt, x), bits_to_float(fmt, bits), round_exact(fmt, fraction), is_nan,
        values_equal(type_string, a, b), results_equal(r1, r2), Buffer.
"""
from __future__ import annotations

import struct
from fractions import Fraction
from typing import Any, Callable, Sequence


# ======================================================================================
# special values and exceptions
# ======================================================================================
class _Poison:
    _inst = None

    def __new__(cls):
        if cls._inst is None:
            cls._inst = super().__new__(cls)
        return cls._inst

    def __repr__(self):
        return "POISON"

    def __reduce__(self):
        return (_Poison, ())


POISON = _Poison()


class RefsemError(Exception):
    """Base class of errors raised to the caller (never a verdict about the program)."""


class Unsupported(RefsemError):
    """The program uses an op / type / attribute that refsem does not model."""


class OutOfFuel(RefsemError):
    """Step budget exhausted (possibly a non-terminating program)."""


class UndefinedBehaviour(Exception):
    """immediate undefined behaviour; aborts the run.  `execute` / `run_func` turn it into POISON;
    callers of Machine.eval_op / Machine.call must catch it (and exclude the input)."""


_UB = UndefinedBehaviour


# ======================================================================================
# integers
# ======================================================================================
def mask(w: int) -> int:
    return (1 << w) - 1


def sview(bits: int, w: int) -> int:
    """two's complement (signed) view of a w-bit pattern"""
    bits &= (1 << w) - 1
    return bits - (1 << w) if bits >> (w - 1) else bits


def _smin(w: int) -> int:
    return -(1 << (w - 1))


def _smax(w: int) -> int:
    return (1 << (w - 1)) - 1


def _trunc_div(a: int, b: int) -> int:
    """signed division rounding toward zero (b != 0)"""
    q = abs(a) // abs(b)
    return -q if (a < 0) != (b < 0) else q


def _floor_div(a: int, b: int) -> int:
    q = _trunc_div(a, b)
    if q * b != a and ((a < 0) != (b < 0)):
        q -= 1
    return q


def _ceil_div(a: int, b: int) -> int:
    q = _trunc_div(a, b)
    if q * b != a and ((a < 0) == (b < 0)):
        q += 1
    return q


# ======================================================================================
# floats
# ======================================================================================
class FloatFormat:
    def __init__(self, name: str, ebits: int, mbits: int, code: str | None):
        self.name = name
        self.ebits = ebits
        self.mbits = mbits
        self.width = 1 + ebits + mbits
        self.bias = (1 << (ebits - 1)) - 1
        self.emax = self.bias
        self.emin = 1 - self.bias
        self.code = code  # struct code if Python has one
        self.sign_bit = 1 << (self.width - 1)
        self.exp_mask = ((1 << ebits) - 1) << mbits
        self.man_mask = (1 << mbits) - 1
        self.inf = self.exp_mask
        self.qnan = self.exp_mask | (1 << (mbits - 1))
        self.max_finite = (self.exp_mask - (1 << mbits)) | self.man_mask

    def __repr__(self):
        return f"FloatFormat({self.name})"


F16 = FloatFormat("f16", 5, 10, "<e")
BF16 = FloatFormat("bf16", 8, 7, None)
F32 = FloatFormat("f32", 8, 23, "<f")
F64 = FloatFormat("f64", 11, 52, "<d")
FLOAT_FORMATS = {f.name: f for f in (F16, BF16, F32, F64)}
_INT_CODE = {16: "<H", 32: "<I", 64: "<Q"}


def is_nan(fmt: FloatFormat, bits: int) -> bool:
    return (bits & fmt.exp_mask) == fmt.exp_mask and (bits & fmt.man_mask) != 0


def is_inf(fmt: FloatFormat, bits: int) -> bool:
    return (bits & ~fmt.sign_bit) == fmt.inf


def is_zero(fmt: FloatFormat, bits: int) -> bool:
    return (bits & ~fmt.sign_bit) == 0


def bits_to_float(fmt: FloatFormat, bits: int) -> float:
    """exact value of the pattern as a Python float (every supported format embeds in binary64);
    NaNs lose their payload (callers test is_nan on the bits first)"""
    if fmt.code is not None:
        return struct.unpack(fmt.code, struct.pack(_INT_CODE[fmt.width], bits))[0]
    sign = -1.0 if bits & fmt.sign_bit else 1.0
    e = (bits & fmt.exp_mask) >> fmt.mbits
    m = bits & fmt.man_mask
    if e == (1 << fmt.ebits) - 1:
        return float("nan") if m else sign * float("inf")
    if e == 0:
        return sign * m * 2.0 ** (fmt.emin - fmt.mbits)
    return sign * ((1 << fmt.mbits) | m) * 2.0 ** (e - fmt.bias - fmt.mbits)


def round_exact(fmt: FloatFormat, q: Fraction | int, negative_zero: bool = False) -> int:
    """round the exact rational q to fmt, round-to-nearest ties-to-even; returns the bit pattern.
    Pure integer arithmetic, used for int->float casts, bf16, and to cross-check the fast paths."""
    q = Fraction(q)
    if q == 0:
        return fmt.sign_bit if negative_zero else 0
    sign = fmt.sign_bit if q < 0 else 0
    a = -q if q < 0 else q
    n, d = a.numerator, a.denominator
    e = n.bit_length() - d.bit_length()  # 2^(e-1) < a < 2^(e+1)
    if (n << max(-e, 0)) < (d << max(e, 0)):  # a < 2^e
        e -= 1
    if e < fmt.emin:
        e = fmt.emin
    sh = fmt.mbits - e  # significand M = a * 2^sh, rounded to an integer
    num = n << sh if sh >= 0 else n
    den = d if sh >= 0 else d << (-sh)
    m, r = divmod(num, den)
    if 2 * r > den or (2 * r == den and (m & 1)):
        m += 1
    if m >> (fmt.mbits + 1):  # carried into the next binade
        m >>= 1
        e += 1
    if e > fmt.emax:
        return sign | fmt.inf
    if m < (1 << fmt.mbits):  # subnormal (e == emin) or rounded down to zero
        return sign | m
    return sign | ((e + fmt.bias) << fmt.mbits) | (m - (1 << fmt.mbits))


def float_to_bits(fmt: FloatFormat, x: float) -> int:
    """round a Python float (binary64) to fmt, ties-to-even; NaN -> canonical quiet NaN"""
    if x != x:
        return fmt.qnan
    if fmt.code is not None:
        try:
            return struct.unpack(_INT_CODE[fmt.width], struct.pack(fmt.code, x))[0]
        except OverflowError:  # struct raises exactly when round-to-nearest overflows to infinity
            return (fmt.sign_bit if x < 0 else 0) | fmt.inf
    if x in (float("inf"), float("-inf")):
        return (fmt.sign_bit if x < 0 else 0) | fmt.inf
    if x == 0.0:
        return fmt.sign_bit if struct.pack("<d", x)[7] & 0x80 else 0
    return round_exact(fmt, Fraction(x))


def _fsign(fmt: FloatFormat, bits: int) -> int:
    return 1 if bits & fmt.sign_bit else 0


def _farith(name: str, fmt: FloatFormat, a: int, b: int) -> int:
    """IEEE-754 add / sub / mul / div on bit patterns of fmt (default rounding, no traps)"""
    if is_nan(fmt, a) or is_nan(fmt, b):
        return fmt.qnan
    x, y = bits_to_float(fmt, a), bits_to_float(fmt, b)
    if name == "div":
        if y == 0.0:
            if x == 0.0:
                return fmt.qnan
            return ((a ^ b) & fmt.sign_bit) | fmt.inf
        if is_inf(fmt, a) and is_inf(fmt, b):
            return fmt.qnan
        r = x / y
    elif name == "add":
        r = x + y
    elif name == "sub":
        r = x - y
    elif name == "mul":
        r = x * y
    else:  # pragma: no cover
        raise AssertionError(name)
    return float_to_bits(fmt, r)


def _farith_exact(name: str, fmt: FloatFormat, a: int, b: int) -> int:
    """same as _farith but through exact rational arithmetic and ONE rounding (slow; self test and
    formats without a struct code)"""
    if is_nan(fmt, a) or is_nan(fmt, b):
        return fmt.qnan
    sa, sb = _fsign(fmt, a), _fsign(fmt, b)
    ia, ib = is_inf(fmt, a), is_inf(fmt, b)
    za, zb = is_zero(fmt, a), is_zero(fmt, b)
    if name == "sub":
        name, sb, b = "add", 1 - sb, b ^ fmt.sign_bit
    if name == "add":
        if ia or ib:
            if ia and ib and sa != sb:
                return fmt.qnan
            return a if ia else b
        q = Fraction(bits_to_float(fmt, a)) + Fraction(bits_to_float(fmt, b))
        if q == 0:  # exact zero sum: +0 unless both addends are negative zeros / x + (-x) = +0
            return fmt.sign_bit if (za and zb and sa and sb) else 0
        return round_exact(fmt, q)
    sign = fmt.sign_bit if sa != sb else 0
    if name == "mul":
        if (ia and zb) or (za and ib):
            return fmt.qnan
        if ia or ib:
            return sign | fmt.inf
        q = Fraction(bits_to_float(fmt, a)) * Fraction(bits_to_float(fmt, b))
        return round_exact(fmt, q, negative_zero=bool(sign)) if q else sign
    if name == "div":
        if (ia and ib) or (za and zb):
            return fmt.qnan
        if ia or zb:
            return sign | fmt.inf
        if ib or za:
            return sign
        q = Fraction(bits_to_float(fmt, a)) / Fraction(bits_to_float(fmt, b))
        r = round_exact(fmt, q)
        return r
    raise AssertionError(name)


def _fcmp(fmt: FloatFormat, a: int, b: int) -> str:
    """'un' | 'lt' | 'eq' | 'gt'  (IEEE comparison: -0 == +0, NaN unordered)"""
    if is_nan(fmt, a) or is_nan(fmt, b):
        return "un"
    x, y = bits_to_float(fmt, a), bits_to_float(fmt, b)
    return "lt" if x < y else ("gt" if x > y else "eq")


# ======================================================================================
# types
# ======================================================================================
def int_width(t: Any, index_width: int = 64) -> int | None:
    """bit width of an integer / index type, None for anything else"""
    n = t.name
    if n == "integer_type":
        return t.width.data
    if n == "index":
        return index_width
    return None


def float_format(t: Any) -> FloatFormat | None:
    return FLOAT_FORMATS.get(t.name)


def type_str(t: Any) -> str:
    n = t.name
    if n == "integer_type":
        return str(t)
    if n == "index" or n in FLOAT_FORMATS:
        return n
    return str(t)


def values_equal(ts: str, a: Any, b: Any) -> bool:
    """bit-exact equality; any NaN equals any NaN of the same float type; POISON equals only POISON"""
    if a is POISON or b is POISON:
        return a is b
    fmt = FLOAT_FORMATS.get(ts)
    if fmt is not None and isinstance(a, int) and isinstance(b, int) and is_nan(fmt, a) and is_nan(fmt, b):
        return True
    return a == b


def results_equal(r1: Any, r2: Any) -> bool:
    """compare two `results` tuples (or POISON) as returned by run_func"""
    if r1 is POISON or r2 is POISON:
        return r1 is r2
    if len(r1) != len(r2):
        return False
    return all(t1 == t2 and values_equal(t1, v1, v2) for (t1, v1), (t2, v2) in zip(r1, r2))


class Buffer:
    """a tiny memref: row-major list of bit patterns (None = uninitialised)"""

    def __init__(self, ident: Any, shape: Sequence[int], elem: str, data: list | None = None):
        self.ident = ident
        self.shape = tuple(shape)
        self.elem = elem
        n = 1
        for s in self.shape:
            n *= s
        self.data = list(data) if data is not None else [None] * n
        if len(self.data) != n:
            raise RefsemError(f"buffer {ident}: {len(self.data)} elements for shape {self.shape}")

    def offset(self, idx: Sequence[int]) -> int | None:
        if len(idx) != len(self.shape):
            return None
        off = 0
        for i, s in zip(idx, self.shape):
            if not 0 <= i < s:
                return None
            off = off * s + i
        return off

    def __repr__(self):
        return f"Buffer({self.ident}, {self.shape}, {self.elem}, {self.data})"


# ======================================================================================
# the machine
# ======================================================================================
class Outcome:
    """result of `execute`"""

    def __init__(self):
        self.results: Any = None      # tuple of (type_string, bits) or POISON
        self.log: list = []
        self.poison = False           # some returned value is poison
        self.ub: str | None = None    # reason of immediate undefined behaviour
        self.ambiguous: str | None = None
        self.steps = 0
        self.memory: list = []        # final contents of memref arguments [(arg index, [bits...])]

    @property
    def defined(self) -> bool:
        return not self.poison and self.ub is None and self.ambiguous is None


_CMPI = {0: "eq", 1: "ne", 2: "slt", 3: "sle", 4: "sgt", 5: "sge", 6: "ult", 7: "ule", 8: "ugt", 9: "uge"}
CMPI_PREDICATES = dict(_CMPI)
# (ordered-or-unordered flag, set of relations that make it true)
_CMPF = {
    0: ("false", None, ()), 1: ("oeq", "o", ("eq",)), 2: ("ogt", "o", ("gt",)), 3: ("oge", "o", ("gt", "eq")),
    4: ("olt", "o", ("lt",)), 5: ("ole", "o", ("lt", "eq")), 6: ("one", "o", ("lt", "gt")), 7: ("ord", "o", ("lt", "eq", "gt")),
    8: ("ueq", "u", ("eq",)), 9: ("ugt", "u", ("gt",)), 10: ("uge", "u", ("gt", "eq")), 11: ("ult", "u", ("lt",)),
    12: ("ule", "u", ("lt", "eq")), 13: ("une", "u", ("lt", "gt")), 14: ("uno", "u", ()), 15: ("true", None, ()),
}
CMPF_PREDICATES = {k: v[0] for k, v in _CMPF.items()}

_TERMINATORS = {"func.return", "scf.yield", "scf.condition", "affine.yield", "cf.br", "cf.cond_br", "cf.switch",
                "scf.reduce.return"}


def _mix(*xs: int) -> int:
    """small deterministic mixing function (FNV-1a style) for results of opaque calls / ops"""
    h = 0xCBF29CE484222325
    for x in xs:
        x &= (1 << 128) - 1
        while True:
            h = ((h ^ (x & 0xFF)) * 0x100000001B3) & 0xFFFFFFFFFFFFFFFF
            x >>= 8
            if not x:
                break
        h = ((h ^ 0xFF) * 0x100000001B3) & 0xFFFFFFFFFFFFFFFF
    return h


def _name_code(s: str) -> int:
    return int.from_bytes(s.encode(), "little")


class Machine:
    def __init__(self, index_width: int = 64, fuel: int = 200_000,
                 trace: Callable[[Any, list, list], None] | None = None,
                 unknown_op: Callable[["Machine", Any, list], Sequence | None] | None = None,
                 externals: dict[str, Callable[["Machine", list], Sequence]] | None = None,
                 module: Any = None):
        self.index_width = index_width
        self.fuel = fuel
        self.steps = 0
        self.trace = trace
        self.unknown_op = unknown_op
        self.externals = externals or {}
        self.module = module
        self.log: list = []
        self.ambiguous: str | None = None
        self.env: dict = {}
        self._allocs = 0
        self._depth = 0

    # ------------------------------------------------------------------ helpers
    def width(self, t: Any) -> int:
        w = int_width(t, self.index_width)
        if w is None:
            raise Unsupported(f"integer or index type expected, got {t}")
        if w == 0:
            raise Unsupported("zero-width integers are not modelled")
        return w

    def pub(self, t: Any, v: Any) -> tuple:
        """public (type_string, bits) form of a runtime value"""
        if isinstance(v, Buffer):
            return (type_str(t), ("buffer", v.ident))
        return (type_str(t), v)

    def coerce(self, t: Any, v: Any) -> Any:
        """turn a caller supplied argument into a runtime value of type t"""
        if v is POISON or isinstance(v, Buffer):
            return v
        w = int_width(t, self.index_width)
        if w is not None:
            if isinstance(v, float):
                raise RefsemError(f"float given for integer type {t}")
            return int(v) & mask(w)
        fmt = float_format(t)
        if fmt is not None:
            if isinstance(v, float):
                return float_to_bits(fmt, v)
            return int(v) & mask(fmt.width)
        if t.name == "memref":
            return Buffer(None, t.get_shape(), type_str(t.element_type), [self.coerce(t.element_type, x) for x in v])
        raise Unsupported(f"argument of type {t}")

    def _opaque_results(self, tag: str, op: Any, args: list) -> list:
        """deterministic results of an opaque call / op: a function of the tag and the argument bits"""
        code = [_name_code(tag)]
        for v in args:
            if v is POISON:
                raise _UB(f"poison passed to opaque {tag}")
            code.append(_mix(*[x if x is not None else -1 for x in v.data]) if isinstance(v, Buffer) else v)
        out = []
        for i, r in enumerate(op.results):
            h = _mix(i, *code)
            w = int_width(r.type, self.index_width)
            if w is not None:
                out.append(h & mask(w))
                continue
            fmt = float_format(r.type)
            if fmt is not None:
                out.append(float_to_bits(fmt, float(h % 17 - 8)))
                continue
            raise Unsupported(f"opaque result of type {r.type}")
        return out

    def tick(self) -> None:
        self.steps += 1
        if self.steps > self.fuel:
            raise OutOfFuel(f"more than {self.fuel} operations executed")

    # ------------------------------------------------------------------ regions / blocks
    def get(self, v: Any) -> Any:
        try:
            return self.env[v]
        except KeyError:
            raise RefsemError(f"use of a value that has not been computed: {v}") from None

    def run_region(self, region: Any, args: Sequence) -> tuple[str, list, Any]:
        """execute an SSACFG region from its entry block; returns (terminator name, operand values, op)"""
        block = region.blocks.first if hasattr(region.blocks, "first") else (region.blocks[0] if region.blocks else None)
        if block is None:
            return ("<empty>", [], None)
        while True:
            if len(block.args) != len(args):
                raise RefsemError("block argument count mismatch")
            for ba, v in zip(block.args, args):
                self.env[ba] = v
            op = block.first_op
            nxt = None
            while op is not None:
                self.tick()
                name = op.name
                vals = [self.get(o) for o in op.operands]
                if name in _TERMINATORS or (op.next_op is None and op.successors):
                    if self.trace is not None:
                        self.trace(op, vals, [])
                    if name == "cf.br":
                        nxt, args = op.successors[0], vals
                    elif name == "cf.cond_br":
                        nxt, args = self._cond_br(op, vals)
                    elif name == "cf.switch":
                        nxt, args = self._switch(op, vals)
                    elif op.successors:
                        raise Unsupported(f"terminator {name} with successors")
                    else:
                        return (name, vals, op)
                    break
                res = self.eval_op(op, vals)
                for r, v in zip(op.results, res):
                    self.env[r] = v
                op = op.next_op
            else:
                # block without terminator (e.g. implicit terminators elided): treat as empty yield
                return ("<fallthrough>", [], None)
            block = nxt

    def _segments(self, op: Any) -> list[int]:
        seg = op.properties.get("operandSegmentSizes") or op.attributes.get("operandSegmentSizes")
        if seg is None:
            raise Unsupported(f"{op.name} without operandSegmentSizes")
        return [int(x) for x in seg.get_values()]

    def _cond_br(self, op: Any, vals: list):
        c = vals[0]
        if c is POISON:
            raise _UB("branch on poison")
        n_then = self._segments(op)[1]
        if c & 1:
            return op.successors[0], vals[1:1 + n_then]
        return op.successors[1], vals[1 + n_then:]

    def _switch(self, op: Any, vals: list):
        flag = vals[0]
        if flag is POISON:
            raise _UB("switch on poison")
        seg = self._segments(op)
        w = self.width(op.operands[0].type)
        default_args = vals[1:1 + seg[1]]
        case_args = vals[1 + seg[1]:]
        cv = op.properties.get("case_values")
        case_values = [int(x) & mask(w) for x in cv.get_values()] if cv is not None else []
        sizes = [int(x) for x in op.properties["case_operand_segments"].get_values()]
        pos = 0
        for i, val in enumerate(case_values):
            if val == flag:
                return op.successors[1 + i], case_args[pos:pos + sizes[i]]
            pos += sizes[i]
        return op.successors[0], default_args

    # ------------------------------------------------------------------ functions
    def find_symbol(self, start: Any, name: str) -> Any:
        scopes = []
        p = start
        while p is not None:
            scopes.append(p)
            p = p.parent_op() if hasattr(p, "parent_op") else None
        if self.module is not None:
            scopes.append(self.module)
        for scope in scopes:
            for region in scope.regions:
                for block in region.blocks:
                    for o in block.ops:
                        sn = o.properties.get("sym_name") or o.attributes.get("sym_name")
                        if sn is not None and sn.data == name:
                            return o
        raise RefsemError(f"symbol @{name} not found")

    def call(self, fn: Any, args: list) -> list:
        """call a func.func with runtime values; external declarations go to the effect log"""
        name = fn.properties["sym_name"].data
        body = fn.regions[0]
        first = body.blocks.first if body.blocks else None
        if first is None or first.first_op is None:
            return self._external(name, fn, args)
        self._depth += 1
        if self._depth > 64:
            raise OutOfFuel("call depth > 64")
        saved = self.env
        self.env = {}
        try:
            term, vals, _ = self.run_region(body, args)
        finally:
            self.env = saved
            self._depth -= 1
        if term != "func.return":
            raise Unsupported(f"function body left through {term}")
        return vals

    def _external(self, name: str, fn: Any, args: list, call_op: Any = None) -> list:
        ftype = fn.properties["function_type"]
        in_types = list(ftype.inputs.data)
        for v in args:
            if v is POISON:
                raise _UB("poison passed to an external function")
        self.log.append(("call", name, tuple(self.pub(t, v) for t, v in zip(in_types, args))))
        if name in self.externals:
            return list(self.externals[name](self, args))

        class _R:  # results described by the function type
            def __init__(self, t):
                self.type = t

        class _O:
            results = [_R(t) for t in ftype.outputs.data]

        return self._opaque_results("call:" + name, _O, args)

    # ------------------------------------------------------------------ single ops
    def eval_op(self, op: Any, vals: list) -> list:
        """evaluate one non-terminator op on runtime operand values; returns its result values"""
        name = op.name
        h = _DISPATCH.get(name)
        if h is None:
            res = self._unknown(op, vals)
        else:
            res = h(self, op, vals)
        if self.trace is not None:
            self.trace(op, vals, res)
        return res

    def _unknown(self, op: Any, vals: list) -> list:
        if self.unknown_op is not None:
            r = self.unknown_op(self, op, vals)
            if r is not None:
                return list(r)
        if op.regions or op.successors:
            raise Unsupported(f"op {op.name} is not modelled")
        # opaque effect: logged, results are a deterministic function of name and operands
        res = self._opaque_results("op:" + op.name, op, vals)
        self.log.append(("op", op.name, tuple(self.pub(o.type, v) for o, v in zip(op.operands, vals))))
        return res


# ======================================================================================
# op semantics
# ======================================================================================
_DISPATCH: dict[str, Callable[[Machine, Any, list], list]] = {}


def _op(*names: str):
    def deco(f):
        for n in names:
            _DISPATCH[n] = f
        return f
    return deco


def _prop(op: Any, key: str) -> Any:
    v = op.properties.get(key)
    return v if v is not None else op.attributes.get(key)


def _flags(op: Any, key: str) -> set[str]:
    a = _prop(op, key)
    if a is None:
        return set()
    return {getattr(f, "value", str(f)) for f in a.data}


def _any_poison(vals: list) -> bool:
    for v in vals:
        if v is POISON:
            return True
    return False


# ---- arith.constant ------------------------------------------------------------------
@_op("arith.constant")
def _constant(m: Machine, op: Any, vals: list) -> list:
    attr = _prop(op, "value")
    t = op.results[0].type
    w = int_width(t, m.index_width)
    if w is not None:
        return [int(attr.value.data) & mask(w)]
    fmt = float_format(t)
    if fmt is not None:
        return [float_to_bits(fmt, float(attr.value.data))]
    raise Unsupported(f"arith.constant of type {t}")


# ---- integer binary ops ---------------------------------------------------------------
def _int_binary(fn):
    def run(m: Machine, op: Any, vals: list) -> list:
        w = m.width(op.results[0].type)
        if _any_poison(vals):
            return [POISON]
        r = fn(m, op, w, vals[0], vals[1])
        return [r if r is POISON else r & mask(w)]
    return run


def _overflow(op: Any, w: int, exact_signed: int, exact_unsigned: int) -> bool:
    fl = _flags(op, "overflowFlags")
    if "nsw" in fl and not _smin(w) <= exact_signed <= _smax(w):
        return True
    if "nuw" in fl and not 0 <= exact_unsigned <= mask(w):
        return True
    return False


@_op("arith.addi")
@_int_binary
def _addi(m, op, w, a, b):
    return POISON if _overflow(op, w, sview(a, w) + sview(b, w), a + b) else a + b


@_op("arith.subi")
@_int_binary
def _subi(m, op, w, a, b):
    return POISON if _overflow(op, w, sview(a, w) - sview(b, w), a - b) else a - b


@_op("arith.muli")
@_int_binary
def _muli(m, op, w, a, b):
    return POISON if _overflow(op, w, sview(a, w) * sview(b, w), a * b) else a * b


_DISPATCH["arith.andi"] = _int_binary(lambda m, op, w, a, b: a & b)
_DISPATCH["arith.ori"] = _int_binary(lambda m, op, w, a, b: a | b)
_DISPATCH["arith.xori"] = _int_binary(lambda m, op, w, a, b: a ^ b)


@_op("arith.shli")
@_int_binary
def _shli(m, op, w, a, b):
    if b >= w:
        return POISON
    if _overflow(op, w, sview(a, w) << b, a << b):
        return POISON
    return a << b


_DISPATCH["arith.shrui"] = _int_binary(lambda m, op, w, a, b: POISON if b >= w else a >> b)
_DISPATCH["arith.shrsi"] = _int_binary(lambda m, op, w, a, b: POISON if b >= w else sview(a, w) >> b)


def _sdiv_guard(w: int, a: int, b: int) -> tuple[int, int]:
    if b == 0:
        raise _UB("signed division by zero")
    sa, sb = sview(a, w), sview(b, w)
    if sa == _smin(w) and sb == -1:
        raise _UB("signed division overflow (INT_MIN / -1)")
    return sa, sb


def _udiv_guard(b: int) -> None:
    if b == 0:
        raise _UB("unsigned division by zero")


def _divsi(m, op, w, a, b):
    sa, sb = _sdiv_guard(w, a, b)
    return _trunc_div(sa, sb)


def _remsi(m, op, w, a, b):
    sa, sb = _sdiv_guard(w, a, b)
    return sa - _trunc_div(sa, sb) * sb


def _floordivsi(m, op, w, a, b):
    sa, sb = _sdiv_guard(w, a, b)
    return _floor_div(sa, sb)


def _ceildivsi(m, op, w, a, b):
    sa, sb = _sdiv_guard(w, a, b)
    return _ceil_div(sa, sb)


def _divui(m, op, w, a, b):
    _udiv_guard(b)
    return a // b


def _remui(m, op, w, a, b):
    _udiv_guard(b)
    return a % b


def _ceildivui(m, op, w, a, b):
    _udiv_guard(b)
    return -((-a) // b)


def _int_binary_ub(fn):
    """division family: immediate UB is checked even before poison propagation would apply
    (a poison divisor may be zero, so the whole run is undefined)"""
    def run(m: Machine, op: Any, vals: list) -> list:
        w = m.width(op.results[0].type)
        if vals[1] is POISON:
            raise _UB("division by poison")
        if vals[0] is POISON:
            if vals[1] == 0:
                raise _UB("division by zero")
            return [POISON]
        return [fn(m, op, w, vals[0], vals[1]) & mask(w)]
    return run


for _n, _f in (("divsi", _divsi), ("remsi", _remsi), ("floordivsi", _floordivsi), ("ceildivsi", _ceildivsi),
               ("divui", _divui), ("remui", _remui), ("ceildivui", _ceildivui)):
    _DISPATCH["arith." + _n] = _int_binary_ub(_f)

_DISPATCH["arith.minsi"] = _int_binary(lambda m, op, w, a, b: a if sview(a, w) <= sview(b, w) else b)
_DISPATCH["arith.maxsi"] = _int_binary(lambda m, op, w, a, b: a if sview(a, w) >= sview(b, w) else b)
_DISPATCH["arith.minui"] = _int_binary(lambda m, op, w, a, b: a if a <= b else b)
_DISPATCH["arith.maxui"] = _int_binary(lambda m, op, w, a, b: a if a >= b else b)


@_op("arith.addui_extended")
def _addui_extended(m, op, vals):
    w = m.width(op.results[0].type)
    if _any_poison(vals):
        return [POISON, POISON]
    s = vals[0] + vals[1]
    return [s & mask(w), s >> w]


@_op("arith.mului_extended")
def _mului_extended(m, op, vals):
    w = m.width(op.results[0].type)
    if _any_poison(vals):
        return [POISON, POISON]
    p = vals[0] * vals[1]
    return [p & mask(w), (p >> w) & mask(w)]


@_op("arith.mulsi_extended")
def _mulsi_extended(m, op, vals):
    w = m.width(op.results[0].type)
    if _any_poison(vals):
        return [POISON, POISON]
    p = sview(vals[0], w) * sview(vals[1], w)
    return [p & mask(w), (p >> w) & mask(w)]


# ---- comparisons and select --------------------------------------------------------------
@_op("arith.cmpi")
def _cmpi(m, op, vals):
    if _any_poison(vals):
        return [POISON]
    w = m.width(op.operands[0].type)
    a, b = vals
    pred = _CMPI.get(int(_prop(op, "predicate").value.data))
    if pred is None:
        raise Unsupported("cmpi predicate")
    if pred[0] == "s":
        a, b = sview(a, w), sview(b, w)
    rel = pred if pred in ("eq", "ne") else pred[1:]
    r = {"eq": a == b, "ne": a != b, "lt": a < b, "le": a <= b, "gt": a > b, "ge": a >= b}[rel]
    return [1 if r else 0]


@_op("arith.cmpf")
def _cmpf(m, op, vals):
    if _any_poison(vals):
        return [POISON]
    fmt = float_format(op.operands[0].type)
    if fmt is None:
        raise Unsupported(f"cmpf on {op.operands[0].type}")
    fl = _flags(op, "fastmath")
    if "nnan" in fl and (is_nan(fmt, vals[0]) or is_nan(fmt, vals[1])):
        return [POISON]
    if "ninf" in fl and (is_inf(fmt, vals[0]) or is_inf(fmt, vals[1])):
        return [POISON]
    p = _CMPF.get(int(_prop(op, "predicate").value.data))
    if p is None:
        raise Unsupported("cmpf predicate")
    pname, kind, rels = p
    if pname == "false":
        return [0]
    if pname == "true":
        return [1]
    rel = _fcmp(fmt, vals[0], vals[1])
    if rel == "un":
        return [1 if kind == "u" else 0]
    return [1 if rel in rels else 0]


@_op("arith.select")
def _select(m, op, vals):
    c, a, b = vals
    if c is POISON:
        return [POISON]
    if int_width(op.operands[0].type, m.index_width) != 1:
        raise Unsupported("select with a non-i1 condition")
    return [a if c & 1 else b]


# ---- integer casts -----------------------------------------------------------------------
def _cast_widths(m: Machine, op: Any) -> tuple[int, int]:
    return m.width(op.operands[0].type), m.width(op.results[0].type)


@_op("arith.extsi")
def _extsi(m, op, vals):
    wi, wo = _cast_widths(m, op)
    return [POISON] if vals[0] is POISON else [sview(vals[0], wi) & mask(wo)]


@_op("arith.extui")
def _extui(m, op, vals):
    wi, wo = _cast_widths(m, op)
    return [POISON] if vals[0] is POISON else [vals[0] & mask(wo)]


@_op("arith.trunci")
def _trunci(m, op, vals):
    wi, wo = _cast_widths(m, op)
    if vals[0] is POISON:
        return [POISON]
    fl = _flags(op, "overflowFlags")
    r = vals[0] & mask(wo)
    if "nsw" in fl and sview(r, wo) != sview(vals[0], wi):
        return [POISON]
    if "nuw" in fl and r != vals[0]:
        return [POISON]
    return [r]


@_op("arith.index_cast")
def _index_cast(m, op, vals):
    wi, wo = _cast_widths(m, op)
    return [POISON] if vals[0] is POISON else [sview(vals[0], wi) & mask(wo)]


@_op("arith.index_castui")
def _index_castui(m, op, vals):
    wi, wo = _cast_widths(m, op)
    return [POISON] if vals[0] is POISON else [vals[0] & mask(wo)]


# ---- float arithmetic ----------------------------------------------------------------------
def _fm_guard(op: Any, fmt: FloatFormat, xs: Sequence[int]) -> bool:
    """True iff a nnan / ninf fast-math flag is violated by one of the patterns xs"""
    fl = _flags(op, "fastmath")
    if "nnan" in fl and any(is_nan(fmt, x) for x in xs):
        return True
    if "ninf" in fl and any(is_inf(fmt, x) for x in xs):
        return True
    return False


def _float_binary(kind: str):
    def run(m: Machine, op: Any, vals: list) -> list:
        fmt = float_format(op.results[0].type)
        if fmt is None:
            raise Unsupported(f"{op.name} on {op.results[0].type}")
        if _any_poison(vals):
            return [POISON]
        a, b = vals
        if kind in ("add", "sub", "mul", "div"):
            r = _farith(kind, fmt, a, b)
        else:
            r = _fminmax(m, kind, fmt, a, b)
        if _fm_guard(op, fmt, (a, b, r)):
            return [POISON]
        return [r]
    return run


def _fminmax(m: Machine, kind: str, fmt: FloatFormat, a: int, b: int) -> int:
    na, nb = is_nan(fmt, a), is_nan(fmt, b)
    if kind in ("minimum", "maximum"):
        if na or nb:
            return fmt.qnan
    else:  # minnum / maxnum: a NaN operand is ignored
        if na and nb:
            return fmt.qnan
        if na:
            return b
        if nb:
            return a
    want_min = kind in ("minimum", "minnum")
    if is_zero(fmt, a) and is_zero(fmt, b):
        if a != b and kind in ("minnum", "maxnum"):
            m.ambiguous = m.ambiguous or f"arith.{kind}f on zeros of different sign"
        neg = (a | b) & fmt.sign_bit if want_min else (a & b) & fmt.sign_bit
        return neg
    rel = _fcmp(fmt, a, b)
    if want_min:
        return a if rel in ("lt", "eq") else b
    return a if rel in ("gt", "eq") else b


for _n, _k in (("addf", "add"), ("subf", "sub"), ("mulf", "mul"), ("divf", "div"), ("minimumf", "minimum"),
               ("maximumf", "maximum"), ("minnumf", "minnum"), ("maxnumf", "maxnum")):
    _DISPATCH["arith." + _n] = _float_binary(_k)


@_op("arith.negf")
def _negf(m, op, vals):
    fmt = float_format(op.results[0].type)
    if fmt is None:
        raise Unsupported(f"negf on {op.results[0].type}")
    if vals[0] is POISON:
        return [POISON]
    r = vals[0] ^ fmt.sign_bit
    return [POISON] if _fm_guard(op, fmt, (vals[0],)) else [r]


# ---- float casts -----------------------------------------------------------------------------
@_op("arith.sitofp", "arith.uitofp")
def _itofp(m, op, vals):
    wi = m.width(op.operands[0].type)
    fmt = float_format(op.results[0].type)
    if fmt is None:
        raise Unsupported(f"{op.name} to {op.results[0].type}")
    if vals[0] is POISON:
        return [POISON]
    x = sview(vals[0], wi) if op.name == "arith.sitofp" else vals[0]
    return [round_exact(fmt, x)]


@_op("arith.fptosi", "arith.fptoui")
def _fptoi(m, op, vals):
    fmt = float_format(op.operands[0].type)
    wo = m.width(op.results[0].type)
    if fmt is None:
        raise Unsupported(f"{op.name} from {op.operands[0].type}")
    v = vals[0]
    if v is POISON or is_nan(fmt, v) or is_inf(fmt, v):
        return [POISON]
    q = Fraction(bits_to_float(fmt, v))
    t = _trunc_div(q.numerator, q.denominator)
    lo, hi = (_smin(wo), _smax(wo)) if op.name == "arith.fptosi" else (0, mask(wo))
    if not lo <= t <= hi:
        return [POISON]
    return [t & mask(wo)]


@_op("arith.extf", "arith.truncf")
def _fpcast(m, op, vals):
    fi, fo = float_format(op.operands[0].type), float_format(op.results[0].type)
    if fi is None or fo is None:
        raise Unsupported(f"{op.name} {op.operands[0].type} -> {op.results[0].type}")
    v = vals[0]
    if v is POISON:
        return [POISON]
    if is_nan(fi, v):
        return [fo.qnan | (fo.sign_bit if v & fi.sign_bit else 0)]
    r = float_to_bits(fo, bits_to_float(fi, v))
    return [POISON] if _fm_guard(op, fo, (r,)) else [r]


@_op("arith.bitcast")
def _bitcast(m, op, vals):
    ti, to = op.operands[0].type, op.results[0].type
    wi = int_width(ti, m.index_width) or getattr(float_format(ti), "width", None)
    wo = int_width(to, m.index_width) or getattr(float_format(to), "width", None)
    if wi is None or wo is None or wi != wo:
        raise Unsupported(f"bitcast {ti} -> {to}")
    return [vals[0]]


# ---- func ----------------------------------------------------------------------------------
@_op("func.call")
def _call(m: Machine, op: Any, vals: list) -> list:
    callee = _prop(op, "callee")
    name = callee.root_reference.data if hasattr(callee, "root_reference") else callee.data
    if getattr(callee, "nested_references", None) is not None and len(callee.nested_references.data):
        raise Unsupported("nested symbol reference")
    fn = m.find_symbol(op, name)
    if fn.name != "func.func":
        raise Unsupported(f"call to {fn.name}")
    return m.call(fn, vals)


# ---- cf.assert ---------------------------------------------------------------------------------
@_op("cf.assert")
def _assert(m, op, vals):
    if vals[0] is POISON or not (vals[0] & 1):
        raise _UB("cf.assert failed")
    return []


# ---- scf -------------------------------------------------------------------------------------
def _expect(term: str, allowed: tuple, op: Any) -> None:
    if term not in allowed:
        raise Unsupported(f"region of {op.name} left through {term}")


@_op("scf.if")
def _scf_if(m, op, vals):
    c = vals[0]
    if c is POISON:
        raise _UB("scf.if on poison")
    region = op.regions[0] if c & 1 else op.regions[1]
    term, out, _ = m.run_region(region, [])
    _expect(term, ("scf.yield", "<empty>", "<fallthrough>"), op)
    if len(out) != len(op.results):
        raise RefsemError("scf.if region yields the wrong number of values")
    return out


@_op("scf.execute_region")
def _scf_execute_region(m, op, vals):
    term, out, _ = m.run_region(op.regions[0], [])
    _expect(term, ("scf.yield",), op)
    return out


@_op("scf.for")
def _scf_for(m, op, vals):
    lb, ub, step = vals[0], vals[1], vals[2]
    carried = list(vals[3:])
    if lb is POISON or ub is POISON or step is POISON:
        raise _UB("scf.for bound is poison")
    w = m.width(op.operands[0].type)
    unsigned = _prop(op, "unsignedCmp") is not None
    view = (lambda x: x) if unsigned else (lambda x: sview(x, w))
    top = mask(w) if unsigned else _smax(w)
    lo, hi, st = view(lb), view(ub), view(step)
    if st <= 0:
        raise _UB("scf.for step is not positive")
    i = lo
    while i < hi:
        term, out, _ = m.run_region(op.regions[0], [i & mask(w)] + carried)
        _expect(term, ("scf.yield", "<fallthrough>"), op)
        if len(out) != len(carried):
            raise RefsemError("scf.for body yields the wrong number of values")
        carried = out
        i += st
        if i > top:  # the incremented induction variable does not fit the type (a wrapping lowering differs)
            m.ambiguous = m.ambiguous or "scf.for induction variable overflows its type"
    return carried


@_op("scf.while")
def _scf_while(m, op, vals):
    cur = list(vals)
    while True:
        term, out, _ = m.run_region(op.regions[0], cur)
        _expect(term, ("scf.condition",), op)
        c, rest = out[0], out[1:]
        if c is POISON:
            raise _UB("scf.condition on poison")
        if not c & 1:
            return rest
        term, out, _ = m.run_region(op.regions[1], rest)
        _expect(term, ("scf.yield",), op)
        cur = out


@_op("scf.index_switch")
def _scf_index_switch(m, op, vals):
    v = vals[0]
    if v is POISON:
        raise _UB("scf.index_switch on poison")
    w = m.width(op.operands[0].type)
    cases = [int(x) for x in _prop(op, "cases").get_values()]
    region = op.regions[0]  # default region first, then one region per case
    for i, cv in enumerate(cases):
        if sview(v, w) == cv:
            region = op.regions[1 + i]
            break
    term, out, _ = m.run_region(region, [])
    _expect(term, ("scf.yield", "<fallthrough>"), op)
    return out


# ---- memref ------------------------------------------------------------------------------------
def _index_values(m: Machine, vals: Sequence) -> list[int]:
    out = []
    for v in vals:
        if v is POISON:
            raise _UB("memory access with a poison index")
        out.append(sview(v, m.index_width))
    return out


def _load(m: Machine, buf: Any, idx: list[int]) -> Any:
    if not isinstance(buf, Buffer):
        raise _UB("load from a poison memref")
    off = buf.offset(idx)
    if off is None:
        raise _UB(f"out-of-bounds load {idx} from shape {buf.shape}")
    v = buf.data[off]
    return POISON if v is None else v


def _store(m: Machine, buf: Any, idx: list[int], v: Any, t: Any) -> None:
    if not isinstance(buf, Buffer):
        raise _UB("store to a poison memref")
    off = buf.offset(idx)
    if off is None:
        raise _UB(f"out-of-bounds store {idx} to shape {buf.shape}")
    buf.data[off] = v
    m.log.append(("store", buf.ident, tuple(idx), m.pub(t, v)))


@_op("memref.alloc", "memref.alloca")
def _alloc(m, op, vals):
    t = op.results[0].type
    shape = list(t.get_shape())
    dyn = _index_values(m, vals[:shape.count(-1)])
    for i, s in enumerate(shape):
        if s == -1:
            shape[i] = dyn.pop(0)
            if shape[i] < 0:
                raise _UB("negative dynamic size")
    m._allocs += 1
    return [Buffer(f"alloc{m._allocs}", shape, type_str(t.element_type))]


@_op("memref.dealloc")
def _dealloc(m, op, vals):
    return []


@_op("memref.load")
def _memref_load(m, op, vals):
    return [_load(m, vals[0], _index_values(m, vals[1:]))]


@_op("memref.store")
def _memref_store(m, op, vals):
    _store(m, vals[1], _index_values(m, vals[2:]), vals[0], op.operands[0].type)
    return []


# ---- affine ------------------------------------------------------------------------------------
def _affine_expr(e: Any, dims: list[int], syms: list[int]) -> int:
    """evaluate an AffineExpr tree on mathematical integers (own walk of the expression nodes)"""
    cls = type(e).__name__
    if cls == "AffineConstantExpr":
        return e.value
    if cls == "AffineDimExpr":
        return dims[e.position]
    if cls == "AffineSymExpr":
        return syms[e.position]
    if cls == "AffineBinaryOpExpr":
        a = _affine_expr(e.lhs, dims, syms)
        b = _affine_expr(e.rhs, dims, syms)
        k = e.kind.name
        if k == "Add":
            return a + b
        if k == "Mul":
            return a * b
        if b <= 0:
            raise _UB(f"affine {k} by a non-positive value")
        if k == "Mod":
            return a - _floor_div(a, b) * b
        if k == "FloorDiv":
            return _floor_div(a, b)
        if k == "CeilDiv":
            return _ceil_div(a, b)
    raise Unsupported(f"affine expression {e!r}")


def _affine_map(m: Machine, map_attr: Any, vals: Sequence) -> list[int]:
    amap = map_attr.data
    ops = _index_values(m, vals)
    if len(ops) != amap.num_dims + amap.num_symbols:
        raise RefsemError("affine map operand count mismatch")
    dims, syms = ops[:amap.num_dims], ops[amap.num_dims:]
    return [_affine_expr(e, dims, syms) for e in amap.results]


@_op("affine.apply")
def _affine_apply(m, op, vals):
    (r,) = _affine_map(m, _prop(op, "map"), vals)
    return [r & mask(m.index_width)]


@_op("affine.min", "affine.max")
def _affine_minmax(m, op, vals):
    rs = _affine_map(m, _prop(op, "map"), vals)
    return [(min(rs) if op.name == "affine.min" else max(rs)) & mask(m.index_width)]


@_op("affine.load")
def _affine_load(m, op, vals):
    return [_load(m, vals[0], _affine_map(m, _prop(op, "map"), vals[1:]))]


@_op("affine.store")
def _affine_store(m, op, vals):
    _store(m, vals[1], _affine_map(m, _prop(op, "map"), vals[2:]), vals[0], op.operands[0].type)
    return []


@_op("affine.for")
def _affine_for(m, op, vals):
    n_lb, n_ub, _n_init = m._segments(op)
    lbs = _affine_map(m, _prop(op, "lowerBoundMap"), vals[:n_lb])
    ubs = _affine_map(m, _prop(op, "upperBoundMap"), vals[n_lb:n_lb + n_ub])
    carried = list(vals[n_lb + n_ub:])
    step = int(_prop(op, "step").value.data)
    if step <= 0:
        raise _UB("affine.for step is not positive")
    i, hi = max(lbs), min(ubs)
    while i < hi:
        term, out, _ = m.run_region(op.regions[0], [i & mask(m.index_width)] + carried)
        _expect(term, ("affine.yield", "<fallthrough>"), op)
        if len(out) != len(carried):
            raise RefsemError("affine.for body yields the wrong number of values")
        carried = out
        i += step
    return carried


# ======================================================================================
# entry points
# ======================================================================================
def _find_func(root: Any, name: str | None) -> Any:
    if root.name == "func.func":
        return root
    found = []
    for region in root.regions:
        for block in region.blocks:
            for o in block.ops:
                if o.name == "func.func":
                    if name is None or o.properties["sym_name"].data == name:
                        r = o.regions[0]
                        if name is not None or (r.blocks and r.blocks.first.first_op is not None):
                            found.append(o)
    if not found:
        raise RefsemError(f"no function {name or '<with a body>'} in module")
    if name is None:
        for o in found:
            if o.properties["sym_name"].data == "main":
                return o
    return found[0]


def execute(root: Any, args: Sequence, name: str | None = None, **kw: Any) -> Outcome:
    """run function `name` (default: @main, else the first function with a body) of a module, or a
    func.func given directly; kw are Machine options"""
    fn = _find_func(root, name)
    m = Machine(module=root if root is not fn else None, **kw)
    out = Outcome()
    in_types = list(fn.properties["function_type"].inputs.data)
    out_types = list(fn.properties["function_type"].outputs.data)
    if len(args) != len(in_types):
        raise RefsemError(f"{len(in_types)} arguments expected, {len(args)} given")
    vals = [m.coerce(t, a) for t, a in zip(in_types, args)]
    bufs = []
    for i, v in enumerate(vals):
        if isinstance(v, Buffer):
            if v.ident is None:
                v.ident = f"arg{i}"
            bufs.append((i, v))
    try:
        res = m.call(fn, vals)
        out.poison = _any_poison(res)
        out.results = POISON if out.poison else tuple(m.pub(t, v) for t, v in zip(out_types, res))
    except _UB as e:
        out.ub = str(e) or "undefined behaviour"
        out.results = POISON
    out.log = m.log
    out.ambiguous = m.ambiguous
    out.steps = m.steps
    out.memory = [(i, list(b.data)) for i, b in bufs]
    return out


def run_func(root: Any, args: Sequence, name: str | None = None, **kw: Any) -> tuple[Any, list]:
    """-> (results | POISON, effect_log); POISON also covers immediate UB and ambiguous runs"""
    o = execute(root, args, name, **kw)
    if not o.defined:
        return POISON, o.log
    return o.results, o.log


# ======================================================================================
# self test:  python -m mc.refsem
# ======================================================================================
_SELFTEST_IR = """
builtin.module {
  func.func private @ext(i8) -> i8
  func.func @sum(%n: index) -> index {
    %c0 = arith.constant 0 : index
    %c1 = arith.constant 1 : index
    %r = scf.for %i = %c0 to %n step %c1 iter_args(%acc = %c0) -> (index) {
      %a = arith.addi %acc, %i : index
      scf.yield %a : index
    }
    func.return %r : index
  }
  func.func @countdown(%n: i8) -> (i8, i8) {
    %c0 = arith.constant 0 : i8
    %c1 = arith.constant 1 : i8
    %r:2 = scf.while (%x = %n, %k = %c0) : (i8, i8) -> (i8, i8) {
      %c = arith.cmpi sgt, %x, %c0 : i8
      scf.condition(%c) %x, %k : i8, i8
    } do {
    ^bb0(%y: i8, %j: i8):
      %d = arith.subi %y, %c1 : i8
      %j1 = arith.addi %j, %c1 : i8
      scf.yield %d, %j1 : i8, i8
    }
    func.return %r#0, %r#1 : i8, i8
  }
  func.func @diamond(%c: i1, %a: i8, %b: i8) -> i8 {
    cf.cond_br %c, ^t(%a : i8), ^e(%b, %a : i8, i8)
  ^t(%x: i8):
    %x2 = arith.addi %x, %x : i8
    cf.br ^m(%x2 : i8)
  ^e(%y: i8, %z: i8):
    %y2 = arith.subi %y, %z : i8
    cf.br ^m(%y2 : i8)
  ^m(%r: i8):
    func.return %r : i8
  }
  func.func @sw(%a: i8) -> i8 {
    %c7 = arith.constant 7 : i8
    cf.switch %a : i8, [
      default: ^d(%a : i8),
      -1: ^d(%c7 : i8),
      3: ^x
    ]
  ^d(%r: i8):
    func.return %r : i8
  ^x:
    %c9 = arith.constant 9 : i8
    func.return %c9 : i8
  }
  func.func @isw(%i: index) -> i8 {
    %r = scf.index_switch %i -> i8
    case 2 {
      %a = arith.constant 20 : i8
      scf.yield %a : i8
    }
    case 5 {
      %b = arith.constant 50 : i8
      scf.yield %b : i8
    }
    default {
      %c = arith.constant 99 : i8
      scf.yield %c : i8
    }
    func.return %r : i8
  }
  func.func @calls(%a: i8) -> i8 {
    %x = func.call @ext(%a) : (i8) -> i8
    %y = func.call @twice(%x) : (i8) -> i8
    %z = func.call @ext(%y) : (i8) -> i8
    func.return %y : i8
  }
  func.func @twice(%a: i8) -> i8 {
    %r = arith.addi %a, %a : i8
    func.return %r : i8
  }
  func.func @mem(%m: memref<4xi8>, %v: i8) -> i8 {
    %c0 = arith.constant 0 : index
    %c1 = arith.constant 1 : index
    %c4 = arith.constant 4 : index
    scf.for %i = %c0 to %c4 step %c1 {
      %o = memref.load %m[%i] : memref<4xi8>
      %n = arith.addi %o, %v : i8
      memref.store %n, %m[%i] : memref<4xi8>
    }
    %t = memref.alloc() : memref<2xi8>
    memref.store %v, %t[%c1] : memref<2xi8>
    %a = affine.apply affine_map<(d0)[s0] -> (d0 * 2 + s0 floordiv 3)> (%c1)[%c4]
    %r = memref.load %m[%a] : memref<4xi8>
    func.return %r : i8
  }
  func.func @oob(%m: memref<4xi8>, %i: index) -> i8 {
    %r = memref.load %m[%i] : memref<4xi8>
    func.return %r : i8
  }
  func.func @deadshift(%a: i8, %s: i8) -> i8 {
    %p = arith.shli %a, %s : i8
    func.return %a : i8
  }
  func.func @deaddiv(%a: i8, %s: i8) -> i8 {
    %p = arith.divsi %a, %s : i8
    func.return %a : i8
  }
  func.func @opaque(%a: i8) -> i8 {
    %r = "test.op"(%a) : (i8) -> i8
    func.return %r : i8
  }
}
"""


def _selftest() -> int:
    from xdsl.context import Context
    from xdsl.dialects import affine, arith, builtin, cf, func, memref, scf, test
    from xdsl.dialects.builtin import (BFloat16Type, Float16Type, Float32Type, Float64Type, IndexType, IntegerAttr,
                                       IntegerType, i1)
    from xdsl.parser import Parser

    n = [0]

    def check(got, want, what):
        n[0] += 1
        if got != want:
            raise AssertionError(f"refsem self test: {what}: got {got!r}, expected {want!r}")

    def operands(*types):
        return test.TestOp(result_types=list(types)).results

    def ev(cls, types, vals, res_type=None, **kw):
        ops = operands(*types)
        op = cls(*ops, **kw) if res_type is None else cls(*ops, res_type, **kw)
        m = Machine()
        try:
            r = m.eval_op(op, list(vals))
        except _UB:
            return "UB"
        return r[0] if len(r) == 1 else r

    i3, i8, i64, idx = IntegerType(3), IntegerType(8), IntegerType(64), IndexType()
    f16, bf16, f32, f64 = Float16Type(), BFloat16Type(), Float32Type(), Float64Type()

    # ---- helpers
    check(sview(0b101, 3), -3, "sview")
    check(sview(0b011, 3), 3, "sview")
    check([_trunc_div(-7, 2), _floor_div(-7, 2), _ceil_div(-7, 2), _ceil_div(7, 2), _floor_div(7, -2)], [-3, -4, -3, 4, -4], "div")
    # ---- i3 arithmetic (hand computed; patterns 0..7, signed view -4..3)
    check(ev(arith.AddiOp, (i3, i3), (3, 1)), 4, "3+1 wraps to 100")
    check(ev(arith.AddiOp, (i3, i3), (7, 7)), 6, "-1 + -1 = -2 = 110")
    check(ev(arith.SubiOp, (i3, i3), (0, 1)), 7, "0-1 = 111")
    check(ev(arith.MuliOp, (i3, i3), (3, 3)), 1, "3*3=9 mod 8")
    check(ev(arith.MuliOp, (i3, i3), (4, 7)), 4, "-4*-1 = 4 = 100")
    check(ev(arith.ShLIOp, (i3, i3), (3, 2)), 4, "011<<2 = 100")
    check(ev(arith.ShLIOp, (i3, i3), (3, 3)), POISON, "shift by the width is poison")
    check(ev(arith.ShLIOp, (i3, i3), (3, 7)), POISON, "shift amount is unsigned: 7 >= 3")
    check(ev(arith.ShRSIOp, (i3, i3), (0b110, 1)), 0b111, "arithmetic shift")
    check(ev(arith.ShRUIOp, (i3, i3), (0b110, 1)), 0b011, "logical shift")
    check(ev(arith.ShRSIOp, (i3, i3), (0b100, 2)), 0b111, "-4 >>s 2 = -1")
    check(ev(arith.DivSIOp, (i3, i3), (0b101, 2)), 0b111, "-3 / 2 = -1 (toward zero)")
    check(ev(arith.DivSIOp, (i3, i3), (0b100, 0b111)), "UB", "INT_MIN / -1")
    check(ev(arith.DivSIOp, (i3, i3), (1, 0)), "UB", "x / 0")
    check(ev(arith.DivUIOp, (i3, i3), (0b101, 2)), 2, "5 /u 2")
    check(ev(arith.RemSIOp, (i3, i3), (0b101, 2)), 0b111, "-3 rem 2 = -1")
    check(ev(arith.RemSIOp, (i3, i3), (3, 0b110)), 1, "3 rem -2 = 1")
    check(ev(arith.RemUIOp, (i3, i3), (0b101, 2)), 1, "5 remu 2")
    check(ev(arith.FloorDivSIOp, (i3, i3), (0b101, 2)), 0b110, "floor(-3/2) = -2")
    check(ev(arith.CeilDivSIOp, (i3, i3), (0b101, 2)), 0b111, "ceil(-3/2) = -1")
    check(ev(arith.CeilDivSIOp, (i3, i3), (3, 2)), 2, "ceil(3/2) = 2")
    check(ev(arith.CeilDivUIOp, (i3, i3), (0b101, 2)), 3, "ceil(5/2) = 3")
    check(ev(arith.CeilDivUIOp, (i3, i3), (0b101, 0)), "UB", "ceildivui by zero")
    check(ev(arith.MinSIOp, (i3, i3), (0b101, 2)), 0b101, "minsi(-3,2)")
    check(ev(arith.MinUIOp, (i3, i3), (0b101, 2)), 2, "minui(5,2)")
    check(ev(arith.MaxSIOp, (i3, i3), (0b101, 2)), 2, "maxsi(-3,2)")
    check(ev(arith.MaxUIOp, (i3, i3), (0b101, 2)), 0b101, "maxui(5,2)")
    check(ev(arith.AndIOp, (i3, i3), (0b101, 0b110)), 0b100, "and")
    check(ev(arith.OrIOp, (i3, i3), (0b101, 0b110)), 0b111, "or")
    check(ev(arith.XOrIOp, (i3, i3), (0b101, 0b110)), 0b011, "xor")
    check(ev(arith.AddiOp, (i3, i3), (POISON, 1)), POISON, "poison propagates")
    check(ev(arith.AddUIExtendedOp, (i3, i3), (5, 6)), [3, 1], "5+6 = 11 = 1|011")
    check(ev(arith.MulSIExtendedOp, (i3, i3), (0b101, 3)), [0b111, 0b110], "-3*3 = -9 = 110|111")
    check(ev(arith.MulUIExtendedOp, (i3, i3), (0b101, 3)), [0b111, 0b001], "5*3 = 15 = 001|111")
    nsw = arith.IntegerOverflowAttr([arith.IntegerOverflowFlag.NSW])
    nuw = arith.IntegerOverflowAttr([arith.IntegerOverflowFlag.NUW])
    check(ev(arith.AddiOp, (i3, i3), (3, 1), overflow=nsw), POISON, "3+1 nsw overflows")
    check(ev(arith.AddiOp, (i3, i3), (3, 1), overflow=nuw), 4, "3+1 nuw fine")
    check(ev(arith.AddiOp, (i3, i3), (7, 1), overflow=nuw), POISON, "7+1 nuw overflows")
    check(ev(arith.AddiOp, (i3, i3), (7, 1), overflow=nsw), 0, "-1+1 nsw fine")
    # ---- cmpi: unsigned predicates on negative bit patterns
    preds = {v: k for k, v in _CMPI.items()}
    for pred, a, b, want in (("ult", 0b111, 1, 0), ("slt", 0b111, 1, 1), ("ugt", 0b100, 3, 1), ("sgt", 0b100, 3, 0),
                             ("ule", 0b111, 0b111, 1), ("uge", 0, 0b100, 0), ("sge", 0, 0b100, 1), ("eq", 5, 5, 1),
                             ("ne", 5, 5, 0), ("sle", 0b100, 0b100, 1)):
        check(ev(arith.CmpiOp, (i3, i3), (a, b), preds[pred]), want, f"cmpi {pred} {a} {b}")
    check(ev(arith.CmpiOp, (i64, i64), (mask(64), 0), preds["ult"]), 0, "cmpi ult i64 -1, 0")
    check(ev(arith.SelectOp, (i1, i3, i3), (1, 2, 5)), 2, "select true")
    check(ev(arith.SelectOp, (i1, i3, i3), (0, 2, POISON)), POISON, "select chosen poison arm")
    check(ev(arith.SelectOp, (i1, i3, i3), (1, 2, POISON)), 2, "select ignores the other arm")
    # ---- casts
    check(ev(arith.ExtSIOp, (i3,), (0b101,), i8), 0b11111101, "extsi")
    check(ev(arith.ExtUIOp, (i3,), (0b101,), i8), 0b00000101, "extui")
    check(ev(arith.TruncIOp, (i8,), (0b11111101,), i3), 0b101, "trunci")
    check(ev(arith.IndexCastOp, (i3,), (0b101,), idx), mask(64) - 2, "index_cast sign extends")
    check(ev(arith.IndexCastOp, (idx,), (mask(64) - 2,), i3), 0b101, "index_cast truncates")
    check(ev(arith.SIToFPOp, (i3,), (0b101,), f32), 0xC0400000, "sitofp -3")
    check(ev(arith.UIToFPOp, (i3,), (0b101,), f32), 0x40A00000, "uitofp 5")
    check(ev(arith.SIToFPOp, (i64,), ((1 << 24) + 1,), f32), 0x4B800000, "16777217 -> 2^24 (tie to even)")
    check(ev(arith.SIToFPOp, (i64,), ((1 << 24) + 3,), f32), 0x4B800002, "16777219 -> 16777220")
    check(ev(arith.UIToFPOp, (i64,), (mask(64),), f32), 0x5F800000, "2^64-1 -> 2^64")
    check(ev(arith.FPToSIOp, (f32,), (0xC0700000,), i3), 0b101, "fptosi -3.75 -> -3")
    check(ev(arith.FPToSIOp, (f32,), (0x40800000,), i3), POISON, "fptosi 4.0 does not fit i3")
    check(ev(arith.FPToUIOp, (f32,), (0x40E00000,), i3), 7, "fptoui 7.0")
    check(ev(arith.FPToUIOp, (f32,), (0xBF000000,), i3), 0, "fptoui -0.5 -> 0")
    check(ev(arith.FPToUIOp, (f32,), (0xBF800000,), i3), POISON, "fptoui -1.0")
    check(ev(arith.FPToSIOp, (f32,), (0x7FC00000,), i3), POISON, "fptosi NaN")
    check(ev(arith.ExtFOp, (f32,), (0x3DCCCCCD,), f64), 0x3FB99999A0000000, "extf 0.1f")
    check(ev(arith.TruncFOp, (f64,), (0x3FB999999999999A,), f32), 0x3DCCCCCD, "truncf 0.1")
    check(ev(arith.TruncFOp, (f64,), (0x47EFFFFFF0000000,), f32), 0x7F800000, "truncf max+half ulp -> inf")
    check(ev(arith.TruncFOp, (f64,), (0x47EFFFFFEFFFFFFF,), f32), 0x7F7FFFFF, "truncf just below -> max")
    check(ev(arith.BitcastOp, (f32,), (0x7FC00001,), IntegerType(32)), 0x7FC00001, "bitcast keeps payload")
    # ---- f32 arithmetic
    one, two24 = 0x3F800000, 0x4B800000
    check(ev(arith.AddfOp, (f32, f32), (two24, one)), two24, "16777216 + 1 rounds to even")
    check(ev(arith.AddfOp, (f32, f32), (two24 + 1, one)), two24 + 2, "16777218 + 1 -> 16777220")
    check(ev(arith.AddfOp, (f32, f32), (0x3DCCCCCD, 0x3E4CCCCD)), 0x3E99999A, "0.1f + 0.2f")
    check(ev(arith.AddfOp, (f64, f64), (0x3FB999999999999A, 0x3FC999999999999A)), 0x3FD3333333333334, "0.1 + 0.2")
    check(ev(arith.AddfOp, (f32, f32), (0x7F7FFFFF, 0x7F7FFFFF)), 0x7F800000, "max + max = inf")
    check(ev(arith.AddfOp, (f32, f32), (0x80000000, 0x80000000)), 0x80000000, "-0 + -0 = -0")
    check(ev(arith.AddfOp, (f32, f32), (0x80000000, 0)), 0, "-0 + +0 = +0")
    check(ev(arith.SubfOp, (f32, f32), (one, one)), 0, "1 - 1 = +0")
    check(ev(arith.SubfOp, (f32, f32), (0x7F800000, 0x7F800000)), 0x7FC00000, "inf - inf = NaN")
    check(ev(arith.MulfOp, (f32, f32), (0x7F800000, 0)), 0x7FC00000, "inf * 0 = NaN")
    check(ev(arith.MulfOp, (f32, f32), (0x80000000, one)), 0x80000000, "-0 * 1 = -0")
    check(ev(arith.MulfOp, (f32, f32), (1, 0x3F000000)), 0, "min subnormal * 0.5 -> 0 (tie to even)")
    check(ev(arith.MulfOp, (f32, f32), (3, 0x3F000000)), 2, "3*minsub*0.5 = 1.5 -> 2 (tie to even)")
    check(ev(arith.MulfOp, (f32, f32), (0x3F800001, 0x3F800001)), 0x3F800002, "(1+ulp)^2")
    check(ev(arith.DivfOp, (f32, f32), (one, 0x80000000)), 0xFF800000, "1 / -0 = -inf")
    check(ev(arith.DivfOp, (f32, f32), (0, 0)), 0x7FC00000, "0 / 0")
    check(ev(arith.DivfOp, (f32, f32), (0x7FC00000, 0)), 0x7FC00000, "NaN / 0")
    check(ev(arith.DivfOp, (f32, f32), (one, 0x40400000)), 0x3EAAAAAB, "1/3")
    check(ev(arith.NegfOp, (f32,), (0,)), 0x80000000, "negf +0")
    check(ev(arith.NegfOp, (f32,), (0x7FC00001,)), 0xFFC00001, "negf is a bit op")
    check(ev(arith.MinimumfOp, (f32, f32), (0, 0x80000000)), 0x80000000, "minimumf(+0,-0)")
    check(ev(arith.MaximumfOp, (f32, f32), (0, 0x80000000)), 0, "maximumf(+0,-0)")
    check(ev(arith.MinimumfOp, (f32, f32), (one, 0x7FC00000)), 0x7FC00000, "minimumf NaN")
    check(ev(arith.MinnumfOp, (f32, f32), (one, 0x7FC00000)), one, "minnumf ignores NaN")
    check(ev(arith.MaxnumfOp, (f32, f32), (0xFF800000, one)), one, "maxnumf(-inf,1)")
    check(ev(arith.AddfOp, (f16, f16), (0x6800, 0x3C00)), 0x6800, "f16 2048 + 1 -> 2048")
    check(ev(arith.AddfOp, (bf16, bf16), (0x4380, 0x3F80)), 0x4380, "bf16 256 + 1 -> 256")
    check(ev(arith.AddfOp, (bf16, bf16), (0x4381, 0x3F80)), 0x4382, "bf16 258 + 1 -> 260")
    nnan = arith.FastMathFlagsAttr([arith.FastMathFlag.NO_NANS])
    check(ev(arith.AddfOp, (f32, f32), (0x7FC00000, one), flags=nnan), POISON, "nnan on NaN")
    cf_ = {v: k for k, v in CMPF_PREDICATES.items()}
    nan = 0x7FC00000
    for pred, a, b, want in (("oeq", 0, 0x80000000, 1), ("olt", 0x80000000, 0, 0), ("ult", nan, one, 1), ("olt", nan, one, 0),
                             ("une", nan, nan, 1), ("one", nan, nan, 0), ("ord", one, one, 1), ("uno", one, nan, 1),
                             ("ueq", nan, one, 1), ("oge", one, one, 1), ("ogt", 0xBF800000, 0xFF800000, 1),
                             ("false", one, one, 0), ("true", nan, nan, 1), ("ole", 1, 0x80000001, 0)):
        check(ev(arith.CmpfOp, (f32, f32), (a, b), cf_[pred]), want, f"cmpf {pred}")
    # ---- constants
    check(Machine().eval_op(arith.ConstantOp(IntegerAttr(-1, i3)), []), [7], "constant -1 : i3")
    check(Machine().eval_op(arith.ConstantOp(IntegerAttr(1, i1)), []), [1], "constant true")
    check(Machine().eval_op(arith.ConstantOp(builtin.FloatAttr(0.1, f32)), []), [0x3DCCCCCD], "constant 0.1f")
    # ---- rounding cross checks: struct fast path == exact rational path, on a boundary set squared
    for fmt in (F16, BF16, F32, F64):
        pats = [0, 1, 2, 3, (1 << fmt.mbits) - 1, 1 << fmt.mbits, (1 << fmt.mbits) + 1, fmt.bias << fmt.mbits,
                (fmt.bias << fmt.mbits) + 1, (fmt.bias << fmt.mbits) - 1, (fmt.bias + fmt.mbits + 1) << fmt.mbits,
                ((fmt.bias + fmt.mbits + 1) << fmt.mbits) + 1, fmt.max_finite, fmt.max_finite - 1, fmt.inf, fmt.qnan,
                float_to_bits(fmt, 0.1), float_to_bits(fmt, 0.2), float_to_bits(fmt, 3.0), float_to_bits(fmt, 1e-3)]
        pats = pats + [p | fmt.sign_bit for p in pats]
        for p in pats:
            if not is_nan(fmt, p):
                check(float_to_bits(fmt, bits_to_float(fmt, p)), p, f"{fmt.name} round trip {p:#x}")
                if not is_inf(fmt, p):
                    check(round_exact(fmt, Fraction(bits_to_float(fmt, p)), bool(p & fmt.sign_bit)), p, f"{fmt.name} exact round trip")
        for a in pats:
            for b in pats:
                for k in ("add", "sub", "mul", "div"):
                    check(_farith(k, fmt, a, b), _farith_exact(k, fmt, a, b), f"{fmt.name} {k} {a:#x} {b:#x} fast vs exact")
    # halfway cases of double -> f32 (ties to even) and the overflow threshold
    check(float_to_bits(F32, 1.0 + 2.0 ** -24), 0x3F800000, "tie -> even (down)")
    check(float_to_bits(F32, 1.0 + 3 * 2.0 ** -24), 0x3F800002, "tie -> even (up)")
    check(float_to_bits(F32, 1.0 + 2.0 ** -24 + 2.0 ** -50), 0x3F800001, "just above tie")
    check(float_to_bits(BF16, 1.0 + 2.0 ** -8), 0x3F80, "bf16 tie -> even")
    check(float_to_bits(BF16, 1.0 + 3 * 2.0 ** -8), 0x3F82, "bf16 tie -> even up")
    check(float_to_bits(F32, 2.0 ** -150), 0, "half of min subnormal -> 0")
    check(float_to_bits(F32, 2.0 ** -150 * 1.0000001), 1, "just above -> min subnormal")
    check(float_to_bits(F32, -0.0), 0x80000000, "-0.0")
    check(float_to_bits(BF16, -0.0), 0x8000, "bf16 -0.0")
    # ---- programs
    ctx = Context()
    for d in (arith.Arith, scf.Scf, cf.Cf, func.Func, builtin.Builtin, memref.MemRef, affine.Affine, test.Test):
        ctx.load_dialect(d)
    mod = Parser(ctx, _SELFTEST_IR).parse_module()
    mod.verify()
    check(run_func(mod, [5], "sum"), ((("index", 10),), []), "sum 0..4")
    check(run_func(mod, [0], "sum"), ((("index", 0),), []), "zero-trip loop")
    check(run_func(mod, [-3], "sum"), ((("index", 0),), []), "negative bound: zero trips (signed compare)")
    check(run_func(mod, [3], "countdown"), ((("i8", 0), ("i8", 3)), []), "while countdown")
    check(run_func(mod, [0x80], "countdown"), ((("i8", 0x80), ("i8", 0)), []), "while: -128 > 0 is false")
    check(run_func(mod, [1, 100, 7], "diamond"), ((("i8", 200),), []), "diamond then")
    check(run_func(mod, [0, 100, 7], "diamond"), ((("i8", 163),), []), "diamond else: 7 - 100 = -93")
    check(run_func(mod, [255], "sw")[0], (("i8", 7),), "switch case -1")
    check(run_func(mod, [3], "sw")[0], (("i8", 9),), "switch case 3")
    check(run_func(mod, [4], "sw")[0], (("i8", 4),), "switch default")
    check([run_func(mod, [i], "isw")[0][0][1] for i in (2, 5, 0, -1)], [20, 50, 99, 99], "index_switch")
    r1, log1 = run_func(mod, [9], "calls")
    r2, log2 = run_func(mod, [9], "calls")
    check((r1, log1), (r2, log2), "external calls are deterministic")
    check([e[:2] for e in log1], [("call", "ext"), ("call", "ext")], "effect log order")
    check(log1[0][2], (("i8", 9),), "effect log arguments")
    check(log1[1][2], (("i8", r1[0][1]),), "second call sees the doubled value")
    check(run_func(mod, [10], "calls")[1] != log1, True, "log depends on the argument")
    o = execute(mod, [[1, 2, 3, 250], 10], "mem")
    check(o.memory, [(0, [11, 12, 13, 4])], "memref contents after the loop")
    check(o.results, (("i8", 4),), "affine.apply: 1*2 + 4 floordiv 3 = 3 -> m[3]")
    check([e[0] for e in o.log], ["store"] * 5, "stores are logged")
    check(o.log[0], ("store", "arg0", (0,), ("i8", 11)), "store entry")
    check(execute(mod, [[1, 2, 3, 4], 4], "oob").ub is not None, True, "out-of-bounds load is UB")
    check(run_func(mod, [[1, 2, 3, 4], 4], "oob")[0], POISON, "UB -> POISON")
    check(run_func(mod, [[1, 2, 3, 4], -1], "oob")[0], POISON, "negative index")
    check(run_func(mod, [5, 9], "deadshift")[0], (("i8", 5),), "unused poison is harmless")
    check(run_func(mod, [5, 0], "deaddiv")[0], POISON, "unused division by zero is still UB")
    r, log = run_func(mod, [5], "opaque")
    check(log, [("op", "test.op", (("i8", 5),))], "opaque op is logged")
    check(results_equal((("f32", 0x7FC00000),), (("f32", 0xFFC00123),)), True, "NaN == NaN")
    check(results_equal((("f32", 0),), (("f32", 0x80000000),)), False, "+0 != -0")
    check(results_equal((("i32", 0x7FC00000),), (("i32", 0xFFC00123),)), False, "ints are exact")
    traced = []
    Machine(trace=lambda op, a, r: traced.append((op.name, tuple(a), tuple(r)))).call(_find_func(mod, "twice"), [200])
    check(traced, [("arith.addi", (200, 200), (144,)), ("func.return", (144,), ())], "trace hook")
    try:
        Machine(fuel=50).call(_find_func(mod, "sum"), [1000])
        check("no exception", "OutOfFuel", "fuel")
    except OutOfFuel:
        n[0] += 1
    print(f"mc.refsem self test: {n[0]} checks passed")
    return 0


if __name__ == "__main__":
    raise SystemExit(_selftest())
