"""mc.rvmodel -- INDEPENDENT RV32 instruction-level model that executes ASSEMBLY TEXT.

Written from the RISC-V unprivileged ISA manual (RV32I, M, F, D, the Zbs/Zbb immediates xDSL can print) and
the RISC-V assembly programmer's manual (pseudo instructions).  It imports nothing from xDSL: the only input is
the text a RISC-V assembler would be given.

Text format
-----------
* one statement per line, `#` starts a comment, `name:` defines a label (a label may share its line with an
  instruction), directives (`.text`, `.globl f`, `.p2align 2`, ...) are ignored;
* `mnemonic op, op, ...`; memory operands are `imm(reg)`;
* EVERY operand is validated while parsing (also in unreachable code), exactly like an assembler would:
  - a register position holding anything but an integer / float register name (`x7`, `t0`, `fa1`, ...) raises
    `AsmError("not-a-register", ...)`  -- this is how an UNALLOCATED xDSL register (printed as the empty string
    or as `j_1` / `fj_1`) shows up;
  - immediates outside the encodable range (12-bit signed for I/S-type, 5-bit shift amounts, 20-bit for lui,
    [-2^31, 2^32) for `li`) raise `AsmError("immediate-out-of-range", ...)`;
  - a mnemonic that is not in the table raises `Unmodelled(mnemonic)` (a limit of this model, not a defect of
    the text).

Machine
-------
* x0..x31 are 32-bit patterns (Python ints in [0, 2^32)), x0 is hard wired to zero;
* f0..f31 are 64-bit patterns (RV32D register file); single precision values are NaN-boxed: a single
  precision read of a register whose upper 32 bits are not all ones yields the canonical NaN 0x7fc00000;
* arithmetic NaN results are the canonical quiet NaN; `frm` (dynamic rounding mode) is RNE after reset;
* memory is a sparse byte map; untouched bytes read as a deterministic function of their address, so that two
  runs from the same initial state see the same garbage;
* the pc counts instructions (address = 4 * index); `ret` / `jalr` to the SENTINEL address stops the run,
  a jump anywhere else than to an instruction raises `ExecError("jump-to-invalid-address")`.

API
---
    prog = parse(text)                    -> Program (instrs, labels);  raises AsmError / Unmodelled
    m = Machine(); m.x[10] = ...; m.run(prog, "f", max_steps=...)   -> number of executed instructions
    call(prog, entry, int_args, float_args, poison=...) -> Machine after `ret` (calling convention helper)
    XREG / FREG: name -> index;  CALLEE_SAVED_X / CALLEE_SAVED_F: index lists;  selftest(): python -m mc.rvmodel
"""
from __future__ import annotations

import math
import re
import struct
from fractions import Fraction

M32 = 0xFFFFFFFF
M64 = 0xFFFFFFFFFFFFFFFF
SENTINEL = 0x7FFFF000          # return address given to the callee; never an instruction address here
STACK_TOP = 0x40000000         # initial sp (16-byte aligned)
CANON_NAN_S = 0x7FC00000
CANON_NAN_D = 0x7FF8000000000000
BOX = 0xFFFFFFFF00000000


class AsmError(Exception):
    """the text is not valid RV32 assembly"""

    def __init__(self, kind: str, detail: str, mnemonic: str = "", line: str = ""):
        super().__init__(f"{kind}: {detail} in `{line.strip()}`")
        self.kind = kind
        self.detail = detail
        self.mnemonic = mnemonic
        self.line = line.strip()


class Unmodelled(Exception):
    """an instruction this model does not know"""

    def __init__(self, mnemonic: str, line: str = ""):
        super().__init__(f"unmodelled instruction {mnemonic}")
        self.mnemonic = mnemonic
        self.line = line.strip()


class ExecError(Exception):
    def __init__(self, kind: str, detail: str = ""):
        super().__init__(f"{kind}: {detail}")
        self.kind = kind
        self.detail = detail


# ======================================================================================
# register names
# ======================================================================================
_X_ABI = ["zero", "ra", "sp", "gp", "tp", "t0", "t1", "t2", "s0", "s1", "a0", "a1", "a2", "a3", "a4", "a5", "a6", "a7",
          "s2", "s3", "s4", "s5", "s6", "s7", "s8", "s9", "s10", "s11", "t3", "t4", "t5", "t6"]
_F_ABI = ["ft0", "ft1", "ft2", "ft3", "ft4", "ft5", "ft6", "ft7", "fs0", "fs1", "fa0", "fa1", "fa2", "fa3", "fa4", "fa5",
          "fa6", "fa7", "fs2", "fs3", "fs4", "fs5", "fs6", "fs7", "fs8", "fs9", "fs10", "fs11", "ft8", "ft9", "ft10", "ft11"]
XREG: dict[str, int] = {n: i for i, n in enumerate(_X_ABI)}
XREG.update({f"x{i}": i for i in range(32)})
XREG["fp"] = 8
FREG: dict[str, int] = {n: i for i, n in enumerate(_F_ABI)}
FREG.update({f"f{i}": i for i in range(32)})
XNAME = _X_ABI
FNAME = _F_ABI
CALLEE_SAVED_X = [8, 9] + list(range(18, 28))      # s0-s11
CALLEE_SAVED_F = [8, 9] + list(range(18, 28))      # fs0-fs11
RA, SP = 1, 2


# ======================================================================================
# float helpers (bit patterns <-> Python floats)
# ======================================================================================
def _d2b(x: float) -> int:
    return struct.unpack("<Q", struct.pack("<d", x))[0]


def _b2d(b: int) -> float:
    return struct.unpack("<d", struct.pack("<Q", b & M64))[0]


def _b2s(b: int) -> float:
    return struct.unpack("<f", struct.pack("<I", b & M32))[0]


def _s2b(x: float) -> int:
    """round a Python float (binary64) to binary32, round-to-nearest-even, overflow -> infinity"""
    if x != x:
        return CANON_NAN_S
    try:
        return struct.unpack("<I", struct.pack("<f", x))[0]
    except OverflowError:
        return 0xFF800000 if x < 0 else 0x7F800000


def _isnan_s(b: int) -> bool:
    return (b & 0x7F800000) == 0x7F800000 and (b & 0x007FFFFF) != 0


def _isnan_d(b: int) -> bool:
    return (b & 0x7FF0000000000000) == 0x7FF0000000000000 and (b & 0x000FFFFFFFFFFFFF) != 0


def _fdiv(a: float, b: float) -> float:
    if a != a or b != b:
        return math.nan
    if b == 0.0:
        if a == 0.0:
            return math.nan
        neg = (math.copysign(1.0, a) < 0) != (math.copysign(1.0, b) < 0)
        return -math.inf if neg else math.inf
    if math.isinf(a) and math.isinf(b):
        return math.nan
    try:
        return a / b
    except OverflowError:  # pragma: no cover - Python float division does not overflow with an exception
        return math.inf


def _fadd(a: float, b: float) -> float:
    return a + b            # inf + -inf = nan in Python as in IEEE


def _fmul(a: float, b: float) -> float:
    return a * b            # 0 * inf = nan in Python as in IEEE


def _round_frac_to_double(q: Fraction, zero_sign_negative: bool) -> float:
    if q == 0:
        return -0.0 if zero_sign_negative else 0.0
    try:
        return float(q)     # int / int true division: correctly rounded (CPython long_true_divide)
    except OverflowError:
        return -math.inf if q < 0 else math.inf


def _fma_d(a: float, b: float, c: float) -> float:
    """a * b + c with a single rounding (binary64)"""
    if a != a or b != b or c != c:
        return math.nan
    if math.isinf(a) or math.isinf(b):
        if a == 0.0 or b == 0.0:
            return math.nan
        p = math.copysign(math.inf, math.copysign(1.0, a) * math.copysign(1.0, b))
        if math.isinf(c) and c != p:
            return math.nan
        return p
    if math.isinf(c):
        return c
    q = Fraction(a) * Fraction(b) + Fraction(c)
    if q == 0:
        psign = (math.copysign(1.0, a) < 0) != (math.copysign(1.0, b) < 0)
        csign = math.copysign(1.0, c) < 0
        exact_zero_product = (a == 0.0 or b == 0.0)
        if exact_zero_product and c == 0.0:
            return -0.0 if (psign and csign) else 0.0
        return 0.0          # x + (-x) = +0 in round-to-nearest
    return _round_frac_to_double(q, False)


def _round_int(x: float, rm: str) -> int:
    """round a finite float to an integer in the given RISC-V rounding mode"""
    q = Fraction(x)
    fl = q.numerator // q.denominator
    if q == fl:
        return fl
    if rm == "rtz":
        return fl if q > 0 else fl + 1
    if rm == "rdn":
        return fl
    if rm == "rup":
        return fl + 1
    frac = q - fl
    if rm == "rne":
        if frac > Fraction(1, 2) or (frac == Fraction(1, 2) and fl % 2 == 1):
            return fl + 1
        return fl
    if rm == "rmm":
        if frac > Fraction(1, 2) or (frac == Fraction(1, 2) and q > 0):
            return fl + 1
        return fl
    raise ExecError("bad-rounding-mode", rm)


def _fcvt_to_int(x: float, rm: str, signed: bool) -> int:
    lo, hi = (-(1 << 31), (1 << 31) - 1) if signed else (0, (1 << 32) - 1)
    if x != x:
        return hi & M32
    if math.isinf(x):
        return (hi if x > 0 else lo) & M32
    r = _round_int(x, rm)
    return max(lo, min(hi, r)) & M32


def _sx(v: int) -> int:
    """signed view of a 32-bit pattern"""
    return v - (1 << 32) if v & 0x80000000 else v


# ======================================================================================
# operand parsing
# ======================================================================================
_INT_RE = re.compile(r"^[+-]?(0[xX][0-9a-fA-F]+|0[bB][01]+|[0-9]+)$")
_MEM_RE = re.compile(r"^(.*)\((.*)\)$")
_LABEL_RE = re.compile(r"^[A-Za-z_.$][A-Za-z0-9_.$]*$")
_ROUNDING = ("rne", "rtz", "rdn", "rup", "rmm", "dyn")


def _int(tok: str, mn: str, line: str) -> int:
    if not _INT_RE.match(tok):
        raise AsmError("not-an-immediate", repr(tok), mn, line)
    return int(tok, 0)


def _xreg(tok: str, mn: str, line: str) -> int:
    r = XREG.get(tok)
    if r is None:
        raise AsmError("not-a-register", repr(tok), mn, line)
    return r


def _freg(tok: str, mn: str, line: str) -> int:
    r = FREG.get(tok)
    if r is None:
        raise AsmError("not-a-register", repr(tok), mn, line)
    return r


def _ranged(tok: str, lo: int, hi: int, mn: str, line: str) -> int:
    v = _int(tok, mn, line)
    if not lo <= v <= hi:
        raise AsmError("immediate-out-of-range", f"{v} not in [{lo}, {hi}]", mn, line)
    return v


def _operand(kind: str, tok: str, mn: str, line: str):
    if kind == "r":
        return _xreg(tok, mn, line)
    if kind == "f":
        return _freg(tok, mn, line)
    if kind == "i":                       # 12-bit signed immediate
        return _ranged(tok, -2048, 2047, mn, line)
    if kind == "s":                       # RV32 shift amount
        return _ranged(tok, 0, 31, mn, line)
    if kind == "I":                       # li: anything a 32-bit register can hold
        return _ranged(tok, -(1 << 31), (1 << 32) - 1, mn, line) & M32
    if kind == "u":                       # lui: 20 bits
        return _ranged(tok, 0, (1 << 20) - 1, mn, line)
    if kind == "l":
        if not _LABEL_RE.match(tok) or tok in XREG or tok in FREG:
            raise AsmError("not-a-label", repr(tok), mn, line)
        return tok
    if kind in ("m", "M"):                # imm(xreg)
        mm = _MEM_RE.match(tok)
        if not mm:
            raise AsmError("not-a-memory-operand", repr(tok), mn, line)
        off = mm.group(1).strip()
        return (_ranged(off if off else "0", -2048, 2047, mn, line), _xreg(mm.group(2).strip(), mn, line))
    raise AssertionError(kind)


# mnemonic -> operand kinds.  r = x register, f = f register, i = imm12, s = shamt, I = li immediate, u = imm20,
# l = label, m = imm(xreg); a trailing "?" marks an optional rounding mode operand
FORMATS: dict[str, str] = {}
for _m in ("add sub and or xor sll srl sra slt sltu mul mulh mulhsu mulhu div divu rem remu "
           "andn orn xnor min max minu maxu rol ror bclr bext binv bset sh1add sh2add sh3add").split():
    FORMATS[_m] = "rrr"
for _m in "addi slti sltiu andi ori xori".split():
    FORMATS[_m] = "rri"
for _m in "slli srli srai bclri bexti binvi bseti rori".split():
    FORMATS[_m] = "rrs"
for _m in "mv not neg seqz snez sltz sgtz zext.b zext.h sext.b sext.h".split():
    FORMATS[_m] = "rr"
FORMATS.update({"li": "rI", "lui": "ru", "nop": "", "ret": "", "j": "l", "jr": "r"})
for _m in "lb lbu lh lhu lw sb sh sw".split():
    FORMATS[_m] = "rm"
for _m in "flw fsw fld fsd".split():
    FORMATS[_m] = "fm"
for _m in "beq bne blt bge bltu bgeu bgt ble bgtu bleu".split():
    FORMATS[_m] = "rrl"
for _m in "beqz bnez blez bgez bltz bgtz".split():
    FORMATS[_m] = "rl"
for _p in ("s", "d"):
    for _m in "fadd fsub fmul fdiv".split():
        FORMATS[f"{_m}.{_p}"] = "fff?"
    for _m in "fmin fmax fsgnj fsgnjn fsgnjx".split():
        FORMATS[f"{_m}.{_p}"] = "fff"
    for _m in "fmadd fmsub fnmsub fnmadd".split():
        FORMATS[f"{_m}.{_p}"] = "ffff?"
    for _m in "feq flt fle".split():
        FORMATS[f"{_m}.{_p}"] = "rff"
    for _m in "fmv fneg fabs".split():
        FORMATS[f"{_m}.{_p}"] = "ff"
    FORMATS[f"fsqrt.{_p}"] = "ff?"
    FORMATS[f"fcvt.w.{_p}"] = "rf?"
    FORMATS[f"fcvt.wu.{_p}"] = "rf?"
    FORMATS[f"fcvt.{_p}.w"] = "fr?"
    FORMATS[f"fcvt.{_p}.wu"] = "fr?"
    FORMATS[f"fclass.{_p}"] = "rf"
FORMATS.update({"fcvt.s.d": "ff?", "fcvt.d.s": "ff?", "fmv.x.w": "rf", "fmv.w.x": "fr", "fmv.x.s": "rf", "fmv.s.x": "fr"})


class Program:
    def __init__(self) -> None:
        self.instrs: list[tuple] = []           # (mnemonic, operands tuple, rounding mode | None, source line)
        self.labels: dict[str, int] = {}

    def __len__(self) -> int:
        return len(self.instrs)


def _split_operands(rest: str) -> list[str]:
    rest = rest.strip()
    if not rest:
        return []
    return [t.strip() for t in rest.split(",")]


def parse(text: str) -> Program:
    prog = Program()
    unmodelled: Unmodelled | None = None
    for raw in text.splitlines():
        line = raw.split("#", 1)[0].strip()
        while True:
            mm = re.match(r"^([A-Za-z_.$][A-Za-z0-9_.$]*)\s*:\s*(.*)$", line)
            if not mm:
                break
            if mm.group(1) in prog.labels:
                raise AsmError("duplicate-label", mm.group(1), "", raw)
            prog.labels[mm.group(1)] = len(prog.instrs)
            line = mm.group(2).strip()
        if not line:
            continue
        parts = line.split(None, 1)
        mn = parts[0]
        if mn.startswith("."):
            continue                                    # directive
        toks = _split_operands(parts[1] if len(parts) > 1 else "")
        if mn in ("jal", "jalr"):
            prog.instrs.append(_parse_jump(mn, toks, raw))
            continue
        fmt = FORMATS.get(mn)
        if fmt is None:
            if unmodelled is None:
                unmodelled = Unmodelled(mn, raw)
            prog.instrs.append(("?", (), None, raw))
            continue
        opt_rm = fmt.endswith("?")
        kinds = fmt.rstrip("?")
        rm = None
        if opt_rm and len(toks) == len(kinds) + 1:
            rm = toks.pop()
            if rm not in _ROUNDING:
                raise AsmError("bad-rounding-mode", repr(rm), mn, raw)
        if len(toks) != len(kinds):
            raise AsmError("operand-count", f"{len(toks)} operands, {len(kinds)} expected", mn, raw)
        ops = tuple(_operand(k, t, mn, raw) for k, t in zip(kinds, toks))
        prog.instrs.append((mn, ops, rm, raw))
    for mn, ops, _, raw in prog.instrs:
        kinds = FORMATS.get(mn, "")
        for k, o in zip(kinds, ops):
            if k == "l" and o not in prog.labels:
                raise AsmError("unknown-label", o, mn, raw)
    if unmodelled is not None:
        raise unmodelled
    return prog


def _parse_jump(mn: str, toks: list[str], raw: str) -> tuple:
    if mn == "jal":
        if len(toks) == 1:
            return ("jal", (RA, _operand("l", toks[0], mn, raw)), None, raw)
        if len(toks) == 2:
            return ("jal", (_xreg(toks[0], mn, raw), _operand("l", toks[1], mn, raw)), None, raw)
    else:
        if len(toks) == 1:
            return ("jalr", (RA, _xreg(toks[0], mn, raw), 0), None, raw)
        if len(toks) == 2:
            off, base = _operand("m", toks[1], mn, raw)
            return ("jalr", (_xreg(toks[0], mn, raw), base, off), None, raw)
        if len(toks) == 3:
            return ("jalr", (_xreg(toks[0], mn, raw), _xreg(toks[1], mn, raw), _ranged(toks[2], -2048, 2047, mn, raw)), None, raw)
    raise AsmError("operand-count", f"{len(toks)} operands", mn, raw)


# ======================================================================================
# the machine
# ======================================================================================
def _default_byte(addr: int) -> int:
    return ((addr * 0x9E3779B1) >> 13) & 0xFF


class Machine:
    def __init__(self) -> None:
        self.x = [0] * 32
        self.f = [0] * 32
        self.mem: dict[int, int] = {}
        self.frm = "rne"
        self.steps = 0
        self.x[SP] = STACK_TOP
        self.x[RA] = SENTINEL

    # -- memory -------------------------------------------------------------------
    def load(self, addr: int, n: int) -> int:
        v = 0
        for i in range(n):
            a = (addr + i) & M32
            b = self.mem.get(a)
            if b is None:
                b = _default_byte(a)
            v |= b << (8 * i)
        return v

    def store(self, addr: int, n: int, v: int) -> None:
        for i in range(n):
            self.mem[(addr + i) & M32] = (v >> (8 * i)) & 0xFF

    # -- float register views -------------------------------------------------------
    def rs(self, r: int) -> int:
        v = self.f[r]
        return v & M32 if (v & BOX) == BOX else CANON_NAN_S

    def ws(self, r: int, bits: int) -> None:
        self.f[r] = BOX | (bits & M32)

    def rd_(self, r: int) -> int:
        return self.f[r]

    def wd(self, r: int, bits: int) -> None:
        self.f[r] = bits & M64

    def _rm(self, rm: str | None) -> str:
        rm = rm or "dyn"
        return self.frm if rm == "dyn" else rm

    # -- execution ---------------------------------------------------------------------
    def run(self, prog: Program, entry: str, max_steps: int = 100_000) -> int:
        if entry not in prog.labels:
            raise ExecError("no-entry-label", entry)
        pc = prog.labels[entry]
        n = len(prog.instrs)
        x = self.x
        steps = 0
        while True:
            if pc == n:
                raise ExecError("fell-off-the-end")
            if steps >= max_steps:
                self.steps = steps
                raise ExecError("step-limit", str(max_steps))
            steps += 1
            mn, ops, rm, raw = prog.instrs[pc]
            nxt = pc + 1
            target = None           # byte address of an indirect jump
            h = _EXEC.get(mn)
            if h is not None:
                h(self, ops, rm)
            elif mn in _BRANCH2:
                if _BRANCH2[mn](x[ops[0]], x[ops[1]]):
                    nxt = prog.labels[ops[2]]
            elif mn in _BRANCH1:
                if _BRANCH1[mn](x[ops[0]]):
                    nxt = prog.labels[ops[1]]
            elif mn == "j":
                nxt = prog.labels[ops[0]]
            elif mn == "jal":
                if ops[0]:
                    x[ops[0]] = (4 * (pc + 1)) & M32
                nxt = prog.labels[ops[1]]
            elif mn == "ret":
                target = x[RA] & ~1
            elif mn == "jr":
                target = x[ops[0]] & ~1
            elif mn == "jalr":
                target = (x[ops[1]] + ops[2]) & M32 & ~1
                if ops[0]:
                    x[ops[0]] = (4 * (pc + 1)) & M32
            else:  # pragma: no cover - parse() rejects unknown mnemonics
                raise Unmodelled(mn, raw)
            x[0] = 0
            if target is not None:
                if target == SENTINEL:
                    self.steps = steps
                    return steps
                if target % 4 or not 0 <= target // 4 < n:
                    raise ExecError("jump-to-invalid-address", hex(target))
                nxt = target // 4
            pc = nxt


_BRANCH2 = {
    "beq": lambda a, b: a == b, "bne": lambda a, b: a != b,
    "blt": lambda a, b: _sx(a) < _sx(b), "bge": lambda a, b: _sx(a) >= _sx(b),
    "bltu": lambda a, b: a < b, "bgeu": lambda a, b: a >= b,
    "bgt": lambda a, b: _sx(a) > _sx(b), "ble": lambda a, b: _sx(a) <= _sx(b),
    "bgtu": lambda a, b: a > b, "bleu": lambda a, b: a <= b,
}
_BRANCH1 = {
    "beqz": lambda a: a == 0, "bnez": lambda a: a != 0, "blez": lambda a: _sx(a) <= 0,
    "bgez": lambda a: _sx(a) >= 0, "bltz": lambda a: _sx(a) < 0, "bgtz": lambda a: _sx(a) > 0,
}


def _div(a: int, b: int) -> int:
    if b == 0:
        return M32
    sa, sb = _sx(a), _sx(b)
    if sa == -(1 << 31) and sb == -1:
        return a
    q = abs(sa) // abs(sb)
    return (-q if (sa < 0) != (sb < 0) else q) & M32


def _rem(a: int, b: int) -> int:
    if b == 0:
        return a
    sa, sb = _sx(a), _sx(b)
    if sa == -(1 << 31) and sb == -1:
        return 0
    r = abs(sa) % abs(sb)
    return (-r if sa < 0 else r) & M32


_RRR = {
    "add": lambda a, b: (a + b) & M32,
    "sub": lambda a, b: (a - b) & M32,
    "and": lambda a, b: a & b,
    "or": lambda a, b: a | b,
    "xor": lambda a, b: a ^ b,
    "sll": lambda a, b: (a << (b & 31)) & M32,
    "srl": lambda a, b: a >> (b & 31),
    "sra": lambda a, b: (_sx(a) >> (b & 31)) & M32,
    "slt": lambda a, b: int(_sx(a) < _sx(b)),
    "sltu": lambda a, b: int(a < b),
    "mul": lambda a, b: (a * b) & M32,
    "mulh": lambda a, b: ((_sx(a) * _sx(b)) >> 32) & M32,
    "mulhsu": lambda a, b: ((_sx(a) * b) >> 32) & M32,
    "mulhu": lambda a, b: ((a * b) >> 32) & M32,
    "div": _div,
    "divu": lambda a, b: M32 if b == 0 else a // b,
    "rem": _rem,
    "remu": lambda a, b: a if b == 0 else a % b,
    "andn": lambda a, b: a & (~b & M32),
    "orn": lambda a, b: a | (~b & M32),
    "xnor": lambda a, b: ~(a ^ b) & M32,
    "min": lambda a, b: a if _sx(a) < _sx(b) else b,
    "max": lambda a, b: a if _sx(a) > _sx(b) else b,
    "minu": lambda a, b: min(a, b),
    "maxu": lambda a, b: max(a, b),
    "rol": lambda a, b: ((a << (b & 31)) | (a >> ((32 - (b & 31)) & 31))) & M32 if b & 31 else a,
    "ror": lambda a, b: ((a >> (b & 31)) | (a << ((32 - (b & 31)) & 31))) & M32 if b & 31 else a,
    "bclr": lambda a, b: a & ~(1 << (b & 31)) & M32,
    "bext": lambda a, b: (a >> (b & 31)) & 1,
    "binv": lambda a, b: a ^ (1 << (b & 31)),
    "bset": lambda a, b: a | (1 << (b & 31)),
    "sh1add": lambda a, b: ((a << 1) + b) & M32,
    "sh2add": lambda a, b: ((a << 2) + b) & M32,
    "sh3add": lambda a, b: ((a << 3) + b) & M32,
}
_RRI = {
    "addi": lambda a, i: (a + i) & M32,
    "slti": lambda a, i: int(_sx(a) < i),
    "sltiu": lambda a, i: int(a < (i & M32)),
    "andi": lambda a, i: a & (i & M32),
    "ori": lambda a, i: a | (i & M32),
    "xori": lambda a, i: a ^ (i & M32),
    "slli": lambda a, s: (a << s) & M32,
    "srli": lambda a, s: a >> s,
    "srai": lambda a, s: (_sx(a) >> s) & M32,
    "bclri": lambda a, s: a & ~(1 << s) & M32,
    "bexti": lambda a, s: (a >> s) & 1,
    "binvi": lambda a, s: a ^ (1 << s),
    "bseti": lambda a, s: a | (1 << s),
    "rori": lambda a, s: ((a >> s) | (a << (32 - s))) & M32 if s else a,
}
_RR = {
    "mv": lambda a: a,
    "not": lambda a: ~a & M32,
    "neg": lambda a: (-a) & M32,
    "seqz": lambda a: int(a == 0),
    "snez": lambda a: int(a != 0),
    "sltz": lambda a: int(_sx(a) < 0),
    "sgtz": lambda a: int(_sx(a) > 0),
    "zext.b": lambda a: a & 0xFF,
    "zext.h": lambda a: a & 0xFFFF,
    "sext.b": lambda a: ((a & 0xFF) ^ 0x80) - 0x80 & M32,
    "sext.h": lambda a: ((a & 0xFFFF) ^ 0x8000) - 0x8000 & M32,
}

_EXEC: dict = {}


def _mk_rrr(fn):
    def h(m, ops, rm):
        m.x[ops[0]] = fn(m.x[ops[1]], m.x[ops[2]])
    return h


def _mk_rri(fn):
    def h(m, ops, rm):
        m.x[ops[0]] = fn(m.x[ops[1]], ops[2])
    return h


def _mk_rr(fn):
    def h(m, ops, rm):
        m.x[ops[0]] = fn(m.x[ops[1]])
    return h


for _n, _f in _RRR.items():
    _EXEC[_n] = _mk_rrr(_f)
for _n, _f in _RRI.items():
    _EXEC[_n] = _mk_rri(_f)
for _n, _f in _RR.items():
    _EXEC[_n] = _mk_rr(_f)


def _li(m, ops, rm):
    m.x[ops[0]] = ops[1] & M32


def _lui(m, ops, rm):
    m.x[ops[0]] = (ops[1] << 12) & M32


def _nop(m, ops, rm):
    pass


_EXEC.update({"li": _li, "lui": _lui, "nop": _nop})


def _mk_load(n: int, signed: bool):
    def h(m, ops, rm):
        off, base = ops[1]
        v = m.load((m.x[base] + off) & M32, n)
        if signed and v >> (8 * n - 1):
            v -= 1 << (8 * n)
        m.x[ops[0]] = v & M32
    return h


def _mk_store(n: int):
    def h(m, ops, rm):
        off, base = ops[1]
        m.store((m.x[base] + off) & M32, n, m.x[ops[0]])
    return h


_EXEC.update({"lb": _mk_load(1, True), "lbu": _mk_load(1, False), "lh": _mk_load(2, True), "lhu": _mk_load(2, False),
              "lw": _mk_load(4, True), "sb": _mk_store(1), "sh": _mk_store(2), "sw": _mk_store(4)})


def _flw(m, ops, rm):
    off, base = ops[1]
    m.ws(ops[0], m.load((m.x[base] + off) & M32, 4))


def _fsw(m, ops, rm):
    off, base = ops[1]
    m.store((m.x[base] + off) & M32, 4, m.f[ops[0]] & M32)      # fsw stores the low 32 bits, no NaN-box check


def _fld(m, ops, rm):
    off, base = ops[1]
    m.wd(ops[0], m.load((m.x[base] + off) & M32, 8))


def _fsd(m, ops, rm):
    off, base = ops[1]
    m.store((m.x[base] + off) & M32, 8, m.f[ops[0]])


_EXEC.update({"flw": _flw, "fsw": _fsw, "fld": _fld, "fsd": _fsd})


def _only_rne(m, rm, mn):
    mode = m._rm(rm)
    if mode != "rne":
        raise Unmodelled(f"{mn} with rounding mode {mode}")


def _mk_fbin_s(fn, mn):
    def h(m, ops, rm):
        _only_rne(m, rm, mn)
        m.ws(ops[0], _s2b(fn(_b2s(m.rs(ops[1])), _b2s(m.rs(ops[2])))))
    return h


def _mk_fbin_d(fn, mn):
    def h(m, ops, rm):
        _only_rne(m, rm, mn)
        r = fn(_b2d(m.rd_(ops[1])), _b2d(m.rd_(ops[2])))
        m.wd(ops[0], CANON_NAN_D if r != r else _d2b(r))
    return h


for _n, _f in (("fadd", _fadd), ("fsub", lambda a, b: a - b), ("fmul", _fmul), ("fdiv", _fdiv)):
    _EXEC[_n + ".s"] = _mk_fbin_s(_f, _n + ".s")
    _EXEC[_n + ".d"] = _mk_fbin_d(_f, _n + ".d")


def _minmax(a: float, b: float, abits_neg: bool, bbits_neg: bool, is_min: bool):
    """returns 0 -> take a, 1 -> take b (neither is NaN)"""
    if a == b:                                   # covers +0 / -0: -0 is the smaller one
        if abits_neg == bbits_neg:
            return 0
        return (0 if abits_neg else 1) if is_min else (1 if abits_neg else 0)
    return (0 if a < b else 1) if is_min else (0 if a > b else 1)


def _mk_fminmax(is_min: bool, double: bool):
    def h(m, ops, rm):
        if double:
            a, b = m.rd_(ops[1]), m.rd_(ops[2])
            na, nb = _isnan_d(a), _isnan_d(b)
            if na and nb:
                m.wd(ops[0], CANON_NAN_D)
            elif na:
                m.wd(ops[0], b)
            elif nb:
                m.wd(ops[0], a)
            else:
                m.wd(ops[0], (a, b)[_minmax(_b2d(a), _b2d(b), bool(a >> 63), bool(b >> 63), is_min)])
        else:
            a, b = m.rs(ops[1]), m.rs(ops[2])
            na, nb = _isnan_s(a), _isnan_s(b)
            if na and nb:
                m.ws(ops[0], CANON_NAN_S)
            elif na:
                m.ws(ops[0], b)
            elif nb:
                m.ws(ops[0], a)
            else:
                m.ws(ops[0], (a, b)[_minmax(_b2s(a), _b2s(b), bool(a >> 31), bool(b >> 31), is_min)])
    return h


_EXEC.update({"fmin.s": _mk_fminmax(True, False), "fmax.s": _mk_fminmax(False, False),
              "fmin.d": _mk_fminmax(True, True), "fmax.d": _mk_fminmax(False, True)})


def _mk_fsgnj(kind: str, double: bool):
    def h(m, ops, rm):
        if double:
            a, b, top = m.rd_(ops[1]), m.rd_(ops[2]), 1 << 63
        else:
            a, b, top = m.rs(ops[1]), m.rs(ops[2]), 1 << 31
        sign = b & top
        if kind == "n":
            sign ^= top
        elif kind == "x":
            sign = (a ^ b) & top
        r = (a & (top - 1)) | sign
        (m.wd if double else m.ws)(ops[0], r)
    return h


for _p, _dbl in (("s", False), ("d", True)):
    _EXEC[f"fsgnj.{_p}"] = _mk_fsgnj("", _dbl)
    _EXEC[f"fsgnjn.{_p}"] = _mk_fsgnj("n", _dbl)
    _EXEC[f"fsgnjx.{_p}"] = _mk_fsgnj("x", _dbl)


def _mk_funary(kind: str, double: bool):
    # fmv.s rd, rs = fsgnj.s rd, rs, rs ; fneg = fsgnjn ; fabs = fsgnjx
    base = _mk_fsgnj({"fmv": "", "fneg": "n", "fabs": "x"}[kind], double)

    def h(m, ops, rm):
        base(m, (ops[0], ops[1], ops[1]), rm)
    return h


for _p, _dbl in (("s", False), ("d", True)):
    for _k in ("fmv", "fneg", "fabs"):
        _EXEC[f"{_k}.{_p}"] = _mk_funary(_k, _dbl)


def _mk_fcmp(kind: str, double: bool):
    def h(m, ops, rm):
        if double:
            a, b = m.rd_(ops[1]), m.rd_(ops[2])
            if _isnan_d(a) or _isnan_d(b):
                m.x[ops[0]] = 0
                return
            fa, fb = _b2d(a), _b2d(b)
        else:
            a, b = m.rs(ops[1]), m.rs(ops[2])
            if _isnan_s(a) or _isnan_s(b):
                m.x[ops[0]] = 0
                return
            fa, fb = _b2s(a), _b2s(b)
        m.x[ops[0]] = int({"feq": fa == fb, "flt": fa < fb, "fle": fa <= fb}[kind])
    return h


for _p, _dbl in (("s", False), ("d", True)):
    for _k in ("feq", "flt", "fle"):
        _EXEC[f"{_k}.{_p}"] = _mk_fcmp(_k, _dbl)


def _fcvt_w_s(m, ops, rm):
    m.x[ops[0]] = _fcvt_to_int(_b2s(m.rs(ops[1])), m._rm(rm), True)


def _fcvt_wu_s(m, ops, rm):
    m.x[ops[0]] = _fcvt_to_int(_b2s(m.rs(ops[1])), m._rm(rm), False)


def _fcvt_w_d(m, ops, rm):
    m.x[ops[0]] = _fcvt_to_int(_b2d(m.rd_(ops[1])), m._rm(rm), True)


def _fcvt_wu_d(m, ops, rm):
    m.x[ops[0]] = _fcvt_to_int(_b2d(m.rd_(ops[1])), m._rm(rm), False)


def _fcvt_s_w(m, ops, rm):
    _only_rne(m, rm, "fcvt.s.w")
    m.ws(ops[0], _s2b(float(_sx(m.x[ops[1]]))))


def _fcvt_s_wu(m, ops, rm):
    _only_rne(m, rm, "fcvt.s.wu")
    m.ws(ops[0], _s2b(float(m.x[ops[1]])))


def _fcvt_d_w(m, ops, rm):
    m.wd(ops[0], _d2b(float(_sx(m.x[ops[1]]))))          # exact


def _fcvt_d_wu(m, ops, rm):
    m.wd(ops[0], _d2b(float(m.x[ops[1]])))


def _fcvt_s_d(m, ops, rm):
    _only_rne(m, rm, "fcvt.s.d")
    a = m.rd_(ops[1])
    m.ws(ops[0], CANON_NAN_S if _isnan_d(a) else _s2b(_b2d(a)))


def _fcvt_d_s(m, ops, rm):
    a = m.rs(ops[1])
    m.wd(ops[0], CANON_NAN_D if _isnan_s(a) else _d2b(_b2s(a)))


def _fmv_x_w(m, ops, rm):
    m.x[ops[0]] = m.f[ops[1]] & M32


def _fmv_w_x(m, ops, rm):
    m.ws(ops[0], m.x[ops[1]])


def _mk_fma_d(neg_prod: bool, neg_add: bool):
    def h(m, ops, rm):
        _only_rne(m, rm, "fmadd.d")
        a, b, c = _b2d(m.rd_(ops[1])), _b2d(m.rd_(ops[2])), _b2d(m.rd_(ops[3]))
        if neg_prod:
            a = -a
        if neg_add:
            c = -c
        r = _fma_d(a, b, c)
        m.wd(ops[0], CANON_NAN_D if r != r else _d2b(r))
    return h


def _fsqrt_d(m, ops, rm):
    _only_rne(m, rm, "fsqrt.d")
    a = _b2d(m.rd_(ops[1]))
    if a != a or a < 0:
        m.wd(ops[0], CANON_NAN_D)
    else:
        m.wd(ops[0], _d2b(math.sqrt(a)))


def _fsqrt_s(m, ops, rm):
    _only_rne(m, rm, "fsqrt.s")
    a = _b2s(m.rs(ops[1]))
    if a != a or a < 0:
        m.ws(ops[0], CANON_NAN_S)
    else:
        m.ws(ops[0], _s2b(math.sqrt(a)))


_EXEC.update({
    "fcvt.w.s": _fcvt_w_s, "fcvt.wu.s": _fcvt_wu_s, "fcvt.w.d": _fcvt_w_d, "fcvt.wu.d": _fcvt_wu_d,
    "fcvt.s.w": _fcvt_s_w, "fcvt.s.wu": _fcvt_s_wu, "fcvt.d.w": _fcvt_d_w, "fcvt.d.wu": _fcvt_d_wu,
    "fcvt.s.d": _fcvt_s_d, "fcvt.d.s": _fcvt_d_s,
    "fmv.x.w": _fmv_x_w, "fmv.w.x": _fmv_w_x, "fmv.x.s": _fmv_x_w, "fmv.s.x": _fmv_w_x,
    "fmadd.d": _mk_fma_d(False, False), "fmsub.d": _mk_fma_d(False, True),
    "fnmsub.d": _mk_fma_d(True, False), "fnmadd.d": _mk_fma_d(True, True),
    "fsqrt.d": _fsqrt_d, "fsqrt.s": _fsqrt_s,
})

# every mnemonic in FORMATS must either have a handler or be control flow; the rest is declared unmodelled
_CONTROL = set(_BRANCH1) | set(_BRANCH2) | {"j", "jr", "ret"}
for _m in [m for m in FORMATS if m not in _EXEC and m not in _CONTROL]:
    del FORMATS[_m]


# ======================================================================================
# calling convention helper
# ======================================================================================
def poison_x(i: int) -> int:
    return (0xA5000000 | (i * 0x01010101 & 0x00FFFFFF)) & M32


def poison_f(i: int) -> int:
    return 0x7FF4DEAD00000000 | (0xBEEF0000 + i)


_POISON_X = [0 if i == 0 else SENTINEL if i == RA else STACK_TOP if i == SP else poison_x(i) for i in range(32)]
_POISON_F = [poison_f(i) for i in range(32)]


def call(prog: Program, entry: str, int_args=(), float_args=(), max_steps: int = 100_000) -> tuple["Machine", dict]:
    """Run `entry` as a function: a0.. = int_args (32-bit patterns), fa0.. = float_args (64-bit REGISTER patterns,
    i.e. singles already NaN-boxed), every other register poison-filled, sp = STACK_TOP, ra = SENTINEL.
    -> (machine after the return, initial state {"x": [...], "f": [...]})"""
    m = Machine()
    m.x = list(_POISON_X)
    m.f = list(_POISON_F)
    for i, v in enumerate(int_args):
        m.x[10 + i] = v & M32
    for i, v in enumerate(float_args):
        m.f[10 + i] = v & M64
    init = {"x": list(m.x), "f": list(m.f)}
    m.run(prog, entry, max_steps)
    return m, init


def box_s(bits32: int) -> int:
    return BOX | (bits32 & M32)


# ======================================================================================
# self test (hand computed cases)
# ======================================================================================
def selftest() -> int:
    fails = []

    def check(got, exp, what):
        if got != exp:
            fails.append(f"{what}: got {got!r}, expected {exp!r}")

    def run(text, a=0, b=0, fa=(), entry="f"):
        m, _ = call(parse(text), entry, (a, b), fa)
        return m

    hdr = ".text\n.globl f\n.p2align 2\nf:\n"
    check(run(hdr + "add a0, a0, a1\nret", 0xFFFFFFFF, 2).x[10], 1, "add wraps")
    check(run(hdr + "sub a0, a0, a1\nret", 0, 1).x[10], M32, "sub wraps")
    check(run(hdr + "mul a0, a0, a1\nret", 0x80000000, 2).x[10], 0, "mul wraps")
    check(run(hdr + "mulh a0, a0, a1\nret", 0x80000000, 2).x[10], M32, "mulh signed")
    check(run(hdr + "mulhu a0, a0, a1\nret", 0x80000000, 2).x[10], 1, "mulhu")
    check(run(hdr + "div a0, a0, a1\nret", 7, 0).x[10], M32, "div by zero = -1")
    check(run(hdr + "divu a0, a0, a1\nret", 7, 0).x[10], M32, "divu by zero = all ones")
    check(run(hdr + "rem a0, a0, a1\nret", 7, 0).x[10], 7, "rem by zero = dividend")
    check(run(hdr + "div a0, a0, a1\nret", 0x80000000, M32).x[10], 0x80000000, "div overflow")
    check(run(hdr + "rem a0, a0, a1\nret", 0x80000000, M32).x[10], 0, "rem overflow")
    check(run(hdr + "div a0, a0, a1\nret", (-7) & M32, 2).x[10], (-3) & M32, "div truncates")
    check(run(hdr + "rem a0, a0, a1\nret", (-7) & M32, 2).x[10], (-1) & M32, "rem sign of dividend")
    check(run(hdr + "sll a0, a0, a1\nret", 1, 33).x[10], 2, "sll masks the amount")
    check(run(hdr + "sra a0, a0, a1\nret", 0x80000000, 31).x[10], M32, "sra")
    check(run(hdr + "srl a0, a0, a1\nret", 0x80000000, 31).x[10], 1, "srl")
    check(run(hdr + "slt a0, a0, a1\nret", M32, 0).x[10], 1, "slt signed")
    check(run(hdr + "sltu a0, a0, a1\nret", M32, 0).x[10], 0, "sltu unsigned")
    check(run(hdr + "sltiu a0, a0, -1\nret", 5).x[10], 1, "sltiu sign-extends then compares unsigned")
    check(run(hdr + "addi a0, a0, -2048\nret", 0).x[10], (-2048) & M32, "addi min")
    check(run(hdr + "xori a0, a0, -1\nret", 5).x[10], (~5) & M32, "xori -1 = not")
    check(run(hdr + "li a0, 4294967295\nret").x[10], M32, "li unsigned form")
    check(run(hdr + "li a0, -2147483648\nret").x[10], 0x80000000, "li min")
    check(run(hdr + "lui a0, 1\nret").x[10], 4096, "lui")
    check(run(hdr + "li zero, 5\nmv a0, zero\nret").x[10], 0, "x0 hard wired")
    check(run(hdr + "srai a0, a0, 31\nret", 0x80000000).x[10], M32, "srai")
    check(run(hdr + "rori a0, a0, 4\nret", 0x12345678).x[10], 0x81234567, "rori")
    check(run(hdr + "bexti a0, a0, 31\nret", 0x80000000).x[10], 1, "bexti")
    check(run(hdr + "bclri a0, a0, 0\nret", 3).x[10], 2, "bclri")
    check(run(hdr + "neg a0, a0\nret", 1).x[10], M32, "neg")
    check(run(hdr + "seqz a0, a0\nret", 0).x[10], 1, "seqz")
    # loop: sum 0..a0-1
    loop = hdr + "mv t0, a0\nli a0, 0\nli t1, 0\nbge t1, t0, end\nbody:\nadd a0, a0, t1\naddi t1, t1, 1\nblt t1, t0, body\nend:\nret"
    check(run(loop, 5).x[10], 10, "loop sum")
    check(run(loop, M32).x[10], 0, "loop with negative bound does not run")
    # stack
    st = hdr + "addi sp, sp, -16\nsw s0, 0(sp)\nsw a0, 4(sp)\nli s0, 7\nlw a0, 4(sp)\nadd a0, a0, s0\nlw s0, 0(sp)\naddi sp, sp, 16\nret"
    m = run(st, 5)
    check(m.x[10], 12, "stack round trip")
    check(m.x[8], poison_x(8), "s0 restored")
    check(m.x[SP], STACK_TOP, "sp restored")
    check(run(hdr + "sb a0, -1(sp)\nlb a0, -1(sp)\nret", 0x80).x[10], 0xFFFFFF80, "lb sign extends")
    check(run(hdr + "sh a0, -2(sp)\nlhu a0, -2(sp)\nret", 0x18000).x[10], 0x8000, "lhu")
    # floats
    one, two, three = 0x3F800000, 0x40000000, 0x40400000
    check(run(hdr + "fadd.s fa0, fa0, fa1\nret", fa=(box_s(one), box_s(two))).f[10], box_s(three), "fadd.s")
    check(run(hdr + "fadd.s fa0, fa0, fa1\nret", fa=(one, box_s(two))).f[10], box_s(CANON_NAN_S), "unboxed single reads as NaN")
    check(run(hdr + "fmul.s fa0, fa0, fa1\nret", fa=(box_s(0x7F7FFFFF), box_s(two))).f[10], box_s(0x7F800000), "fmul.s overflow")
    check(run(hdr + "fadd.s fa0, fa0, fa1\nret", fa=(box_s(0x4B800000), box_s(one))).f[10], box_s(0x4B800000), "fadd.s ties to even")
    check(run(hdr + "fadd.s fa0, fa0, fa1\nret", fa=(box_s(0x4B800001), box_s(one))).f[10], box_s(0x4B800002), "fadd.s ties to even (odd)")
    check(run(hdr + "fadd.d fa0, fa0, fa1\nret", fa=(_d2b(0.1), _d2b(0.2))).f[10], _d2b(0.1 + 0.2), "fadd.d")
    check(run(hdr + "fdiv.s fa0, fa0, fa1\nret", fa=(box_s(one), box_s(0x80000000))).f[10], box_s(0xFF800000), "1/-0 = -inf")
    check(run(hdr + "fdiv.s fa0, fa0, fa1\nret", fa=(box_s(0), box_s(0))).f[10], box_s(CANON_NAN_S), "0/0 = canonical NaN")
    check(run(hdr + "fmin.s fa0, fa0, fa1\nret", fa=(box_s(0x7FC00001), box_s(one))).f[10], box_s(one), "fmin returns the non-NaN")
    check(run(hdr + "fmin.s fa0, fa0, fa1\nret", fa=(box_s(0), box_s(0x80000000))).f[10], box_s(0x80000000), "fmin(+0,-0) = -0")
    check(run(hdr + "fmax.s fa0, fa0, fa1\nret", fa=(box_s(0), box_s(0x80000000))).f[10], box_s(0), "fmax(+0,-0) = +0")
    check(run(hdr + "fsgnjn.s fa0, fa0, fa0\nret", fa=(box_s(one),)).f[10], box_s(0xBF800000), "fneg via fsgnjn")
    check(run(hdr + "fmv.s fa0, fa1\nret", fa=(0, _d2b(1.5))).f[10], box_s(CANON_NAN_S), "fmv.s of a double loses it")
    check(run(hdr + "fmv.d fa0, fa1\nret", fa=(0, _d2b(1.5))).f[10], _d2b(1.5), "fmv.d")
    check(run(hdr + "fcvt.w.s a0, fa0\nret", fa=(box_s(0x3FC00000),)).x[10], 2, "fcvt.w.s 1.5 dyn=rne -> 2")
    check(run(hdr + "fcvt.w.s a0, fa0\nret", fa=(box_s(0x40200000),)).x[10], 2, "fcvt.w.s 2.5 rne -> 2")
    check(run(hdr + "fcvt.w.s a0, fa0, rtz\nret", fa=(box_s(0x3FC00000),)).x[10], 1, "fcvt.w.s 1.5 rtz -> 1")
    check(run(hdr + "fcvt.w.s a0, fa0, rtz\nret", fa=(box_s(0xBFC00000),)).x[10], M32, "fcvt.w.s -1.5 rtz -> -1")
    check(run(hdr + "fcvt.w.s a0, fa0\nret", fa=(box_s(0x7FC00000),)).x[10], 0x7FFFFFFF, "fcvt.w.s NaN")
    check(run(hdr + "fcvt.w.s a0, fa0\nret", fa=(box_s(0xFF800000),)).x[10], 0x80000000, "fcvt.w.s -inf")
    check(run(hdr + "fcvt.s.w fa0, a0\nret", a=0x01000001).f[10], box_s(0x4B800000), "fcvt.s.w rounds to even")
    check(run(hdr + "fcvt.d.w fa0, a0\nret", a=M32).f[10], _d2b(-1.0), "fcvt.d.w")
    check(run(hdr + "fmv.w.x fa0, a0\nret", a=one).f[10], box_s(one), "fmv.w.x boxes")
    check(run(hdr + "feq.s a0, fa0, fa1\nret", fa=(box_s(0x7FC00000), box_s(0x7FC00000))).x[10], 0, "feq NaN")
    check(run(hdr + "fle.s a0, fa0, fa1\nret", fa=(box_s(0x80000000), box_s(0))).x[10], 1, "-0 <= +0")
    check(run(hdr + "fmadd.d fa0, fa0, fa1, fa2\nret", fa=(_d2b(1.0 + 2.0 ** -30), _d2b(1.0 + 2.0 ** -30), _d2b(-(1.0 + 2.0 ** -29)))).f[10],
          _d2b(2.0 ** -60), "fmadd.d single rounding (unfused would give 0)")
    check(run(hdr + "li t0, 1073217536\nsw t0, -4(sp)\nsw zero, -8(sp)\nfld fa0, -8(sp)\nret").f[10], _d2b(1.5), "fld of two words")
    # parse errors
    for text, kind in ((hdr + "li , 2\nret", "not-a-register"), (hdr + "mul t0, t0, \nret", "not-a-register"),
                       (hdr + "mv j_1, a0\nret", "not-a-register"), (hdr + "addi a0, a0, 2048\nret", "immediate-out-of-range"),
                       (hdr + "slli a0, a0, 32\nret", "immediate-out-of-range"), (hdr + "li a0, 4294967296\nret", "immediate-out-of-range"),
                       (hdr + "j nowhere\nret", "unknown-label"), (hdr + "lw a0, 4096(sp)\nret", "immediate-out-of-range"),
                       (hdr + "fadd.s fa0, a0, fa1\nret", "not-a-register")):
        try:
            parse(text)
            fails.append(f"parse accepted {text!r}")
        except AsmError as e:
            check(e.kind, kind, f"parse error kind for {text!r}")
    try:
        parse(hdr + "csrrw a0, 1, a1\nret")
        fails.append("csrrw accepted")
    except Unmodelled as e:
        check(e.mnemonic, "csrrw", "unmodelled mnemonic")
    try:
        run(hdr + "j f")
        fails.append("infinite loop not stopped")
    except ExecError as e:
        check(e.kind, "step-limit", "step limit")
    try:
        run(hdr + "li ra, 12\nret")
        fails.append("wild return accepted")
    except ExecError as e:
        check(e.kind, "jump-to-invalid-address", "wild return")
    for f in fails:
        print("FAIL", f)
    print(f"rvmodel selftest: {'OK' if not fails else str(len(fails)) + ' failures'}")
    return len(fails)


if __name__ == "__main__":
    raise SystemExit(1 if selftest() else 0)
