"""Picklable, mergeable run statistics.  Workers build a Stats and return it; the
parent merges them.  Nothing here imports xdsl."""
from __future__ import annotations

from collections import Counter
from typing import Any

MAX_SAMPLES = 6
MAX_WITNESS_PER_SIG = 1


class Stats:
    def __init__(self) -> None:
        self.states = 0          # distinct states / distinct cases (after canonical de-dup)
        self.transitions = 0     # generator-tree edges / real API calls that were transitions
        self.executions = 0      # runs of the real implementation compared with the oracle
        self.evaluations = 0     # oracle comparisons made
        self.nontrivial = 0      # distinct non-trivial cases (rule stated by the property)
        self.outcomes: Counter[str] = Counter()   # observed outcome classes
        self.samples: list[Any] = []
        self.violations: dict[str, dict[str, Any]] = {}   # sig -> {what, witness, count}
        self.caps: list[str] = []                 # caps that were hit (⇒ not exhaustive)
        self.extra: dict[str, Any] = {}           # free-form counters (summed when ints)
        self.max_depth = 0

    # -- recording --------------------------------------------------------------
    def sample(self, obj: Any) -> None:
        if len(self.samples) < MAX_SAMPLES:
            self.samples.append(obj)

    def violate(self, sig: str, what: str, witness: Any) -> None:
        v = self.violations.get(sig)
        if v is None:
            self.violations[sig] = {"what": what, "witness": witness, "count": 1}
        else:
            v["count"] += 1

    def cap(self, text: str) -> None:
        if text not in self.caps:
            self.caps.append(text)

    def bump(self, key: str, n: int = 1) -> None:
        self.extra[key] = self.extra.get(key, 0) + n

    # -- merging ----------------------------------------------------------------
    def merge(self, o: "Stats") -> None:
        self.states += o.states
        self.transitions += o.transitions
        self.executions += o.executions
        self.evaluations += o.evaluations
        self.nontrivial += o.nontrivial
        self.outcomes.update(o.outcomes)
        self.max_depth = max(self.max_depth, o.max_depth)
        for s in o.samples:
            self.sample(s)
        for sig, v in o.violations.items():
            mine = self.violations.get(sig)
            if mine is None:
                self.violations[sig] = dict(v)
            else:
                mine["count"] += v["count"]
        for c in o.caps:
            self.cap(c)
        for k, v in o.extra.items():
            if isinstance(v, int) and isinstance(self.extra.get(k, 0), int):
                self.extra[k] = self.extra.get(k, 0) + v
            elif isinstance(v, dict):
                d = self.extra.setdefault(k, {})
                for kk, vv in v.items():
                    if isinstance(vv, int):
                        d[kk] = d.get(kk, 0) + vv
                    else:
                        d.setdefault(kk, vv)
            elif isinstance(v, list):
                self.extra.setdefault(k, [])
                for x in v:
                    if x not in self.extra[k]:
                        self.extra[k].append(x)
            else:
                self.extra.setdefault(k, v)
