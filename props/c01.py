"""C01 — IR edits keep the op/block/region tree and use-def chains consistent.

Explicit-state BFS over call histories: a state is the real IR forest reached by replaying a
history of public mutation calls on a freshly built seed; every object carries a stable label
(creation order).  A transition is ONE real API call; a call that raises is not a transition.
After every transition the independent invariant walker (mc/irinv.py) inspects the private
pointer fields of every live object.  States are de-duplicated on a labelled-shape key that
contains everything a later action or the oracle can observe.
"""
from __future__ import annotations

import collections
import hashlib
import itertools
from typing import Any

from mc.irinv import irinv, _chain
from mc.pool import pmap
from mc.stats import Stats


# ------------------------------------------------------------------ world
class World:
    def __init__(self) -> None:
        self.obj: dict[str, Any] = {}
        self.lab: dict[int, str] = {}
        self.n = {"o": 0, "b": 0, "r": 0}

    def _new(self, kind: str, x: Any) -> None:
        if id(x) in self.lab:
            return
        l = f"{kind}{self.n[kind]}"
        self.n[kind] += 1
        self.obj[l] = x
        self.lab[id(x)] = l

    def adopt(self, x: Any) -> None:
        """register x and everything below it, in deterministic pre-order"""
        from xdsl.ir import Block, Operation, Region

        if isinstance(x, Operation):
            self._new("o", x)
            for r in x.regions:
                self.adopt(r)
        elif isinstance(x, Block):
            self._new("b", x)
            for o in _chain(x._first_op, "_next_op")[0]:
                self.adopt(o)
        elif isinstance(x, Region):
            self._new("r", x)
            for b in _chain(x._first_block, "_next_block")[0]:
                self.adopt(b)

    def doomed(self, x: Any, deep: bool = True) -> list[Any]:
        """x and everything below it, collected BEFORE the erasing call (erasure unlinks lists)"""
        from xdsl.ir import Block, Operation, Region

        out = [x]
        if not deep:
            return out
        if isinstance(x, Operation):
            for r in x.regions:
                out += self.doomed(r)
        elif isinstance(x, Block):
            for o in _chain(x._first_op, "_next_op")[0]:
                out += self.doomed(o)
        elif isinstance(x, Region):
            for b in _chain(x._first_block, "_next_block")[0]:
                out += self.doomed(b)
        return out

    def bury(self, xs: list[Any]) -> None:
        self.dead = getattr(self, "dead", [])
        for x in xs:
            l = self.lab.pop(id(x), None)
            if l is not None:
                self.dead.append(self.obj.pop(l))  # keep alive so ids are not reused

    def L(self, x: Any) -> str:
        return self.lab.get(id(x), "?")

    def kind(self, k: str) -> list[tuple[str, Any]]:
        return sorted(((l, o) for l, o in self.obj.items() if l[0] == k), key=lambda t: int(t[0][1:]))

    def values(self) -> list[tuple]:
        out = []
        for l, o in self.kind("o"):
            for i in range(len(o.results)):
                out.append(("r", l, i))
        for l, b in self.kind("b"):
            for i in range(len(b._args)):
                out.append(("a", l, i))
        return out

    def val(self, d: tuple) -> Any:
        x = self.obj[d[1]]
        return x.results[d[2]] if d[0] == "r" else x._args[d[2]]

    def vdesc(self, v: Any) -> tuple:
        from xdsl.ir import BlockArgument, ErasedSSAValue, OpResult

        if isinstance(v, ErasedSSAValue):
            return ("erased",)
        if isinstance(v, OpResult):
            return ("r", self.L(v.op), v.index, v.op.results[v.index] is v if v.index < len(v.op.results) else False)
        if isinstance(v, BlockArgument):
            return ("a", self.L(v.block), v.index, v.index < len(v.block._args) and v.block._args[v.index] is v)
        return ("?",)


def tkey(t: Any) -> str:
    return type(t).__name__ + ":" + str(getattr(t, "width", "")) + str(getattr(getattr(t, "width", None), "data", ""))


def state_key(w: World) -> tuple:
    out = []
    for l, o in w.kind("o"):
        pos = None
        if o.parent is not None:
            lst = _chain(o.parent._first_op, "_next_op")[0]
            pos = next((i for i, x in enumerate(lst) if x is o), -1)
        out.append((l, w.L(o.parent) if o.parent is not None else None, pos,
                    tuple(w.vdesc(v) for v in o._operands), tuple(w.L(s) for s in o._successors),
                    tuple(tkey(r.type) for r in o.results), tuple(w.L(r) for r in o.regions)))
    for l, b in w.kind("b"):
        pos = None
        if b.parent is not None:
            lst = _chain(b.parent._first_block, "_next_block")[0]
            pos = next((i for i, x in enumerate(lst) if x is b), -1)
        out.append((l, w.L(b.parent) if b.parent is not None else None, pos, tuple(tkey(a.type) for a in b._args)))
    for l, r in w.kind("r"):
        out.append((l, w.L(r.parent) if r.parent is not None else None))
    return tuple(out)


# ------------------------------------------------------------------ seeds
def _ty():
    from xdsl.dialects.builtin import i32, i64

    return i32, i64


def seed_cfg() -> World:
    """top { ^b0(%a0): o1=op()->i32 ; o2=op(o1,a0) ; o3=term()[^b1] ; ^b1: o4=op(o1)->i32 ; o5=term() }
    pool: detached op with a result, detached block with one arg"""
    from xdsl.dialects.test import TestOp, TestTermOp
    from xdsl.ir import Block, Region

    i32, _ = _ty()
    b0 = Block(arg_types=[i32])
    b1 = Block()
    o1 = TestOp(result_types=[i32])
    o2 = TestOp(operands=[o1.results[0], b0.args[0]])
    o3 = TestTermOp(successors=[b1])
    b0.add_ops([o1, o2, o3])
    o4 = TestOp(operands=[o1.results[0]], result_types=[i32])
    o5 = TestTermOp()
    b1.add_ops([o4, o5])
    top = TestOp(regions=[Region([b0, b1])])
    w = World()
    w.adopt(top)
    w.adopt(TestOp(result_types=[i32]))
    w.adopt(Block(arg_types=[i32]))
    return w


def seed_nested() -> World:
    """top { ^b0: o1=op()->i32 ; o2=op(o1)->i32 { ^b1(%a): o3=op(o1,a) } ; o4=op(o2) }
    pool: detached op with an empty region, detached empty block"""
    from xdsl.dialects.test import TestOp
    from xdsl.ir import Block, Region

    i32, _ = _ty()
    o1 = TestOp(result_types=[i32])
    b1 = Block(arg_types=[i32])
    b1.add_op(TestOp(operands=[o1.results[0], b1.args[0]]))
    o2 = TestOp(operands=[o1.results[0]], result_types=[i32], regions=[Region([b1])])
    o4 = TestOp(operands=[o2.results[0]])
    top = TestOp(regions=[Region([Block([o1, o2, o4])])])
    w = World()
    w.adopt(top)
    w.adopt(TestOp(regions=[Region()]))
    w.adopt(Block())
    return w


def seed_pool() -> World:
    """top with an empty region; detached: p0=op()->i32, p1=op(p0), p2=op with empty region,
    an empty block, a block holding one op that uses p0, a detached region with one empty block"""
    from xdsl.dialects.test import TestOp
    from xdsl.ir import Block, Region

    i32, _ = _ty()
    top = TestOp(regions=[Region()])
    p0 = TestOp(result_types=[i32])
    p1 = TestOp(operands=[p0.results[0]])
    w = World()
    for x in (top, p0, p1, Block(), Block([TestOp(operands=[p0.results[0]])]), Region([Block()])):
        w.adopt(x)
    return w


def seed_three() -> World:
    """top { ^b0: o1=op()->i32 ; o2=op(o1)->i32 ; o3=op(o2,o1) ; ^b1 ; ^b2(%x): term()[^b1] }  pool: one detached op"""
    from xdsl.dialects.test import TestOp, TestTermOp
    from xdsl.ir import Block, Region

    i32, _ = _ty()
    o1 = TestOp(result_types=[i32])
    o2 = TestOp(operands=[o1.results[0]], result_types=[i32])
    o3 = TestOp(operands=[o2.results[0], o1.results[0]])
    b1 = Block()
    b2 = Block([TestTermOp(successors=[b1])], arg_types=[i32])
    top = TestOp(regions=[Region([Block([o1, o2, o3]), b1, b2])])
    w = World()
    w.adopt(top)
    w.adopt(TestOp(result_types=[i32]))
    return w


SEEDS = {"cfg": seed_cfg, "nested": seed_nested, "pool": seed_pool, "three": seed_three}


# ------------------------------------------------------------------ actions
def actions(w: World, rich: bool = True) -> list[tuple]:
    A: list[tuple] = []
    ops = w.kind("o")
    blocks = w.kind("b")
    regions = w.kind("r")
    vals = w.values()
    att = [(l, o) for l, o in ops if o.parent is not None]
    det = [(l, o) for l, o in ops if o.parent is None]
    att_b = [(l, b) for l, b in blocks if b.parent is not None]
    # ---- Block API
    for bl, _ in blocks:
        for ol, _ in ops:
            A.append(("Block.add_op", bl, ol))
    for nl, _ in ops:
        for el, _ in att:
            if nl != el:
                A.append(("Block.insert_op_before", nl, el))
                A.append(("Block.insert_op_after", nl, el))
    if len(det) >= 2:
        for (l1, _), (l2, _) in itertools.permutations(det[:3], 2):
            for el, _ in att:
                A.append(("Block.insert_ops_before", l1, l2, el))
                A.append(("Block.insert_ops_after", l1, l2, el))
            for bl, _ in blocks:
                A.append(("Block.add_ops", bl, l1, l2))
    for ol, _ in att:
        A.append(("Block.detach_op", ol))
        A.append(("Operation.detach", ol))
        A.append(("Block.erase_op", ol, True))
        A.append(("Block.erase_op", ol, False))
        A.append(("Block.split_before", ol))
    for bl, b in blocks:
        for i in range(len(b._args) + 1):
            A.append(("Block.insert_arg", bl, i))
        for i in range(len(b._args)):
            A.append(("Block.erase_arg", bl, i, True))
            A.append(("Block.erase_arg", bl, i, False))
        if b.parent is None:
            A.append(("Block.erase", bl, True))
            A.append(("Block.erase", bl, False))
    # ---- Region API
    for rl, r in regions:
        nblocks = len(_chain(r._first_block, "_next_block")[0])
        for bl, _ in blocks:
            A.append(("Region.add_block", rl, bl))
            for i in range(nblocks + 1):
                A.append(("Region.insert_block", rl, bl, i))
        for i in range(nblocks):
            A.append(("Region.detach_block_idx", rl, i))
        for rl2, _ in regions:
            if rl != rl2:
                A.append(("Region.move_blocks", rl, rl2))
        for tl, _ in att_b:
            A.append(("Region.move_blocks_before", rl, tl))
        if r.parent is None:
            A.append(("Region.erase", rl))
    for nl, _ in blocks:
        for tl, _ in att_b:
            if nl != tl:
                A.append(("Region.insert_block_before", nl, tl))
                A.append(("Region.insert_block_after", nl, tl))
    for bl, _ in att_b:
        A.append(("Region.detach_block", bl))
        A.append(("Region.erase_block", bl, True))
        A.append(("Region.erase_block", bl, False))
    # ---- Operation API
    for ol, o in ops:
        if o.parent is None:
            A.append(("Operation.erase", ol, True))
            A.append(("Operation.erase", ol, False))
        for rl, r in regions:
            if r.parent is None:
                A.append(("Operation.add_region", ol, rl))
        for i in range(len(o.regions)):
            A.append(("Operation.detach_region", ol, i))
        for i in range(len(o._operands)):
            for v in vals:
                A.append(("operands.setitem", ol, i, v))
        if len(o._operands) >= 2:
            # Python sequence protocol: a negative index addresses the same slot as len + index
            for v in vals[:2]:
                A.append(("operands.setitem", ol, -1, v))
                A.append(("operands.setitem", ol, -len(o._operands), v))
        A.append(("operands.set", ol, ()))
        if len(o._operands) >= 2:
            A.append(("operands.set", ol, "reversed"))
        for v in vals[:4]:
            A.append(("operands.set", ol, (v,)))
            if len(o._operands) >= 1:
                A.append(("operands.set", ol, ("keep", v)))
        for i in range(len(o._successors)):
            for bl, _ in blocks:
                A.append(("successors.setitem", ol, i, bl))
        if len(o._successors) >= 2:
            for bl, _ in blocks[:2]:
                A.append(("successors.setitem", ol, -1, bl))
        if len(o._successors):
            A.append(("successors.set", ol, ()))
        for bl, _ in blocks[:3]:
            A.append(("successors.set", ol, (bl,)))
        A.append(("Operation.clone", ol))
    # ---- SSAValue API
    for v1 in vals:
        for v2 in vals:
            if v1 != v2:
                A.append(("SSAValue.replace_all_uses_with", v1, v2))
                A.append(("SSAValue.replace_uses_with_if", v1, v2, "idx0"))
        A.append(("SSAValue.erase", v1, False))
        A.append(("Rewriter.replace_value_with_new_type", v1))
        A.append(("PR.replace_value_with_new_type", v1))
        A.append(("PR.replace_all_uses_with", v1, None))
    # ---- Rewriter
    ips = [("before", l) for l, _ in att] + [("after", l) for l, _ in att] + \
          [("start", l) for l, _ in blocks] + [("end", l) for l, _ in blocks]
    bips = [("before", l) for l, _ in att_b] + [("after", l) for l, _ in att_b] + \
           [("start", l) for l, _ in regions] + [("end", l) for l, _ in regions]
    for ol, o in ops:
        A.append(("Rewriter.erase_op", ol, True))
        A.append(("Rewriter.erase_op", ol, False))
        for ip in ips:
            A.append(("Rewriter.insert_op", ol, ip))
            if rich:
                A.append(("PR.insert", ol, ip))
        if o.parent is not None:
            A.append(("Rewriter.replace_op", ol, (), None, False))
            A.append(("PR.replace", ol, (), None, False))
            A.append(("PR.erase", ol, True))
            A.append(("PR.erase", ol, False))
            for nl, n in det:
                A.append(("Rewriter.replace_op", ol, (nl,), None, True))
                A.append(("Rewriter.replace_op", ol, (nl,), None, False))
                A.append(("PR.replace", ol, (nl,), None, True))
                A.append(("PR.replace", ol, (nl,), None, False))
                if len(o.results) == 1:
                    for v in vals[:4]:
                        A.append(("Rewriter.replace_op", ol, (nl,), (v,), True))
                        A.append(("PR.replace", ol, (nl,), (v,), True))
                    A.append(("Rewriter.replace_op", ol, (nl,), (None,), False))
                    A.append(("PR.replace", ol, (nl,), (None,), False))
    for bl, b in blocks:
        for ip in ips:
            A.append(("Rewriter.inline_block", bl, ip, ()))
            if rich:
                A.append(("PR.inline_block", bl, ip, ()))
            if len(b._args) == 1:
                for v in vals[:3]:
                    A.append(("Rewriter.inline_block", bl, ip, (v,)))
        for bip in bips:
            A.append(("Rewriter.insert_block", bl, bip))
        for i in range(len(b._args) + 1):
            A.append(("PR.insert_block_argument", bl, i))
        for i in range(len(b._args)):
            A.append(("PR.erase_block_argument", bl, i, True))
            A.append(("PR.erase_block_argument", bl, i, False))
    for rl, _ in regions:
        A.append(("Rewriter.move_region_contents_to_new_regions", rl))
        for bip in bips:
            A.append(("Rewriter.inline_region", rl, bip))
            if rich:
                A.append(("PR.inline_region", rl, bip))
    return A


def _ip(w: World, d: tuple):
    from xdsl.rewriter import InsertPoint

    k, l = d
    x = w.obj[l]
    return {"before": InsertPoint.before, "after": InsertPoint.after,
            "start": InsertPoint.at_start, "end": InsertPoint.at_end}[k](x)


def _bip(w: World, d: tuple):
    from xdsl.rewriter import BlockInsertPoint

    k, l = d
    x = w.obj[l]
    return {"before": BlockInsertPoint.before, "after": BlockInsertPoint.after,
            "start": BlockInsertPoint.at_start, "end": BlockInsertPoint.at_end}[k](x)


class Misuse(Exception):
    """call outside a documented precondition that the API does not check (never generated)"""


def _pr(w: World):
    """a PatternRewriter anchored at the first attached op (label order)"""
    from xdsl.pattern_rewriter import PatternRewriter

    for _, o in w.kind("o"):
        if o.parent is not None:
            return PatternRewriter(o)
    raise Misuse("no attached op to anchor a PatternRewriter")


def apply(w: World, a: tuple) -> None:
    from xdsl.rewriter import Rewriter

    i32, i64 = _ty()
    n = a[0]
    O = w.obj
    if n == "Block.add_op":
        O[a[1]].add_op(O[a[2]])
    elif n == "Block.add_ops":
        O[a[1]].add_ops([O[a[2]], O[a[3]]])
    elif n == "Block.insert_op_before":
        O[a[2]].parent.insert_op_before(O[a[1]], O[a[2]])
    elif n == "Block.insert_op_after":
        O[a[2]].parent.insert_op_after(O[a[1]], O[a[2]])
    elif n == "Block.insert_ops_before":
        O[a[3]].parent.insert_ops_before([O[a[1]], O[a[2]]], O[a[3]])
    elif n == "Block.insert_ops_after":
        O[a[3]].parent.insert_ops_after([O[a[1]], O[a[2]]], O[a[3]])
    elif n == "Block.detach_op":
        O[a[1]].parent.detach_op(O[a[1]])
    elif n == "Operation.detach":
        O[a[1]].detach()
    elif n == "Block.erase_op":
        o = O[a[1]]
        d = w.doomed(o)
        o.parent.erase_op(o, safe_erase=a[2])
        w.bury(d)
    elif n == "Block.split_before":
        o = O[a[1]]
        w.adopt(o.parent.split_before(o, arg_types=[i32]))
    elif n == "Block.insert_arg":
        O[a[1]].insert_arg(i32, a[2])
    elif n == "Block.erase_arg":
        b = O[a[1]]
        b.erase_arg(b._args[a[2]], safe_erase=a[3])
    elif n == "Block.erase":
        b = O[a[1]]
        d = w.doomed(b)
        b.erase(safe_erase=a[2])
        w.bury(d)
    elif n == "Region.add_block":
        O[a[1]].add_block(O[a[2]])
    elif n == "Region.insert_block":
        O[a[1]].insert_block(O[a[2]], a[3])
    elif n == "Region.insert_block_before":
        O[a[2]].parent.insert_block_before(O[a[1]], O[a[2]])
    elif n == "Region.insert_block_after":
        O[a[2]].parent.insert_block_after(O[a[1]], O[a[2]])
    elif n == "Region.detach_block":
        O[a[1]].parent.detach_block(O[a[1]])
    elif n == "Region.detach_block_idx":
        O[a[1]].detach_block(a[2])
    elif n == "Region.erase_block":
        b = O[a[1]]
        d = w.doomed(b)
        b.parent.erase_block(b, safe_erase=a[2])
        w.bury(d)
    elif n == "Region.move_blocks":
        src, dst = O[a[1]], O[a[2]]
        if src.is_ancestor(dst):
            raise Misuse("moving blocks into a region nested in them")
        src.move_blocks(dst)
    elif n == "Region.move_blocks_before":
        src, tgt = O[a[1]], O[a[2]]
        if src.is_ancestor(tgt):
            raise Misuse("moving blocks into a region nested in them")
        src.move_blocks_before(tgt)
    elif n == "Region.erase":
        r = O[a[1]]
        d = w.doomed(r)
        r.erase()
        w.bury(d)
    elif n == "Operation.erase":
        o = O[a[1]]
        d = w.doomed(o)
        o.erase(safe_erase=a[2])
        w.bury(d)
    elif n == "Operation.add_region":
        o, r = O[a[1]], O[a[2]]
        if r.is_ancestor(o):
            raise Misuse("adding to an op a region that contains it")
        o.add_region(r)
    elif n == "Operation.detach_region":
        O[a[1]].detach_region(a[2])
    elif n == "operands.setitem":
        O[a[1]].operands[a[2]] = w.val(a[3])
    elif n == "operands.set":
        o = O[a[1]]
        if a[2] == "reversed":
            o.operands = list(reversed(o._operands))
        elif len(a[2]) == 2 and a[2][0] == "keep":
            o.operands = list(o._operands) + [w.val(a[2][1])]
        else:
            o.operands = [w.val(v) for v in a[2]]
    elif n == "successors.setitem":
        O[a[1]].successors[a[2]] = O[a[3]]
    elif n == "successors.set":
        O[a[1]].successors = [O[b] for b in a[2]]
    elif n == "Operation.clone":
        w.adopt(O[a[1]].clone())
    elif n == "SSAValue.replace_all_uses_with":
        w.val(a[1]).replace_all_uses_with(w.val(a[2]))
    elif n == "SSAValue.replace_uses_with_if":
        w.val(a[1]).replace_uses_with_if(w.val(a[2]), lambda u: u.index == 0)
    elif n == "SSAValue.erase":
        w.val(a[1]).erase(safe_erase=a[2])
    elif n == "Rewriter.replace_value_with_new_type":
        Rewriter.replace_value_with_new_type(w.val(a[1]), i64)
    elif n == "PR.replace_value_with_new_type":
        _pr(w).replace_value_with_new_type(w.val(a[1]), i64)
    elif n == "PR.replace_all_uses_with":
        _pr(w).replace_all_uses_with(w.val(a[1]), None if a[2] is None else w.val(a[2]), safe_erase=False)
    elif n == "Rewriter.erase_op":
        o = O[a[1]]
        d = w.doomed(o)
        Rewriter.erase_op(o, safe_erase=a[2])
        w.bury(d)
    elif n == "PR.erase":
        o = O[a[1]]
        d = w.doomed(o)
        _pr(w).erase(o, safe_erase=a[2])
        w.bury(d)
    elif n in ("Rewriter.insert_op", "PR.insert"):
        (Rewriter.insert_op if n[0] == "R" else _pr(w).insert)(O[a[1]], _ip(w, a[2]))
    elif n in ("Rewriter.replace_op", "PR.replace"):
        o = O[a[1]]
        d = w.doomed(o)
        new_ops = [O[x] for x in a[2]]
        new_res = None if a[3] is None else [None if v is None else w.val(v) for v in a[3]]
        if n[0] == "R":
            Rewriter.replace_op(o, new_ops, new_res, safe_erase=a[4])
        else:
            _pr(w).replace(o, new_ops, new_res, safe_erase=a[4])
        w.bury(d)
    elif n in ("Rewriter.inline_block", "PR.inline_block"):
        b = O[a[1]]
        ip = _ip(w, a[2])
        if b is ip.block or b.is_ancestor(ip.block):
            raise Misuse("inlining a block into itself / its own contents")
        vals = [w.val(v) for v in a[3]]
        if n[0] == "R":
            Rewriter.inline_block(b, ip, vals)
        else:
            _pr(w).inline_block(b, ip, vals)
        w.bury([b])
    elif n == "Rewriter.insert_block":
        Rewriter.insert_block(O[a[1]], _bip(w, a[2]))
    elif n == "PR.insert_block_argument":
        _pr(w).insert_block_argument(O[a[1]], a[2], i32)
    elif n == "PR.erase_block_argument":
        b = O[a[1]]
        _pr(w).erase_block_argument(b._args[a[2]], safe_erase=a[3])
    elif n == "Rewriter.move_region_contents_to_new_regions":
        w.adopt(Rewriter.move_region_contents_to_new_regions(O[a[1]]))
    elif n in ("Rewriter.inline_region", "PR.inline_region"):
        r = O[a[1]]
        bip = _bip(w, a[2])
        if r is bip.region or r.is_ancestor(bip.region):
            raise Misuse("inlining a region into itself / its own contents")
        (Rewriter.inline_region if n[0] == "R" else _pr(w).inline_region)(r, bip)
    else:
        raise AssertionError(a)


# ------------------------------------------------------------------ exploration
def build(seed: str, hist: tuple) -> World:
    w = SEEDS[seed]()
    for a in hist:
        apply(w, a)
    return w


def jsonable(x):
    if isinstance(x, tuple):
        return [jsonable(y) for y in x]
    return x


def untuple(x):
    if isinstance(x, list):
        return tuple(untuple(y) for y in x)
    return x


def check_state(st: Stats, w: World, seed: str, hist: tuple) -> bool:
    errs = irinv(list(w.obj.values()), name=w.L)
    st.evaluations += 1
    if errs:
        kind = errs[0][0]
        st.violate(f"C01|{hist[-1][0]}|{kind}", f"after {hist[-1][0]}: {errs[0][1]}",
                   {"seed": seed, "history": jsonable(hist), "problems": [e[1] for e in errs[:5]]})
        return False
    return True


def expand(arg) -> tuple[Stats, list]:
    """expand a chunk of frontier histories by one step; returns new (key-hash, history) pairs"""
    seed, hists, last, rich = arg
    st = Stats()
    out = []
    for hist in hists:
        base = build(seed, hist)
        for a in actions(base, rich):
            w = build(seed, hist)
            try:
                apply(w, a)
            except Misuse:
                st.bump("precondition_excluded")
                continue
            except Exception as e:  # noqa: BLE001 - a raising call is not a transition
                st.bump("raising_calls")
                st.outcomes[f"raise:{type(e).__name__}"] += 1
                continue
            st.transitions += 1
            st.executions += 1
            h2 = hist + (a,)
            st.outcomes[a[0]] += 1
            if not check_state(st, w, seed, h2):
                continue  # broken states are reported, not expanded
            out.append((hash((seed, state_key(w))), None if last else h2))
    return st, out


def chunks(xs, n):
    for i in range(0, len(xs), n):
        yield xs[i:i + n]


def run(ctx):
    depth = 2 if ctx.quick else 3
    total_states = 0
    frontier_sizes = {}
    for seed in SEEDS:
        w = SEEDS[seed]()
        errs = irinv(list(w.obj.values()), name=w.L)
        ctx.stats.executions += 1
        if errs:  # the seed is itself a history of constructor / add_op / add_block calls
            ctx.stats.violate(f"C01|seed-construction|{errs[0][0]}", f"building seed {seed} with constructors: {errs[0][1]}",
                              {"seed": seed, "history": [], "problems": [e[1] for e in errs[:5]]})
            continue
        seen = {hash((seed, state_key(w)))}
        frontier = [()]
        for level in range(1, depth + 1):
            last = level == depth
            size = 1 if level == 1 else max(1, min(50, len(frontier) // 64))
            tasks = [(seed, c, last, True) for c in chunks(frontier, size)]
            if level == 1:
                # shard the first level by action instead (one history, many actions)
                tasks = [(seed, [()], last, True)]
            nxt = []
            for _, (st, out) in pmap(expand, tasks):
                ctx.merge(st)
                for k, h in out:
                    if k not in seen:
                        seen.add(k)
                        if h is not None:
                            nxt.append(h)
            nxt.sort(key=repr)
            frontier = nxt
            frontier_sizes[f"{seed}:level{level}"] = len(nxt)
            if nxt or last:
                ctx.stats.max_depth = max(ctx.stats.max_depth, level)
            if nxt:
                ctx.stats.sample({"seed": seed, "history": jsonable(nxt[(ctx.seed * 7919 + 13) % len(nxt)])})
        total_states += len(seen)
    ctx.stats.states = total_states
    ctx.stats.nontrivial = total_states - len(SEEDS)
    ctx.bounds = {"depth": depth, "seeds": list(SEEDS), "frontiers": frontier_sizes}
    ctx.rule = ("layered BFS over all histories of public IR-mutation calls (Block/Region/Operation/SSAValue/Rewriter/PatternRewriter) "
                f"up to depth {depth} from {len(SEEDS)} seed forests; every label tuple that type-checks is tried, raising calls are "
                "not transitions; states are keyed on a labelled shape; non-trivial = distinct reached non-initial state")
    ctx.assumptions = ["mc/irinv.py states the invariant of the property", "erased objects leave the universe",
                       "calls outside documented-but-unchecked preconditions (moving/inlining a container into its own contents) are not generated"]


def replay(rep) -> bool:
    wit = rep["witness"]
    hist = untuple(wit["history"])
    st = Stats()
    try:
        w = build(wit["seed"], hist)
    except Exception:  # noqa: BLE001
        return True
    return check_state(st, w, wit["seed"], hist)
