"""C02 — cloning yields an independent equivalent copy and leaves other IR untouched.

Every forest of the bounded enumerator (multi-block regions, forward references, own-result
uses, values of enclosing/nested regions, one EXTERNAL value defined outside the cloned part) is
cloned through every entry point: Region.clone, Region.clone_into(dest, index) for three
destinations (empty / one block with a def-use pair / two blocks with a branch) and every index,
Operation.clone and clone_without_regions for every op of the forest, with the name-hint and
operand flags.  Oracles (all through mc/canon.py + mc/irinv.py, never is_structurally_equivalent):
 source unchanged; pre-existing destination IR unchanged and at the right positions; copy has
 the canonical form of the source where inner references are positional (=> point into the
 copy) and outer references are the identical outer object; copy shares no object with the
 source; returned mappers map positionally; structural invariant on everything;
 independence: every single follow-up edit (the C01 action alphabet restricted to objects of
 one side, plus attribute/property dictionary writes) leaves the other side's canon unchanged;
 ModulePass.apply_to_clone leaves the original module unchanged.
"""
from __future__ import annotations

from typing import Any

from mc import irgen
from mc.canon import canon
from mc.irinv import irinv
from mc.irgen import Kind
from mc.pool import pmap
from mc.stats import Stats

K = (
    Kind("def", 0, 1),
    Kind("use1", 1, 1),
    Kind("use2", 2, 0),
    Kind("term", 0, 0, terminator=True),
    Kind("br", 0, 0, n_succ=1, terminator=True),
    Kind("reg", 0, 1, region=True),
    Kind("attrprop", 0, 1, attr="x", prop="p"),
)
# second alphabet: ops with several operands AND results, so that one op can use its own results (graph regions) at several
# operand positions; every wiring over {own results, other op's results, external value}
K2 = (
    Kind("def", 0, 1),
    Kind("use2r", 2, 1),
    Kind("use2r2", 2, 2),
)
KINDS = {"K": K, "K2": K2}
_CUR = ["K"]


def all_objects(region) -> tuple[list, list, list, list]:
    ops, blocks, regions, values = [], [], [region], []

    def walk_region(r):
        for b in r.blocks:
            blocks.append(b)
            values.extend(b.args)
            for o in b.ops:
                walk_op(o)

    def walk_op(o):
        ops.append(o)
        values.extend(o.results)
        for r in o.regions:
            regions.append(r)
            walk_region(r)

    walk_region(region)
    return ops, blocks, regions, values


def op_objects(op):
    from xdsl.ir import Region

    ops, blocks, regions, values = [op], [], [], list(op.results)
    for r in op.regions:
        o2, b2, r2, v2 = all_objects(r)
        ops += o2
        blocks += b2
        regions += r2
        values += v2
    return ops, blocks, regions, values


def make_dest(kind: int):
    from xdsl.dialects.builtin import i32
    from xdsl.dialects.test import TestOp, TestTermOp
    from xdsl.ir import Block, Region

    if kind == 0:
        return Region()
    if kind == 1:
        d = TestOp(result_types=[i32])
        d.results[0].name_hint = "d"
        return Region([Block([d, TestOp(operands=[d.results[0]])])])
    b1 = Block(arg_types=[i32])
    d = TestOp(result_types=[i32])
    b1.add_ops([d, TestOp(operands=[d.results[0], b1.args[0]])])
    b0 = Block([TestTermOp(successors=[b1])])
    return Region([b0, b1])


def set_hints(built) -> None:
    for i, v in enumerate(built.values):
        if i % 2 == 0:
            v.name_hint = f"h{i}"
    for i, b in enumerate(built.blocks):
        if i % 2 == 1:
            b.name_hint = f"blk{i}"


def build_case(desc):
    """source region (inside a wrapping op) + one external value"""
    from xdsl.dialects.builtin import i32
    from xdsl.dialects.test import TestOp

    ext_op = TestOp(result_types=[i32])
    src = irgen.build_region(desc, KINDS[_CUR[0]], ext=[ext_op.results[0]])
    set_hints(src)
    holder = TestOp(regions=[src.region])
    return ext_op, src, holder


def ident(xs) -> set[int]:
    return {id(x) for x in xs}


def check_copy(st: Stats, what: str, wit: dict, src_roots, copy_roots, src_objs, copy_objs, before, hints: bool,
               operands: bool) -> bool:
    ok = True
    after = canon(src_roots, hints=True)
    st.evaluations += 1
    if after != before:
        st.violate(f"C02|{what}|source-modified", f"{what} modified the source IR", wit)
        ok = False
    shared = [k for a, b, k in zip(src_objs, copy_objs, ("ops", "blocks", "regions", "values")) if ident(a) & ident(b)]
    if shared:
        st.violate(f"C02|{what}|shares-{shared[0]}", f"copy made by {what} shares {shared[0]} objects with the source", wit)
        ok = False
    if operands:
        # name hints are not part of IR equivalence (C03's definition); they are only checked for the
        # documented clone_name_hints=False behaviour below
        cs, cc = canon(src_roots), canon(copy_roots)
        st.evaluations += 1
        if cs != cc:
            st.violate(f"C02|{what}|copy-differs|hints={hints}", f"copy made by {what} is not equivalent to the source "
                       "(inner references must point into the copy, outer ones stay identical)", wit)
            ok = False
        if not hints:
            # clone_name_hints=False: the copy must not carry hints
            if any(v.name_hint is not None for v in copy_objs[3]):
                st.violate(f"C02|{what}|hints-copied", "clone_name_hints=False still copied value name hints", wit)
                ok = False
    else:
        if any(len(o._operands) for o in copy_objs[0]):
            st.violate(f"C02|{what}|operands-cloned", "clone_operands=False produced operands", wit)
            ok = False
        if [o.name for o in copy_objs[0]] != [o.name for o in src_objs[0]]:
            st.violate(f"C02|{what}|shape", "clone_operands=False copy has a different op sequence", wit)
            ok = False
    return ok


def inv(st: Stats, what: str, wit: dict, roots) -> None:
    errs = irinv(roots)
    st.evaluations += 1
    if errs:
        st.violate(f"C02|{what}|invariant|{errs[0][0]}", f"after {what}: {errs[0][1]}", wit)


def check_desc(st: Stats, desc: tuple, deep: bool) -> None:
    from xdsl.ir import Region

    st.states += 1
    nontriv = False
    # ---------------- Region.clone / clone_into
    for dest_kind in (None, 0, 1, 2):
        ndest = {None: 0, 0: 0, 1: 1, 2: 2}[dest_kind]
        idxs = [None] if dest_kind is None else [None] + list(range(ndest + 1))
        for idx in idxs:
            for hints, operands in ((True, True), (False, True), (True, False)):
                if (dest_kind not in (None, 1)) and not (hints and operands):
                    continue
                ext_op, src, holder = build_case(desc)
                src_objs = all_objects(src.region)
                before = canon([holder], hints=True)
                wit = {"desc": desc, "kinds": _CUR[0], "entry": "Region.clone" if dest_kind is None else "Region.clone_into",
                       "dest": dest_kind, "index": idx, "clone_name_hints": hints, "clone_operands": operands}
                what = "Region.clone" if dest_kind is None else f"Region.clone_into|dest={dest_kind}"
                st.transitions += 1
                st.executions += 1
                if dest_kind is None:
                    if not (hints and operands):
                        continue
                    try:
                        copy = src.region.clone()
                    except Exception as e:  # noqa: BLE001
                        st.violate(f"C02|{what}|raises|{type(e).__name__}", f"{what} raised {type(e).__name__}: {e}", wit)
                        continue
                    new_blocks = list(copy.blocks)
                    dest_old, dest_old_canon, dest = [], None, copy
                    vm = bm = None
                else:
                    dest = make_dest(dest_kind)
                    dest_old = list(dest.blocks)
                    dest_old_canon = [canon([b], hints=True) for b in dest_old]
                    dest_region_canon = canon(dest, hints=True)
                    vm, bm = {}, {}
                    try:
                        src.region.clone_into(dest, idx, vm, bm, clone_name_hints=hints, clone_operands=operands)
                    except Exception as e:  # noqa: BLE001
                        st.violate(f"C02|{what}|raises|{type(e).__name__}", f"{what} raised {type(e).__name__}: {e}", wit)
                        continue
                    now = list(dest.blocks)
                    at = len(dest_old) if idx is None else idx
                    n_new = len(src.region.blocks)
                    expect_old = now[:at] + now[at + n_new:]
                    st.evaluations += 1
                    if [id(b) for b in expect_old] != [id(b) for b in dest_old] or len(now) != len(dest_old) + n_new:
                        st.violate(f"C02|{what}|dest-positions", "blocks already in the destination are not where they were "
                                   "around the inserted clones", wit)
                        continue
                    new_blocks = now[at:at + n_new]
                    # pre-existing destination IR untouched.  Compare the old blocks as one forest so that
                    # branches between them stay positional.
                    if dest_old:
                        tmp_before = dest_region_canon
                        # canon of the old blocks inside dest now: rebuild a view = forest of old blocks
                        c_now = canon(dest_old, hints=True)
                        d2 = make_dest(dest_kind)
                        c_ref = canon(list(d2.blocks), hints=True)
                        st.evaluations += 1
                        if c_now != c_ref:
                            st.violate(f"C02|{what}|dest-modified", "IR already present in the destination was modified", wit)
                copy_ops, copy_blocks, copy_values = [], list(new_blocks), []
                copy_regions: list[Any] = []
                for b in new_blocks:
                    copy_values.extend(b.args)
                    for o in b.ops:
                        o2, b2, r2, v2 = op_objects(o)
                        copy_ops += o2
                        copy_blocks += b2
                        copy_regions += r2
                        copy_values += v2
                ok = check_copy(st, what, wit, list(src.region.blocks), new_blocks,
                                (src_objs[0], src_objs[1], src_objs[2][1:], src_objs[3]),
                                (copy_ops, copy_blocks, copy_regions, copy_values), canon(list(src.region.blocks), hints=True)
                                if False else canon(list(src.region.blocks), hints=True), hints, operands)
                # the source as a whole (holder) unchanged
                st.evaluations += 1
                if canon([holder], hints=True) != before:
                    st.violate(f"C02|{what}|source-modified", f"{what} modified the source IR", wit)
                    ok = False
                if vm is not None and operands and ok:
                    st.evaluations += 1
                    if any(vm.get(s) is not c for s, c in zip(src_objs[3], copy_values)) or \
                            any(bm.get(s) is not c for s, c in zip(src.region.blocks, new_blocks)):
                        st.violate(f"C02|{what}|mapper", "returned value/block mapper does not map source to copy positionally", wit)
                inv(st, what, wit, [holder, dest, ext_op])
                st.outcomes[what] += 1
                nontriv = nontriv or len(src_objs[0]) >= 2
                if deep and ok and operands and hints and dest_kind in (None, 1) and idx in (None, 0):
                    independence(st, desc, dest_kind, idx)
    # ---------------- Operation.clone / clone_without_regions for every op
    ext_op, src, holder = build_case(desc)
    nops = len(src.ops)
    for oi in range(nops):
        for entry in ("Operation.clone", "Operation.clone_without_regions"):
            for hints, operands in ((True, True), (False, True), (True, False)):
                ext_op, src, holder = build_case(desc)
                op = src.ops[oi]
                before = canon([holder], hints=True)
                wit = {"desc": desc, "kinds": _CUR[0], "entry": entry, "op_index": oi, "clone_name_hints": hints, "clone_operands": operands}
                st.transitions += 1
                st.executions += 1
                vm, bm = {}, {}
                try:
                    if entry == "Operation.clone":
                        c = op.clone(vm, bm, clone_name_hints=hints, clone_operands=operands)
                    else:
                        c = op.clone_without_regions(vm, bm, clone_name_hints=hints, clone_operands=operands)
                except Exception as e:  # noqa: BLE001
                    st.violate(f"C02|{entry}|raises|{type(e).__name__}", f"{entry} raised {type(e).__name__}: {e}", wit)
                    continue
                st.evaluations += 1
                if canon([holder], hints=True) != before:
                    st.violate(f"C02|{entry}|source-modified", f"{entry} modified the source IR", wit)
                    continue
                if c.parent is not None:
                    st.violate(f"C02|{entry}|attached", "the clone is attached somewhere", wit)
                if entry == "Operation.clone":
                    check_copy(st, entry, wit, [op], [c], op_objects(op), op_objects(c), canon([op], hints=True), hints, operands)
                else:
                    # same op with EMPTY regions: name, attrs, props, result types, successors; operands mapped
                    st.evaluations += 1
                    if c.name != op.name or len(c.regions) != len(op.regions) or any(len(r.blocks) for r in c.regions):
                        st.violate(f"C02|{entry}|shape", "clone_without_regions: wrong name / region count / non-empty regions", wit)
                    elif operands:
                        a = canon([op])[0]
                        b = canon([c])[0]
                        # compare everything except the regions field (last); operands of `op` that are defined in its
                        # own regions cannot be mapped (they have no copy): skip those cases
                        own = ident(op_objects(op)[3]) - ident(op.results)
                        if not any(id(v) in own for v in op._operands):
                            if a[:7] != b[:7]:
                                st.violate(f"C02|{entry}|copy-differs|hints={hints}", "clone_without_regions copy differs from the source op", wit)
                    if ident(c.results) & ident(op.results):
                        st.violate(f"C02|{entry}|shares-values", "clone shares result objects with the source", wit)
                # dictionaries must not be shared
                st.evaluations += 1
                if c.attributes is op.attributes or c.properties is op.properties:
                    st.violate(f"C02|{entry}|shared-dict", "clone shares its attribute/property dictionary with the source", wit)
                inv(st, entry, wit, [holder, c, ext_op])
                st.outcomes[entry] += 1
    if nontriv:
        st.nontrivial += 1


def independence(st: Stats, desc, dest_kind, idx) -> None:
    """every single C01-alphabet edit applied to objects of the copy only must leave canon(source) unchanged, and vice versa"""
    from props import c01
    from xdsl.dialects.builtin import StringAttr
    from xdsl.dialects.test import TestOp

    def fresh():
        ext_op, src, holder = build_case(desc)
        if dest_kind is None:
            copy = src.region.clone()
        else:
            copy = make_dest(dest_kind)
            src.region.clone_into(copy, idx)
        cholder = TestOp(regions=[copy])
        w = c01.World()
        w.adopt(holder)
        n_src = dict(w.n)
        src_labels = set(w.obj)
        w.adopt(cholder)
        copy_labels = set(w.obj) - src_labels
        w.adopt(ext_op)
        return w, holder, cholder, src_labels, copy_labels

    def labels_of(a) -> set[str]:
        out = set()

        def rec(x):
            if isinstance(x, str) and len(x) >= 2 and x[0] in "obr" and x[1:].isdigit():
                out.add(x)
            elif isinstance(x, tuple):
                for y in x:
                    rec(y)
        rec(a[1:])
        return out

    w0, holder0, cholder0, src_labels, copy_labels = fresh()
    acts = c01.actions(w0, rich=False)
    for side, mine, other_holder_idx in (("copy", copy_labels, 0), ("source", src_labels, 1)):
        for a in acts:
            ls = labels_of(a)
            if not ls or not ls <= mine:
                continue
            if a[0] in ("Operation.clone",):
                continue
            w, holder, cholder, _, _ = fresh()
            other = holder if side == "copy" else cholder
            before = canon([other], hints=True)
            try:
                c01.apply(w, a)
            except Exception:  # noqa: BLE001  (raising / precondition-excluded calls are not edits)
                continue
            st.transitions += 1
            st.executions += 1
            if canon([other], hints=True) != before:
                st.violate(f"C02|independence|edit-{side}|{a[0]}", f"editing the {side} with {a[0]} changed the other side",
                           {"desc": desc, "kinds": _CUR[0], "dest": dest_kind, "index": idx, "edit": c01.jsonable(a), "side": side})
    # dictionary writes
    for side in ("copy", "source"):
        w, holder, cholder, _, _ = fresh()
        mine, other = (cholder, holder) if side == "copy" else (holder, cholder)
        before = canon([other], hints=True)
        for op in list(mine.regions[0].walk()):
            op.attributes["z"] = StringAttr("z")
            op.properties["prop2"] = StringAttr("z")
            for r in op.results:
                r.name_hint = "zz"
        st.executions += 1
        if canon([other], hints=True) != before:
            st.violate(f"C02|independence|edit-{side}|dict-write", f"writing attributes/properties/hints of the {side} changed the other side",
                       {"desc": desc, "kinds": _CUR[0], "dest": dest_kind, "index": idx, "side": side})


def pass_on_clone(st: Stats, desc) -> None:
    from xdsl.context import Context
    from xdsl.dialects.builtin import Builtin, ModuleOp
    from xdsl.dialects.test import Test, TestOp
    from xdsl.transforms.canonicalize import CanonicalizePass
    from xdsl.transforms.common_subexpression_elimination import CommonSubexpressionElimination
    from xdsl.transforms.dead_code_elimination import DeadCodeElimination

    ctx = Context()
    ctx.load_dialect(Builtin)
    ctx.load_dialect(Test)
    for P in (CanonicalizePass, CommonSubexpressionElimination, DeadCodeElimination):
        b = irgen.build_region(desc, K, ext=[])
        m = ModuleOp([TestOp(regions=[b.region])])
        before = canon([m], hints=True)
        try:
            _, m2 = P().apply_to_clone(ctx, m)
        except Exception:  # noqa: BLE001
            st.outcomes[f"pass-raised:{P.name}"] += 1
            m2 = None
        st.executions += 1
        if canon([m], hints=True) != before:
            st.violate(f"C02|apply_to_clone|{P.name}|original-modified", f"apply_to_clone({P.name}) modified the original module", {"desc": desc, "kinds": _CUR[0]})
        if m2 is not None and m2 is m:
            st.violate(f"C02|apply_to_clone|{P.name}|same-object", "apply_to_clone returned the original module", {"desc": desc, "kinds": _CUR[0]})
        st.outcomes[f"pass:{P.name}:{'changed' if m2 is not None and canon([m2], hints=True) != before else 'same'}"] += 1


def _shard(arg) -> Stats:
    bounds, n_ext, shard, nshards, deep_every, seed = arg
    st = Stats()
    bounds = dict(bounds)
    _CUR[0] = bounds.pop("kinds", "K")
    for i, desc in enumerate(irgen.enumerate_regions(KINDS[_CUR[0]], n_ext=n_ext, **bounds)):
        if i % nshards != shard:
            continue
        check_desc(st, desc, deep=((i // nshards) % deep_every == 0))   # spread the deep cases evenly over the shards
        if n_ext == 0 and _CUR[0] == "K":
            pass_on_clone(st, desc)
        if (i + seed) % 2003 == 0:
            st.sample({"desc": desc, "kinds": _CUR[0]})
    return st


def check_special_shapes(st: Stats) -> None:
    """hand-built shapes outside the enumerator's alphabet, every entry point x flag combination:
    (A) one value_mapper / block_mapper REUSED for two clones of the same op / region (as loop unrolling does): the second
        copy must refer to ITS OWN values; (B) an op with two regions where the first uses a value defined in the second;
    (C) an op whose own operand is defined inside its own region.  Source use counts must be unchanged."""
    from xdsl.dialects.builtin import i32
    from xdsl.dialects.test import TestOp
    from xdsl.ir import Block, Region

    def uses(v):
        return sum(1 for _ in v.uses)

    for hints in (True, False):
        # (A1) op using its own result, cloned twice through one mapper
        x = TestOp(result_types=[i32])
        y = TestOp(operands=[x.results[0]], result_types=[i32])
        blk = Block([x, y])
        y.operands = [y.results[0]]
        src_uses = uses(y.results[0])
        vm: dict = {}
        c1 = y.clone_without_regions(vm, clone_name_hints=hints)
        c2 = y.clone_without_regions(vm, clone_name_hints=hints)
        st.executions += 2
        st.states += 1
        for k, c in (("first", c1), ("second", c2)):
            if c.operands[0] is not c.results[0]:
                st.violate(f"C02|special|mapper-reused|clone_without_regions|{k}-copy-refers-elsewhere|hints={hints}",
                           f"with one value_mapper reused for two clones, the {k} copy's self-use does not refer to its own result", {"shape": "A1", "hints": hints})
        if uses(y.results[0]) != src_uses:
            st.violate(f"C02|special|mapper-reused|clone_without_regions|source-uses-changed|hints={hints}", "cloning changed the use list of the source", {"shape": "A1"})
        del blk
        # (A2) region {d = def; u = use(d)} cloned twice into two destinations through the same mappers
        d = TestOp(result_types=[i32])
        u = TestOp(operands=[d.results[0]], result_types=[i32])
        src = Region(Block([d, u], arg_types=[i32]))
        u2 = TestOp(operands=[src.block.args[0]])
        src.block.add_op(u2)
        vm, bm = {}, {}
        dests = [Region(), Region()]
        for dst in dests:
            src.clone_into(dst, None, vm, bm, clone_name_hints=hints)
        st.executions += 2
        st.states += 1
        for k, dst in zip(("first", "second"), dests):
            ops = list(dst.block.ops)
            if ops[1].operands[0] is not ops[0].results[0] or ops[2].operands[0] is not dst.block.args[0]:
                st.violate(f"C02|special|mapper-reused|Region.clone_into|{k}-copy-refers-elsewhere|hints={hints}",
                           f"with the same mappers reused for two clones, the {k} copy refers to values outside itself", {"shape": "A2", "hints": hints})
        if uses(d.results[0]) != 1 or uses(src.block.args[0]) != 1:
            st.violate(f"C02|special|mapper-reused|Region.clone_into|source-uses-changed|hints={hints}", "cloning changed the use lists of the source", {"shape": "A2"})
        # (B) two regions, the first uses a value defined in the second
        v = TestOp(result_types=[i32])
        w = TestOp(operands=[v.results[0]])
        outer = TestOp(regions=[Region(Block([w])), Region(Block([v]))])
        holder = Block([outer])
        c = outer.clone(clone_name_hints=hints)
        st.executions += 1
        st.states += 1
        cw, cv = list(c.regions[0].block.ops)[0], list(c.regions[1].block.ops)[0]
        if cw.operands[0] is not cv.results[0]:
            st.violate(f"C02|special|cross-region-forward-use|Operation.clone|copy-refers-to-source|hints={hints}",
                       "the copy of an op whose first region uses a value of its second region still refers to the source value", {"shape": "B", "hints": hints})
        if uses(v.results[0]) != 1:
            st.violate(f"C02|special|cross-region-forward-use|Operation.clone|source-uses-changed|hints={hints}", "cloning added a use to a source value", {"shape": "B"})
        del holder
        # (C) an op whose operand is defined inside its own region
        v = TestOp(result_types=[i32])
        p = TestOp(operands=[v.results[0]], regions=[Region(Block([v]))])
        holder = Block([p])
        c = p.clone(clone_name_hints=hints)
        st.executions += 1
        st.states += 1
        cv = list(c.regions[0].block.ops)[0]
        if c.operands[0] is not cv.results[0]:
            st.violate(f"C02|special|operand-defined-in-own-region|Operation.clone|copy-refers-to-source|hints={hints}",
                       "the copy of an op whose operand is defined inside its own region still uses the source value", {"shape": "C", "hints": hints})
        if uses(v.results[0]) != 1:
            st.violate(f"C02|special|operand-defined-in-own-region|Operation.clone|source-uses-changed|hints={hints}", "cloning added a use to a source value", {"shape": "C"})
        del holder
    st.outcomes["special-shapes"] += 1


def run(ctx):
    check_special_shapes(ctx.stats)
    if ctx.quick:
        spaces = [(dict(max_blocks=2, max_ops=2, max_args=1, depth=1), 1, 64), (dict(max_blocks=1, max_ops=3, max_args=0, depth=1), 0, 64),
                  (dict(kinds="K2", max_blocks=1, max_ops=2, max_args=0, depth=0, need_term=False), 1, 16)]
    else:
        spaces = [(dict(max_blocks=2, max_ops=3, max_args=1, depth=1), 1, 64), (dict(max_blocks=2, max_ops=2, max_args=1, depth=1), 1, 4),
                  (dict(kinds="K2", max_blocks=1, max_ops=2, max_args=1, depth=0, need_term=False), 1, 4)]
    n = 64
    tasks = [(sp, n_ext, i, n, deep_every, ctx.seed) for sp, n_ext, deep_every in spaces for i in range(n)]
    for _, st in pmap(_shard, tasks):
        ctx.merge(st)
    ctx.bounds = {"spaces": [[s[0], {"external_values": s[1], "independence_on_every_kth_forest": s[2]}] for s in spaces]}
    ctx.rule = ("every forest of the bounded enumerator x every clone entry point (Region.clone, clone_into x 3 destinations x every "
                "index, Operation.clone / clone_without_regions for every op) x flag combinations; independence = every single edit of "
                "the C01 alphabet on one side; states = forests, transitions = clone calls + follow-up edits; non-trivial = forest with >= 2 ops")
    ctx.assumptions = ["mc/canon.py canonical form (inner references positional, outer by identity)", "mc/irinv.py"]


def replay(rep) -> bool:
    def tup(x):
        return tuple(tup(y) for y in x) if isinstance(x, list) else x
    st = Stats()
    if "shape" in rep["witness"]:
        check_special_shapes(st)
        return rep["signature"] not in st.violations
    desc = tup(rep["witness"]["desc"])
    _CUR[0] = rep["witness"].get("kinds", "K")
    check_desc(st, desc, deep=True)
    has_ext = "('x'" in repr(desc)
    if not has_ext:
        pass_on_clone(st, desc)
    return rep["signature"] not in st.violations
