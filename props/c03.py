"""C03 — structural equivalence holds exactly for isomorphic IR.

Pairs drawn from the bounded IR enumerator (mc/irgen.py): (x, independently rebuilt twin of x),
(x, clone of x), (x, x), (x, m(x)) and (m(x), x) for EVERY single-point mutation m of every
enumerated forest (result type, attribute, property, op name, operand rewiring, successor
retargeting, block-argument count/type, op / block order, added / dropped op), and in the thorough
tier all cross pairs of the small forests.  Oracle: is_structurally_equivalent(x, y) ==
(canon(x) == canon(y)) with mc/canon.py, in both argument orders; the same on Region, Block and
wrapping Operation level.  CSE's OperationInfo equality/hash is compared with canon on op pairs.
"""
from __future__ import annotations

import itertools
from typing import Any, Iterator

from mc import irgen
from mc.canon import canon
from mc.irgen import Kind
from mc.pool import pmap
from mc.stats import Stats

K = (
    Kind("def", 0, 1),                       # 0
    Kind("use1", 1, 1),                      # 1
    Kind("use2", 2, 0),                      # 2
    Kind("term", 0, 0, terminator=True),     # 3
    Kind("br", 0, 0, n_succ=1, terminator=True),   # 4
    Kind("cbr", 1, 0, n_succ=2, terminator=True),  # 5
    Kind("reg", 0, 1, region=True),          # 6
    Kind("attr", 0, 1, attr="x"),            # 7
    # variants only introduced by mutation
    Kind("def64", 0, 1, rtype="i64"),        # 8
    Kind("attr-y", 0, 1, attr="y"),          # 9
    Kind("prop", 0, 1, prop="p"),            # 10
    Kind("prop-q", 0, 1, prop="q"),          # 11
    Kind("use1-64", 1, 1, rtype="i64"),      # 12
    Kind("use1-attr", 1, 1, attr="x"),       # 13
    Kind("nop", 0, 0),                       # 14
    Kind("reg-attr", 0, 1, region=True, attr="x"),  # 15
    Kind("br-attr", 0, 0, n_succ=1, terminator=True, attr="x"),  # 16
)
BASE = 8  # kinds [0, BASE) are enumerated, the rest arise from mutation
K_DEFAULT = K
# the same alphabet with the region-carrying op WITHOUT results (func.func / builtin.module shape): values used before their
# definition inside a region of a result-less op
K_REG0 = K[:6] + (Kind("reg0", 0, 0, region=True),) + K[7:]
VARIANTS = {0: (7, 8, 9, 10), 7: (0, 9, 10), 1: (12, 13), 3: (14,), 6: (15,), 4: (16,), 10: (11,)}


def count_values(desc) -> int:
    n = 0
    for (na, ops) in desc:
        n += na if isinstance(na, int) else len(na)
        for (ki, _o, _s, nested) in ops:
            n += K[ki].n_results
            if nested is not None:
                n += count_values(nested)
    return n


def mutants(desc: tuple, nvals: int | None = None) -> Iterator[tuple[str, tuple]]:
    """every single-point mutation of a region description"""
    if nvals is None:
        nvals = count_values(desc)
    nb = len(desc)
    for bi, (na, ops) in enumerate(desc):
        def with_block(newb, bi=bi):
            return desc[:bi] + (newb,) + desc[bi + 1:]
        # block argument count / type
        n = na if isinstance(na, int) else len(na)
        yield "add-block-arg", with_block((n + 1, ops))
        if n > 0:
            yield "block-arg-type", with_block((("i64",) + ("i32",) * (n - 1), ops))
        # ops
        for oi, (ki, operands, succs, nested) in enumerate(ops):
            def with_op(newop, oi=oi, ops=ops, na=na, with_block=with_block):
                return with_block((na, ops[:oi] + (newop,) + ops[oi + 1:]))
            for v in VARIANTS.get(ki, ()):
                yield f"kind:{K[ki].name}->{K[v].name}", with_op((v, operands, succs, nested))
            for si in range(len(operands)):
                for nv in range(nvals):
                    if nv != operands[si]:
                        yield "rewire-operand", with_op((ki, operands[:si] + (nv,) + operands[si + 1:], succs, nested))
            if len(operands) == 2 and operands[0] != operands[1]:
                yield "swap-operands", with_op((ki, (operands[1], operands[0]), succs, nested))
            for si in range(len(succs)):
                for nbk in range(nb):
                    if nbk != succs[si]:
                        yield "retarget-successor", with_op((ki, operands, succs[:si] + (nbk,) + succs[si + 1:], nested))
            if nested is not None:
                for lab, nn in mutants(nested, nvals):
                    yield "nested:" + lab, with_op((ki, operands, succs, nn))
                yield "empty-nested-region", with_op((ki, operands, succs, None))
            if oi + 1 < len(ops):
                yield "swap-adjacent-ops", with_block((na, ops[:oi] + (ops[oi + 1], ops[oi]) + ops[oi + 2:]))
        if ops:
            yield "drop-last-op", with_block((na, ops[:-1]))
        yield "append-op", with_block((na, ops + ((14, (), (), None),)))
        if bi + 1 < nb:
            yield "swap-adjacent-blocks", desc[:bi] + (desc[bi + 1], desc[bi]) + desc[bi + 2:]
    yield "append-block", desc + ((0, ()),)


def valid(desc, nvals=None, nb=None) -> bool:
    """operand / successor indices in range (mutations that drop a def may leave dangling indices)"""
    if nvals is None:
        nvals = count_values(desc)
    for (na, ops) in desc:
        for (ki, operands, succs, nested) in ops:
            if any(o >= nvals for o in operands) or any(s >= len(desc) for s in succs):
                return False
            if nested is not None and not valid(nested, nvals):
                return False
    return True


def eq_all(st: Stats, a, b, expect: bool, label: str, wit: dict) -> None:
    """a, b: Built.  Compare at Region level, wrapping-op level and (single block) Block level."""
    from xdsl.dialects.test import TestOp

    pairs = [("region", a.region, b.region)]
    for what, x, y in pairs:
        for order, (p, q) in (("xy", (x, y)), ("yx", (y, x))):
            st.evaluations += 1
            try:
                got = p.is_structurally_equivalent(q)
            except Exception as e:  # noqa: BLE001
                st.violate(f"C03|{what}|raises|{type(e).__name__}", f"is_structurally_equivalent raised {type(e).__name__}: {e}", wit)
                continue
            if got != expect:
                kind = "false-negative" if expect else "false-positive"
                st.violate(f"C03|{what}|{label}|{kind}",
                           f"is_structurally_equivalent says {got} for {'isomorphic' if expect else 'non-isomorphic'} IR ({label})", wit)


def check_desc(st: Stats, desc: tuple, do_mutants: bool = True) -> None:
    from xdsl.dialects.test import TestOp
    from xdsl.transforms.common_subexpression_elimination import OperationInfo

    x = irgen.build_region(desc, K)
    cx = canon(x.region)
    st.states += 1
    st.executions += 1
    wit = {"desc": desc, "reg0": K is K_REG0}
    # reflexive
    eq_all(st, x, x, True, "reflexive", wit)
    # twin (independently rebuilt) and clone
    t = irgen.build_region(desc, K)
    eq_all(st, x, t, True, "twin", wit)
    try:
        c = x.region.clone()
        if canon(c) == cx:  # clone correctness itself is C02's business
            class _B:  # noqa: N801
                region = c
            eq_all(st, x, _B, True, "clone", wit)
    except Exception:  # noqa: BLE001
        st.bump("clone_raised")
    # op-level and block-level: wrap (moves the region, so do it on a third build)
    w1 = TestOp(regions=[irgen.build_region(desc, K).region])
    w2 = TestOp(regions=[irgen.build_region(desc, K).region])
    for p, q in ((w1, w2), (w2, w1), (w1, w1)):
        st.evaluations += 1
        if not p.is_structurally_equivalent(q):
            st.violate("C03|operation|twin|false-negative", "wrapping ops of isomorphic regions reported non-equivalent", wit)
    b1, b2 = w1.regions[0].blocks, w2.regions[0].blocks
    if len(b1) == 1:
        # a lone block: only meaningful when nothing inside refers to another block
        st.evaluations += 2
        if not b1[0].is_structurally_equivalent(b2[0]) or not b1[0].is_structurally_equivalent(b1[0]):
            st.violate("C03|block|twin|false-negative", "isomorphic blocks reported non-equivalent", wit)
    # attached op vs itself / its twin (parents differ but correspond)
    for o1, o2 in zip(w1.walk(), w2.walk()):
        if o1 is w1:
            continue
        st.evaluations += 1
        if not o1.is_structurally_equivalent(o1):
            st.violate("C03|operation|attached-reflexive|false-negative", "an attached operation is not equivalent to itself", wit)
            break
    # sub-pieces: every pair of ops and every pair of blocks of ONE forest, and each op / block against its twin in
    # the independently rebuilt forest.  References that leave the compared piece (operands defined elsewhere,
    # successor blocks outside the piece) are free: equivalent only if they are the IDENTICAL object (canon keys
    # them by identity).
    wops1, wops2 = [o for o in w1.walk() if o is not w1], [o for o in w2.walk() if o is not w2]
    pairs = [(a, b, "op-pair") for i, a in enumerate(wops1) for b in wops1[i:]] + [(a, b, "op-vs-twin") for a, b in zip(wops1, wops2)]
    wb1 = [b for r in [w1.regions[0]] for b in r.blocks]
    wb2 = [b for r in [w2.regions[0]] for b in r.blocks]
    pairs += [(a, b, "block-pair") for i, a in enumerate(wb1) for b in wb1[i:]] + [(a, b, "block-vs-twin") for a, b in zip(wb1, wb2)]
    def uses_own_definition(piece) -> bool:
        inner = {id(v) for v in (_defined_in(piece) if not hasattr(piece, "args") else
                                 list(piece.args) + [v for o in piece.ops for v in _defined_in(o)])}
        ops_ = [piece] if not hasattr(piece, "args") else list(piece.walk())
        if not hasattr(piece, "args"):
            ops_ = list(piece.walk())
        return any(id(v) in inner for o in ops_ for v in o._operands)

    for a, b, kind in pairs:
        ref = canon([a]) == canon([b])
        st.evaluations += 2
        try:
            g1, g2 = a.is_structurally_equivalent(b), b.is_structurally_equivalent(a)
        except Exception as e:  # noqa: BLE001
            st.violate(f"C03|{kind}|raises|{type(e).__name__}", f"is_structurally_equivalent raised {type(e).__name__} on a sub-piece", wit)
            continue
        if g1 != g2:
            st.violate(f"C03|{kind}|asymmetric", f"sub-piece comparison ({kind}) is not symmetric: {g1} one way, {g2} the other", wit)
        elif g1 != ref:
            st.violate(f"C03|{kind}|{'false-negative' if ref else 'false-positive'}",
                       f"sub-piece comparison ({kind}) says {g1}, canonical forms {'equal' if ref else 'differ'} "
                       "(free references must be the identical object)", wit)
    # CSE OperationInfo on the ops of x: twins at same position vs canon of the single op (operands by identity)
    ops = x.ops
    for i, a in enumerate(ops):
        for b in ops[i:]:
            ia, ib = OperationInfo(a), OperationInfo(b)
            st.evaluations += 1
            internal = any(v in set(_defined_in(a)) for v in a._operands) or any(v in set(_defined_in(b)) for v in b._operands)
            if internal or a._successors or b._successors:
                continue  # CSE never keys terminators; OperationInfo documents name/attrs/props/results/operands/regions
            ref = canon([a]) == canon([b])
            try:
                got = ia == ib
                got2 = ib == ia
            except Exception as e:  # noqa: BLE001
                st.violate(f"C03|OperationInfo|raises|{type(e).__name__}", f"OperationInfo.__eq__ raised {type(e).__name__}: {e}", wit)
                continue
            if got != ref or got2 != ref:
                st.violate(f"C03|OperationInfo|{'false-negative' if ref else 'false-positive'}",
                           f"OperationInfo equality {got}/{got2} but canonical forms {'equal' if ref else 'differ'}", wit)
            elif got and hash(ia) != hash(ib):
                st.violate("C03|OperationInfo|hash", "equal OperationInfo with different hashes", wit)
    if len(x.ops) >= 2:
        st.nontrivial += 1
    if not do_mutants:
        return
    seen = {cx}
    for label, d2 in mutants(desc):
        st.transitions += 1
        if not valid(d2):
            continue
        try:
            y = irgen.build_region(d2, K)
        except Exception:  # noqa: BLE001
            st.bump("mutant_build_failed")
            continue
        cy = canon(y.region)
        expect = cy == cx
        st.executions += 1
        st.outcomes[("iso:" if expect else "diff:") + label.split(":")[0]] += 1
        eq_all(st, x, y, expect, label.replace("nested:", ""), {"desc": desc, "reg0": K is K_REG0, "mutant": d2, "mutation": label})


def check_attr_order(st: Stats) -> None:
    """ops whose attribute / property dictionaries hold the same entries in a different insertion order are equivalent,
    for is_structurally_equivalent and for CSE's OperationInfo (equality and hash)"""
    from xdsl.dialects.builtin import StringAttr, i32
    from xdsl.dialects.test import TestOp
    from xdsl.transforms.common_subexpression_elimination import OperationInfo

    entries = [("a", StringAttr("1")), ("b", StringAttr("2")), ("c", StringAttr("3"))]
    import itertools as it

    for n in (2, 3):
        for perm1 in it.permutations(entries[:n]):
            for perm2 in it.permutations(entries[:n]):
                for where in ("attributes", "properties"):
                    keys = {"a": "prop1", "b": "prop2", "c": "prop3"} if where == "properties" else {"a": "a", "b": "b", "c": "c"}
                    o1 = TestOp(result_types=[i32], **{where: {keys[k]: v for k, v in perm1}})
                    o2 = TestOp(result_types=[i32], **{where: {keys[k]: v for k, v in perm2}})
                    st.executions += 1
                    wit = {"where": where, "order1": [k for k, _ in perm1], "order2": [k for k, _ in perm2]}
                    if not o1.is_structurally_equivalent(o2):
                        st.violate(f"C03|operation|{where}-order|false-negative", f"ops with the same {where} in a different order are reported non-equivalent", wit)
                    i1, i2 = OperationInfo(o1), OperationInfo(o2)
                    if not (i1 == i2) or not (i2 == i1):
                        st.violate(f"C03|OperationInfo|{where}-order|false-negative", f"OperationInfo differs for the same {where} in a different order", wit)
                    elif hash(i1) != hash(i2):
                        st.violate(f"C03|OperationInfo|{where}-order|hash", "equal OperationInfo with different hashes", wit)


def check_attr_values(st: Stats) -> None:
    """every ordered pair of ops that differ (or not) only in ONE attribute / property VALUE, over a pool that contains values
    whose Python hashes collide (hash(-1) == hash(-2) in CPython; 0.0 / -0.0; True / 1) — equality must not be decided by hashes"""
    import itertools as it

    from xdsl.dialects.builtin import ArrayAttr, FloatAttr, IntAttr, IntegerAttr, StringAttr, f32, i1, i32, i64
    from xdsl.dialects.test import TestOp
    from xdsl.transforms.common_subexpression_elimination import OperationInfo

    pool = [IntegerAttr(-1, i64), IntegerAttr(-2, i64), IntegerAttr(-1, i32), IntegerAttr(1, i1), IntegerAttr(1, i32), IntAttr(-1), IntAttr(-2),
            FloatAttr(0.0, f32), FloatAttr(-0.0, f32), StringAttr("-1"), ArrayAttr([IntAttr(-1)]), ArrayAttr([IntAttr(-2)])]
    for (i, a), (j, b) in it.product(enumerate(pool), repeat=2):
        for where, key in (("attributes", "tag"), ("properties", "prop1")):
            o1 = TestOp(result_types=[i32], **{where: {key: a}})
            o2 = TestOp(result_types=[i32], **{where: {key: b}})
            st.executions += 1
            st.evaluations += 3
            ref = canon([o1]) == canon([o2])
            if ref != (i == j):
                st.violate("C03|harness|attr-value-pool-not-distinct", "canonical form does not separate the value pool", {"i": i, "j": j})
                continue
            wit = {"where": where, "value1": str(a), "value2": str(b)}
            g = (o1.is_structurally_equivalent(o2), o2.is_structurally_equivalent(o1))
            e = (OperationInfo(o1) == OperationInfo(o2), OperationInfo(o2) == OperationInfo(o1))
            if g != (ref, ref):
                st.violate(f"C03|operation|{where}-value|{'false-negative' if ref else 'false-positive'}",
                           f"is_structurally_equivalent says {g} for ops whose {where} value is {'the same' if ref else 'different'}", wit)
            if e != (ref, ref):
                st.violate(f"C03|OperationInfo|{where}-value|{'false-negative' if ref else 'false-positive'}",
                           f"OperationInfo equality says {e} for ops whose {where} value is {'the same' if ref else 'different'}", wit)
            elif ref and hash(OperationInfo(o1)) != hash(OperationInfo(o2)):
                st.violate(f"C03|OperationInfo|{where}-value|hash", "equal OperationInfo with different hashes", wit)


def check_region_shapes(st: Stats) -> None:
    """every ordered pair of ops that differ (or not) only in the SHAPE of their regions — no region, a region without
    blocks, an empty block, a block with ops, two blocks, block arguments — for is_structurally_equivalent and OperationInfo"""
    import itertools as it

    from xdsl.dialects.builtin import i32, i64
    from xdsl.dialects.test import TestOp
    from xdsl.ir import Block, Region
    from xdsl.transforms.common_subexpression_elimination import OperationInfo

    def region(shape):
        blocks = []
        for arg_types, n_ops in shape:
            b = Block(arg_types=arg_types)
            for _ in range(n_ops):
                b.add_op(TestOp(result_types=[i32]))
            blocks.append(b)
        return Region(blocks)

    shapes = [(), (((), 0),), (((), 1),), (((), 2),), (((i32,), 0),), (((i64,), 0),), (((i32,), 1),), (((), 0), ((), 0)), (((), 1), ((), 0)), (((), 0), ((), 1))]
    combos = [()] + [(s,) for s in shapes] + [(s, t) for s in shapes[:4] for t in shapes[:4]]
    for c1, c2 in it.product(combos, repeat=2):
        o1 = TestOp(result_types=[i32], regions=[region(s) for s in c1])
        o2 = TestOp(result_types=[i32], regions=[region(s) for s in c2])
        st.executions += 1
        st.evaluations += 3
        ref = canon([o1]) == canon([o2])
        wit = {"regions1": repr(c1), "regions2": repr(c2)}
        try:
            g = (o1.is_structurally_equivalent(o2), o2.is_structurally_equivalent(o1))
            e = (OperationInfo(o1) == OperationInfo(o2), OperationInfo(o2) == OperationInfo(o1))
        except Exception as ex:  # noqa: BLE001
            st.violate(f"C03|region-shapes|raises|{type(ex).__name__}", f"comparison of ops that differ in region shape raised {type(ex).__name__}", wit)
            continue
        if g != (ref, ref):
            st.violate(f"C03|operation|region-shapes|{'false-negative' if ref else 'false-positive'}",
                       f"is_structurally_equivalent says {g} for ops whose regions {'are the same' if ref else 'differ in shape'}", wit)
        if e != (ref, ref):
            st.violate(f"C03|OperationInfo|region-shapes|{'false-negative' if ref else 'false-positive'}",
                       f"OperationInfo equality says {e} for ops whose regions {'are the same' if ref else 'differ in shape'}", wit)
        elif ref and hash(OperationInfo(o1)) != hash(OperationInfo(o2)):
            st.violate("C03|OperationInfo|region-shapes|hash", "equal OperationInfo with different hashes", wit)


def _defined_in(op) -> list:
    out = list(op.results)
    for r in op.regions:
        for b in r.blocks:
            out.extend(b.args)
            for o in b.ops:
                out.extend(_defined_in(o))
    return out


def _shard(arg) -> Stats:
    bounds, shard, nshards, seed = arg
    st = Stats()
    bounds = dict(bounds)
    globals()["K"] = K_REG0 if bounds.pop("reg0", False) else K_DEFAULT
    for i, desc in enumerate(irgen.enumerate_regions(K[:BASE], **bounds)):
        if i % nshards != shard:
            continue
        check_desc(st, desc)
        if (i + seed) % 9973 == 0:
            st.sample({"desc": desc, "reg0": K is K_REG0})
    return st


def _cross(arg) -> Stats:
    bounds, shard, nshards = arg
    st = Stats()
    descs = list(irgen.enumerate_regions(K[:BASE], **bounds))
    built = [irgen.build_region(d, K) for d in descs]
    canons = [canon(b.region) for b in built]
    for i in range(shard, len(descs), nshards):
        for j in range(len(descs)):
            st.executions += 1
            expect = canons[i] == canons[j]
            got = built[i].region.is_structurally_equivalent(built[j].region)
            if got != expect:
                st.violate(f"C03|region|cross-pair|{'false-negative' if expect else 'false-positive'}",
                           f"cross pair reported {got}", {"desc": descs[i], "other": descs[j]})
    st.outcomes["cross-pairs"] += 1
    return st


def run(ctx):
    if ctx.quick:
        spaces = [dict(max_blocks=2, max_ops=2, max_args=1, depth=1), dict(max_blocks=1, max_ops=3, max_args=1, depth=1),
                  dict(max_blocks=1, max_ops=2, max_args=0, depth=1, reg0=True)]
        cross = dict(max_blocks=1, max_ops=2, max_args=1, depth=1)
    else:
        spaces = [dict(max_blocks=2, max_ops=3, max_args=1, depth=1), dict(max_blocks=3, max_ops=2, max_args=0, depth=0),
                  dict(max_blocks=2, max_ops=2, max_args=1, depth=1, reg0=True)]
        cross = dict(max_blocks=2, max_ops=2, max_args=1, depth=1)
    check_attr_order(ctx.stats)
    check_region_shapes(ctx.stats)
    check_attr_values(ctx.stats)
    n = 64
    tasks = [(sp, i, n, ctx.seed) for sp in spaces for i in range(n)]
    for _, st in pmap(_shard, tasks):
        ctx.merge(st)
    for _, st in pmap(_cross, [(cross, i, 32) for i in range(32)]):
        ctx.merge(st)
    ctx.bounds = {"spaces": spaces, "cross_pairs_space": cross}
    ctx.rule = ("every region description of the bounded enumerator (all wirings incl. forward references, own results, values of "
                "nested/enclosing regions) paired with itself, an independently rebuilt twin, its clone, and every single-point "
                "mutation (both argument orders) + all cross pairs of a smaller space; states = forests, transitions = mutations; "
                "non-trivial = forest with >= 2 ops")
    ctx.assumptions = ["mc/canon.py decides isomorphism (forced positional correspondence)"]


def replay(rep) -> bool:
    st = Stats()

    def tup(x):
        return tuple(tup(y) for y in x) if isinstance(x, list) else x
    w = rep["witness"]
    globals()["K"] = K_REG0 if w.get("reg0") else K_DEFAULT
    if "other" in w:
        a, b = irgen.build_region(tup(w["desc"]), K), irgen.build_region(tup(w["other"]), K)
        return a.region.is_structurally_equivalent(b.region) == (canon(a.region) == canon(b.region))
    check_desc(st, tup(w["desc"]))
    return rep["signature"] not in st.violations
