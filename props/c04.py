"""C04 — the generic textual form round-trips every valid IR.

(a) generated modules (mc/irgen.py, all wirings incl. forward references, nested regions, several
    blocks) x ALL assignments of name hints from a collision-forcing hint set (every string of length
    <= 3 over a small alphabet that the name_hint setter accepts) to up to two values and one block;
(b) every chunk of the repository's .mlir corpus that parses and verifies (complete enumeration).
Oracle: t1 = generic print; parse t1 in a FRESH context; canon (mc/canon.py, with the property's
normalisation of default properties / inherent attributes) equal; print(parsed) == t1; printing the same
IR twice is identical; printing its clone is identical.
"""
from __future__ import annotations

import io
import itertools
from typing import Any

from mc import corpus, irgen
from mc.canon import canon
from mc.irgen import Kind
from mc.pool import pmap
from mc.stats import Stats

K = (
    Kind("def", 0, 1),
    Kind("use1", 1, 1),
    Kind("use2", 2, 0),
    Kind("term", 0, 0, terminator=True),
    Kind("br", 0, 0, n_succ=1, terminator=True),
    Kind("reg", 0, 1, region=True),
    Kind("attrprop", 0, 1, attr="x", prop="p"),
)

HINT_ALPHABET = ("a", "b", "_", "1", ".", "$", "-", "é", "٣")
_CTX_FACTORY = corpus.fresh_ctx


def gprint(m: Any) -> str:
    from xdsl.printer import Printer

    s = io.StringIO()
    Printer(stream=s, print_generic_format=True).print_op(m)
    return s.getvalue()


def hint_class(h: str | None) -> str:
    if h is None:
        return "none"
    if not h.isascii():
        return "non-ascii"
    import re

    if re.fullmatch(r"bb\d+", h):
        return "bbN"
    if re.search(r"_\d+$", h):
        return "ends-with-_N"
    if re.search(r"_\d+", h):
        return "contains-_N"
    return "plain"


def roundtrip(st: Stats, m: Any, wit: dict, sigctx: str, check_clone: bool = True) -> None:
    """the C04 oracle on one verified module"""
    from xdsl.parser import Parser

    st.executions += 1
    try:
        t1 = gprint(m)
        t1b = gprint(m)
    except Exception as e:  # noqa: BLE001
        st.violate(f"C04|{sigctx}|print-raises|{type(e).__name__}", f"generic printing raised {type(e).__name__}: {e}", wit)
        return
    st.evaluations += 1
    if t1 != t1b:
        st.violate(f"C04|{sigctx}|print-not-deterministic", "printing the same IR twice gives different text", wit)
    try:
        m2 = Parser(_CTX_FACTORY(), t1).parse_module()
    except Exception as e:  # noqa: BLE001
        st.violate(f"C04|{sigctx}|reparse-fails|{type(e).__name__}", f"printed generic text does not parse back: {str(e)[:160]}",
                   {**wit, "text": t1[:1500]})
        return
    st.evaluations += 1
    c1, c2 = canon([m], normalize=True), canon([m2], normalize=True)
    if c1 != c2:
        from mc.canon import first_op_diff
        where = first_op_diff(m, m2)
        sc = "corpus" if sigctx.startswith("corpus|") else sigctx
        st.violate(f"C04|{sc}|reparsed-differs|{where}", f"IR parsed from the generic text is not equivalent to the original (first difference: {where})",
                   {**wit, "text": t1[:1500]})
        return
    st.evaluations += 1
    t2 = gprint(m2)
    if t2 != t1:
        from mc.canon import first_op_diff
        sc = "corpus" if sigctx.startswith("corpus|") else sigctx
        if canon([m]) != canon([m2]):
            # equal only up to the property's normalisation: the text moved an entry between the attribute dictionary and the properties
            cause = "placement-attr-dict-vs-properties|" + first_op_diff(m, m2, normalize=False).split("|")[0]
        else:
            cause = "names-or-layout"
        st.violate(f"C04|{sc}|reprint-differs|{cause}", f"printing the parsed IR does not reproduce the text ({cause})",
                   {**wit, "text": t1[:800], "text2": t2[:800]})
    if check_clone:
        st.evaluations += 1
        try:
            tc = gprint(m.clone())
        except Exception as e:  # noqa: BLE001
            st.violate(f"C04|{sigctx}|clone-print-raises|{type(e).__name__}", f"printing the clone raised {type(e).__name__}", wit)
            return
        if tc != t1:
            st.violate(f"C04|{sigctx}|clone-prints-differently", "printing the clone of the IR gives different text", {**wit, "text": t1[:800], "text2": tc[:800]})


# ------------------------------------------------------------------ (a) generated modules x hints
def light_ctx():
    from xdsl.context import Context
    from xdsl.dialects.builtin import Builtin
    from xdsl.dialects.func import Func
    from xdsl.dialects.test import Test

    ctx = Context()
    for d in (Builtin, Test, Func):
        ctx.load_dialect(d)
    return ctx


def accepted_hints(maxlen: int) -> list[str]:
    from xdsl.dialects.builtin import i32
    from xdsl.dialects.test import TestOp

    v = TestOp(result_types=[i32]).results[0]
    out = []
    cands = ["".join(t) for n in range(1, maxlen + 1) for t in itertools.product(HINT_ALPHABET, repeat=n)]
    cands += ["bb0", "bb1", "bb2", "a_1_2", "a_1_b", "a_01", "arg0", "a_1_2_3"]
    for h in cands:
        try:
            v.name_hint = h
        except ValueError:
            continue
        out.append(h)
    return out


# hint hosts: (name, builder) -> (module, values to hint, blocks to hint)
def host(kind: str):
    from xdsl.dialects.builtin import ModuleOp, i32
    from xdsl.dialects.func import FuncOp, ReturnOp
    from xdsl.dialects.test import TestOp, TestTermOp
    from xdsl.ir import Block, Region

    if kind == "flat":          # one block: arg, two defs, a use
        b = Block(arg_types=[i32])
        d1, d2 = TestOp(result_types=[i32]), TestOp(result_types=[i32])
        b.add_ops([d1, d2, TestOp(operands=[b.args[0], d1.results[0], d2.results[0]]), TestTermOp()])
        return ModuleOp([TestOp(regions=[Region([b])])]), [b.args[0], d1.results[0], d2.results[0]], []
    if kind == "nested":        # value in the outer region, values in a nested (non isolated) region using it
        d0 = TestOp(result_types=[i32])
        ib = Block(arg_types=[i32])
        d1 = TestOp(operands=[d0.results[0], ib.args[0]], result_types=[i32])
        ib.add_op(d1)
        outer = TestOp(regions=[Region([ib])], result_types=[i32])
        return ModuleOp([d0, outer, TestOp(operands=[outer.results[0]])]), [d0.results[0], ib.args[0], d1.results[0]], []
    if kind == "isolated":      # two functions (isolated from above): the same names may be reused
        fs, vals = [], []
        for name in ("f", "g"):
            blk = Block(arg_types=[i32])
            d = TestOp(operands=[blk.args[0]], result_types=[i32])
            blk.add_ops([d, ReturnOp()])
            fs.append(FuncOp(name, ((i32,), ()), Region([blk])))
            vals += [blk.args[0], d.results[0]]
        return ModuleOp(fs), [vals[0], vals[2], vals[3]], []
    if kind == "cfg":           # three blocks with arguments and branches (forward + backward)
        b0, b1, b2 = Block(), Block(arg_types=[i32]), Block(arg_types=[i32])
        d = TestOp(result_types=[i32])
        b0.add_ops([d, TestTermOp(successors=[b1, b2])])
        b1.add_ops([TestOp(operands=[b1.args[0], d.results[0]]), TestTermOp(successors=[b2])])
        b2.add_ops([TestTermOp(successors=[b1])])
        return ModuleOp([TestOp(regions=[Region([b0, b1, b2])])]), [d.results[0], b1.args[0], b2.args[0]], [b0, b1, b2]
    if kind == "cfg-nested":    # blocks of an outer region and of a nested region
        ib0, ib1 = Block(), Block()
        ib0.add_op(TestTermOp(successors=[ib1]))
        ib1.add_op(TestTermOp())
        inner = TestOp(regions=[Region([ib0, ib1])])
        b0, b1 = Block(), Block()
        b0.add_ops([inner, TestTermOp(successors=[b1])])
        b1.add_op(TestTermOp())
        return ModuleOp([TestOp(regions=[Region([b0, b1])])]), [], [b1, ib1, ib0]
    if kind == "graph-forward":  # module body (graph region): a use textually BEFORE the definition of the hinted value
        d1, d2 = TestOp(result_types=[i32]), TestOp(result_types=[i32])
        u = TestOp(operands=[d1.results[0], d2.results[0]], result_types=[i32])
        return ModuleOp([u, d1, d2, TestOp(operands=[u.results[0]])]), [d1.results[0], d2.results[0], u.results[0]], []
    if kind == "cfg-forward":    # the block that uses a value is listed BEFORE the block that defines (and dominates) it
        b0, b1, b2 = Block(), Block(), Block(arg_types=[i32])
        d = TestOp(result_types=[i32])
        b0.add_op(TestTermOp(successors=[b2]))
        b1.add_ops([TestOp(operands=[d.results[0], b2.args[0]]), TestTermOp()])
        b2.add_ops([d, TestTermOp(successors=[b1])])
        return ModuleOp([TestOp(regions=[Region([b0, b1, b2])])]), [d.results[0], b2.args[0], d.results[0]], [b0, b1, b2]
    raise AssertionError(kind)


import re as _re


def cause_class(stored: list[str | None], entry_hinted: bool = False) -> str:
    hs = [h for h in stored if h is not None]
    if any(not h.isascii() for h in hs):
        return "non-ascii-hint"
    if entry_hinted:
        return "entry-block-hinted"
    if any(_re.fullmatch(r"bb\d+", h) for h in hs):
        return "default-style-hint"
    if any(_re.search(r"_\d+$", h) for h in hs):
        return "stored-hint-ends-with-_N"
    if len(set(hs)) < len(hs):
        return "duplicate-hints"
    return "plain-hints"


def roundtrip_light(st: Stats, m: Any, wit: dict, sigctx: str, check_clone: bool) -> None:
    """same oracle as roundtrip(), with the light context (builtin+test+func)"""
    global _CTX_FACTORY
    _CTX_FACTORY = light_ctx
    try:
        roundtrip(st, m, wit, sigctx, check_clone)
    finally:
        _CTX_FACTORY = corpus.fresh_ctx


def _hints_shard(arg) -> Stats:
    maxlen, maxlen2, shard, nshards, seed = arg
    st = Stats()
    H1 = accepted_hints(maxlen)
    H2 = accepted_hints(maxlen2)
    st.extra["accepted_hints"] = len(H1)
    case = 0
    for kind in ("flat", "nested", "isolated", "cfg", "cfg-nested", "graph-forward", "cfg-forward"):
        _m, vals, blks = host(kind)
        if vals:
            for third in (None, "a"):
                for h0 in H1:
                    for h1 in H2:
                        case += 1
                        if case % nshards != shard:
                            continue
                        m, vals, _ = host(kind)
                        vals[0].name_hint, vals[1].name_hint = h0, h1
                        if vals[2] is not vals[0]:
                            vals[2].name_hint = third
                        stored = [v.name_hint for v in vals]
                        cls = cause_class(stored)
                        st.states += 1
                        st.transitions += 3
                        st.outcomes[f"value-hints:{kind}:{cls}"] += 1
                        if cls != "plain-hints":
                            st.nontrivial += 1
                        roundtrip_light(st, m, {"host": kind, "value_hints": [h0, h1, third]}, f"value-hints|{cls}", check_clone=(case % 5 == 0))
                        if (case + seed) % 50021 == 0:
                            st.sample({"host": kind, "value_hints": [h0, h1, third]})
        if blks:
            for third in (None, "a"):
                for h0 in H1 + [None]:
                    for h1 in H2 + [None]:
                        case += 1
                        if case % nshards != shard:
                            continue
                        m, _, blks = host(kind)
                        blks[1].name_hint, blks[2].name_hint, blks[0].name_hint = h0, h1, third
                        stored = [b.name_hint for b in blks]
                        entry_hinted = kind == "cfg" and third is not None or kind == "cfg-nested" and h1 is not None
                        cls = cause_class(stored, entry_hinted)
                        st.states += 1
                        st.transitions += 3
                        st.outcomes[f"block-hints:{kind}:{cls}"] += 1
                        if cls != "plain-hints":
                            st.nontrivial += 1
                        roundtrip_light(st, m, {"host": kind, "block_hints": [third, h0, h1]}, f"block-hints|{cls}", check_clone=True)
    return st


def _attr_shard(arg) -> Stats:
    """every value of the builtin attribute boundary pool (mc/attrgen.py) carried as a discardable attribute and as a
    property of an op inside a verified module"""
    shard, nshards, seed = arg
    from xdsl.dialects.builtin import ModuleOp
    from xdsl.dialects.test import TestOp
    from xdsl.ir import TypeAttribute
    from mc import attrgen

    st = Stats()
    descs = attrgen.boundary_pool()
    for fam in attrgen.families("quick"):
        if fam.name in ("f32", "f64", "dense", "dense_array", "string", "symbol", "containers"):
            descs += list(fam)[: 400]
    # whole-number floats of every decimal length (the printer switches between decimal, exponent and hex forms)
    from xdsl.dialects.builtin import DenseIntOrFPElementsAttr, FloatAttr, TensorType, f32, f64
    extra = []
    for k in range(1, 20):
        for v in (float(10 ** k), float(10 ** k + 1), float(int("1234567890123456789"[:k]))):
            for t in (f64, f32):
                try:
                    extra.append(FloatAttr(v, t))
                    extra.append(FloatAttr(-v, t))
                    extra.append(DenseIntOrFPElementsAttr.from_list(TensorType(t, [2]), [v, 1.5]))
                except Exception:  # noqa: BLE001
                    pass
    # complex elements mixing finite and non-finite parts (the printer writes nan / inf parts as hexadecimal bit patterns)
    from xdsl.dialects.builtin import ComplexType
    inf, nan = float("inf"), float("nan")
    for t in (f32, f64):
        for pair in ((1.5, inf), (inf, 1.5), (-0.0, nan), (nan, 0.25), (inf, nan), (-inf, -inf), (1.5, 2.5)):
            extra.append(DenseIntOrFPElementsAttr.from_list(TensorType(ComplexType(t), [1]), [pair]))
            extra.append(DenseIntOrFPElementsAttr.from_list(TensorType(ComplexType(t), [2]), [pair, (0.0, 1.0)]))
    items = [("desc", d) for d in descs] + [("attr", a) for a in extra]
    for i, (kind, d) in enumerate(items):
        if i % nshards != shard:
            continue
        try:
            a = attrgen.build(d) if kind == "desc" else d
            if kind == "attr":
                d = str(a)
        except Exception:  # noqa: BLE001
            continue
        for where in ("attributes", "properties"):
            try:
                op = TestOp(result_types=[a] if isinstance(a, TypeAttribute) and where == "attributes" else [],
                            **{where: {"a" if where == "attributes" else "prop1": a}})
                m = ModuleOp([op])
                m.verify()
            except Exception:  # noqa: BLE001
                st.bump("attr_module_does_not_verify")
                continue
            st.states += 1
            st.transitions += 1
            st.nontrivial += 1
            st.outcomes[f"attr-pool:{where}"] += 1
            roundtrip_light(st, m, {"attr_desc": d, "where": where}, f"attr-pool|{type(a).__name__}", check_clone=False)
    return st


def _struct_shard(arg) -> Stats:
    bounds, shard, nshards, seed = arg
    from xdsl.dialects.builtin import ModuleOp
    from xdsl.dialects.test import TestOp

    st = Stats()
    for di, desc in enumerate(irgen.enumerate_regions(K, **bounds)):
        if di % nshards != shard:
            continue
        m = ModuleOp([TestOp(regions=[irgen.build_region(desc, K).region])])
        st.transitions += 1
        try:
            m.verify()
        except Exception:  # noqa: BLE001
            st.bump("generated_not_verifying")
            continue
        st.states += 1
        if len(desc) > 1 or len(desc[0][1]) > 1:
            st.nontrivial += 1
        st.outcomes["generated:verified"] += 1
        roundtrip_light(st, m, {"desc": desc}, "generated|no-hints", check_clone=True)
        if (di + seed) % 5003 == 0:
            st.sample({"desc": desc})
    return st


# ------------------------------------------------------------------ (b) corpus
def _corpus_shard(arg) -> Stats:
    shard, nshards, seed = arg
    st = Stats()
    for i, (rel, ci, text) in enumerate(corpus.chunks()):
        if i % nshards != shard:
            continue
        st.transitions += 1
        m = corpus.parse(text, rel)
        if m is None:
            st.outcomes["corpus:not-a-verified-module"] += 1
            continue
        st.states += 1
        st.nontrivial += 1
        dialects = sorted({op.name.split(".")[0] for op in m.walk()})
        st.outcomes["corpus:verified"] += 1
        for d in dialects:
            st.extra.setdefault("dialect_chunks", {})
            st.extra["dialect_chunks"][d] = st.extra["dialect_chunks"].get(d, 0) + 1
        sig_file = rel
        roundtrip(st, m, {"file": rel, "chunk": ci}, f"corpus|{sig_file}")
        if (i + seed) % 211 == 0:
            st.sample({"file": rel, "chunk": ci})
    return st


def run(ctx):
    maxlen, maxlen2 = (2, 2) if ctx.quick else (3, 2)
    bounds = dict(max_blocks=2, max_ops=2, max_args=1, depth=1) if ctx.quick else dict(max_blocks=2, max_ops=3, max_args=1, depth=1)
    n = 64
    for _, st in pmap(_hints_shard, [(maxlen, maxlen2, i, n, ctx.seed) for i in range(n)]):
        ah = st.extra.pop("accepted_hints", 0)
        ctx.merge(st)
        ctx.stats.extra["accepted_hints"] = ah
    for _, st in pmap(_struct_shard, [(bounds, i, n, ctx.seed) for i in range(n)]):
        ctx.merge(st)
    for _, st in pmap(_attr_shard, [(i, n, ctx.seed) for i in range(n)]):
        ctx.merge(st)
    for _, st in pmap(_corpus_shard, [(i, n, ctx.seed) for i in range(n)]):
        ctx.merge(st)
    ctx.stats.sample({"host": "flat", "value_hints": ["a", "a", None]})
    ctx.bounds = {"generated": bounds, "hint_alphabet": list(HINT_ALPHABET), "hint_max_len": [maxlen, maxlen2],
                  "hint_hosts": ["flat", "nested", "isolated", "cfg", "cfg-nested", "graph-forward", "cfg-forward"], "corpus": "all chunks of tests/**/*.mlir"}
    ctx.rule = ("(a) five hint-host modules x every ordered pair of accepted hints (length bounds above, plus collision-forcing extras) "
                "on two values / two blocks x third hint in {None,'a'}; every enumerated module (all wirings) without hints; "
                "(b) every corpus chunk that parses+verifies; states = verified modules, non-trivial = hint assignment that "
                "collides / carries a numeric suffix / is non-ASCII / default-style, structure with > 1 op, or a corpus module")
    ctx.assumptions = ["mc/canon.py with default-property / inherent-attribute normalisation as the property words it",
                       "source locations are not part of the compared form"]


def replay(rep) -> bool:
    from xdsl.dialects.builtin import ModuleOp
    from xdsl.dialects.test import TestOp

    def tup(x):
        return tuple(tup(y) for y in x) if isinstance(x, list) else x
    w = rep["witness"]
    st = Stats()
    if "file" in w:
        text = corpus.chunks_of(w["file"])[w["chunk"]]
        m = corpus.parse(text)
        if m is None:
            return True
        roundtrip(st, m, w, "replay")
    elif "attr_desc" in w:
        from mc import attrgen
        if isinstance(w["attr_desc"], str):
            from xdsl.parser import Parser as _P
            a = _P(light_ctx(), w["attr_desc"]).parse_attribute()
        else:
            a = attrgen.build(w["attr_desc"])
        where = w["where"]
        roundtrip_light(st, ModuleOp([TestOp(**{where: {"a" if where == "attributes" else "prop1": a}})]), w, "replay", False)
    elif "host" in w:
        m, vals, blks = host(w["host"])
        if w.get("value_hints"):
            for v, h in zip(vals, w["value_hints"]):
                v.name_hint = h
        if w.get("block_hints"):
            third, h0, h1 = w["block_hints"]
            blks[1].name_hint, blks[2].name_hint, blks[0].name_hint = h0, h1, third
        roundtrip_light(st, m, w, "replay", True)
    else:
        b = irgen.build_region(tup(w["desc"]), K)
        roundtrip_light(st, ModuleOp([TestOp(regions=[b.region])]), w, "replay", True)
    return not st.violations
