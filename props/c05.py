"""C05 — custom assembly formats round-trip for every registered operation.

Complete enumeration of the verified .mlir corpus (every `// -----` chunk of tests/**/*.mlir that
parses and verifies, all dialects) plus the deviation-1 neighbourhood of every IRDL operation instance
in it (drop each optional / default-valued property or attribute, one at a time; variants that still
verify are kept).  For every module: print in CUSTOM form -> parse in a fresh context -> canonical form
(mc/canon.py with the property's normalisation) equals the original's; print in GENERIC form -> parse
-> same canonical form; printing the re-parsed module in custom form is a fixpoint.
A small hand-written supplement (mc/extra_corpus/*.mlir, generic form) adds shapes the in-tree tests never contain
(values and results of function type in func.func / func.call / scf / cf / casts, empty and nested tuples).
Evidence lists the operations covered (an op no case reaches is not claimed).
A second family (props/c05_formats.py) generates synthetic declarative-format operation definitions (optional groups with
every anchor kind, else-branches, nested groups, variadic operands, default-valued properties) and round-trips every
verified instance of each, so the format ENGINE is exercised on shapes no in-tree op uses.
"""
from __future__ import annotations

import io
import itertools
import re
from typing import Any

from mc import corpus
from mc.canon import canon, first_op_diff
from props import c05_formats
from mc.pool import pmap
from mc.stats import Stats

OPNAME = re.compile(r'"?([a-z_][a-z_0-9]*\.[a-z_0-9.]+)"?')


def text_of(m: Any, generic: bool) -> str:
    from xdsl.printer import Printer

    s = io.StringIO()
    Printer(stream=s, print_generic_format=generic).print_op(m)
    return s.getvalue()


def blame_from_error(e: Exception, text: str) -> str:
    """op name on the line the diagnostic points at (falls back to the exception class)"""
    span = getattr(e, "span", None)
    try:
        if span is not None:
            line = text.count("\n", 0, span.start)
            lines = text.split("\n")
            for ln in (lines[line], lines[line - 1] if line else ""):
                names = [n for n in OPNAME.findall(ln) if not n.startswith(("builtin.", "e."))]
                if names:
                    return names[0]
    except Exception:  # noqa: BLE001
        pass
    return "unattributed"


def roundtrip(st: Stats, m: Any, wit: dict, variant: str) -> None:
    from xdsl.parser import Parser

    st.executions += 1
    c0 = canon([m], normalize=True)
    try:
        tc = text_of(m, generic=False)
    except Exception as e:  # noqa: BLE001
        st.violate(f"C05|{wit.get('op', 'module')}|print-raises|{type(e).__name__}|{variant}",
                   f"custom printing raised {type(e).__name__}: {str(e)[:120]}", wit)
        return
    # custom -> parse
    try:
        m2 = Parser(corpus.fresh_ctx(), tc).parse_module()
    except Exception as e:  # noqa: BLE001
        op = blame_from_error(e, tc)
        st.violate(f"C05|{op}|custom-form-does-not-parse|{type(e).__name__}",
                   f"the custom form printed for {op} does not parse back: {str(e).strip().splitlines()[-1][:160] if str(e).strip() else type(e).__name__}",
                   {**wit, "text": tc[:1200]})
        return
    st.evaluations += 1
    c2 = canon([m2], normalize=True)
    if c2 != c0:
        where = first_op_diff(m, m2)
        var = wit.get("variant")
        if var and where.endswith(":missing") and f":{var[2]}:" in where and where.startswith(wit.get("op", "?") + "|"):
            # the entry that the variant dropped comes back: the custom parser materialises an implicit default
            where = "variant|dropped-optional-entry-rematerialised|" + ":".join(where.split("|", 1)[1].split(":")[1:3])
        st.violate(f"C05|{where}|custom-form-parses-to-different-ir", f"custom form parses to different IR (first difference: {where})",
                   {**wit, "text": tc[:1200]})
        return
    # generic -> parse (equivalence of the two printings)
    try:
        tg = text_of(m, generic=True)
        m3 = Parser(corpus.fresh_ctx(), tg).parse_module()
        st.evaluations += 1
        if canon([m3], normalize=True) != c2:
            where = first_op_diff(m2, m3)
            st.violate(f"C05|{where}|custom-and-generic-forms-differ", f"custom and generic printings parse to different IR ({where})",
                       {**wit, "text": tc[:800]})
    except Exception:  # noqa: BLE001
        st.bump("generic_roundtrip_failed_see_C04")
    # custom print of the re-parsed module is a fixpoint
    try:
        st.evaluations += 1
        tc2 = text_of(m2, generic=False)
        if tc2 != tc:
            # equal IR prints differently only through names / placement; not asserted by C05, counted
            st.bump("custom_reprint_text_differs")
    except Exception as e:  # noqa: BLE001
        st.violate(f"C05|reprint-raises|{type(e).__name__}|{variant}", f"printing the re-parsed module raised {type(e).__name__}", wit)


def variants(m: Any, max_ops: int):
    """deviation-1 neighbourhood: (label, op index, key) for each droppable property/attribute"""
    ops = list(m.walk())
    if len(ops) > max_ops:
        return
    for i, op in enumerate(ops):
        try:
            d = type(op).get_irdl_definition()
        except Exception:  # noqa: BLE001
            continue
        for name in list(op.properties):
            pdef = d.properties.get(name)
            if pdef is None:
                continue
            from xdsl.irdl import OptionalDef

            if isinstance(pdef, OptionalDef) or getattr(pdef, "default_value", None) is not None:
                yield ("drop-prop", i, name)
        for name in list(op.attributes):
            yield ("drop-attr", i, name)


def _shard(arg) -> Stats:
    shard, nshards, max_ops, seed = arg
    st = Stats()
    covered: dict[str, int] = {}
    for i, (rel, ci, text) in enumerate(itertools.chain(corpus.chunks(), corpus.extra_chunks())):
        if i % nshards != shard:
            continue
        st.transitions += 1
        m = corpus.parse(text, rel)
        if m is None:
            if rel.startswith(corpus.EXTRA_PREFIX):
                exc, msg = corpus.why_rejected(text, rel)
                st.violate(f"C05|extra|hand-written-generic-module-rejected|{exc}|{rel}#{ci}",
                           f"a hand-written valid module (generic form) is rejected: {exc}: {msg}", {"file": rel, "chunk": ci})
            elif corpus.was_verified(rel, ci, text):
                # custom-format text that the repository's own tests treat as valid (and that was accepted when the
                # manifest was generated) is now rejected
                exc, msg = corpus.why_rejected(text, rel)
                names = [n for n in OPNAME.findall(msg) if "." in n]
                st.violate(f"C05|corpus|accepted-custom-form-now-rejected|{exc}|{rel}",
                           f"a corpus chunk that used to parse and verify is rejected: {exc}: {msg}", {"file": rel, "chunk": ci})
            st.outcomes["not-a-verified-module"] += 1
            continue
        st.states += 1
        st.nontrivial += 1
        st.outcomes["verified-chunk"] += 1
        for op in m.walk():
            covered[op.name] = covered.get(op.name, 0) + 1
        roundtrip(st, m, {"file": rel, "chunk": ci}, "as-is")
        if (i + seed) % 173 == 0:
            st.sample({"file": rel, "chunk": ci})
        for label, k, key in variants(m, max_ops):
            m2 = m.clone()
            op = list(m2.walk())[k]
            (op.properties if label == "drop-prop" else op.attributes).pop(key, None)
            try:
                m2.verify()
            except Exception:  # noqa: BLE001
                st.outcomes["variant-does-not-verify"] += 1
                continue
            st.states += 1
            st.transitions += 1
            st.outcomes[f"variant:{label}"] += 1
            roundtrip(st, m2, {"file": rel, "chunk": ci, "variant": [label, k, key], "op": op.name}, f"{label}")
    st.extra["ops_covered"] = covered
    return st


def run(ctx):
    n = 64
    max_ops = 60 if ctx.quick else 400
    for _, st in pmap(_shard, [(i, n, max_ops, ctx.seed) for i in range(n)]):
        ctx.merge(st)
    cov = ctx.stats.extra.get("ops_covered", {})
    by_dialect: dict[str, int] = {}
    for name in cov:
        by_dialect[name.split(".")[0]] = by_dialect.get(name.split(".")[0], 0) + 1
    ctx.stats.extra["ops_covered"] = len(cov)
    ctx.stats.extra["ops_covered_per_dialect"] = dict(sorted(by_dialect.items()))
    ctx.bounds = {"corpus": "all chunks of tests/**/*.mlir", "neighbourhood_on_modules_with_at_most_ops": max_ops}
    # family 2: generated declarative-format operation definitions (merges its own Stats)
    ctx.bounds.update(c05_formats.run_family(ctx.merge, ctx.quick, ctx.seed))
    ctx.rule = ("every corpus chunk that parses+verifies, and every single drop of an optional/default-valued property or of a discardable "
                "attribute that still verifies; states = modules round-tripped; non-trivial = verified corpus module; coverage per op reported. "
                "Synthetic formats: every definition of the segment grammar (1..2 segments x type modes) the format compiler accepts, every "
                "verified instance the format can denote (presence subsets, variadic lengths 0..2, property values incl. the default, with/without "
                "a discardable attribute); states += instances round-tripped; non-trivial += instances where an optional group is absent or a "
                "default-valued entry equals its default")
    ctx.assumptions = ["mc/canon.py with default-property / inherent-attribute normalisation", "ops the corpus never instantiates are not claimed",
                       "synthetic formats: an instance with a non-empty variable in the branch of an optional group that is not taken has no custom "
                       "form by design and is outside the space (decided on the generator's own AST)"]


def replay(rep) -> bool:
    w = rep["witness"]
    if "synthetic" in w:
        return c05_formats.replay_synthetic(rep)
    st = Stats()
    text = corpus.chunks_of(w["file"])[w["chunk"]]
    m = corpus.parse(text)
    if m is None:
        return not (w["file"].startswith(corpus.EXTRA_PREFIX) or corpus.was_verified(w["file"], w["chunk"], text))
    if w.get("variant"):
        label, k, key = w["variant"]
        op = list(m.walk())[k]
        (op.properties if label == "drop-prop" else op.attributes).pop(key, None)
    roundtrip(st, m, w, "replay")
    return rep["signature"] not in st.violations
