"""C05 family "generated declarative-format operation definitions".

The corpus part of C05 only reaches format shapes some in-tree op uses.  This family enumerates, completely
within a stated bound, *synthetic* IRDL operations whose `assembly_format` strings come from a small grammar,
and for every accepted definition every verified instance, and round-trips each instance through the
declarative-format ENGINE (xdsl/irdl/declarative_assembly_format{,_parser}.py).

Generator tree
  definition = sequence of 1..2 SEGMENTS (templates below) + ` attr-dict` + optional type TAIL
               x operand-type mode {infer, inline, tail} x result-type mode {infer, inline, tail}
  instance   = presence subset of optional operands/results/properties x variadic lengths {0,1,2}
               x property values from a pool that contains the default x {without, with} one discardable attribute
Every segment starts with its own unique keyword (`ka<i>` ...), so two segments can never be confused with one
another: a format in this space is unambiguous BY CONSTRUCTION, and a failure is the engine's.  Shapes that the
format compiler does not reject although no parser could round-trip them (a non-optional operand inside an
optional group, adjacent groups with the same leading literal, ...) are deliberately not generated.

An instance is in the space only if (a) it verifies and (b) the format can denote it: a variable bound in the
branch of an optional group that is NOT taken must be empty (e.g. for `(`a` $x^):(`b` $y)?` an op with both x and
y has no custom form -- same in MLIR; such ops are the op verifier's business, not the format engine's).  (b) is
decided on this module's own AST of the format, never by the engine.

Oracle per instance: custom print -> parse in a fresh context -> mc.canon (normalised) equal; generic print ->
parse -> equal.  Any exception on the way (AssertionError from FormatProgram.parse included) is a violation.
Signature: C05|synthetic-format|<shape class of the blamed segment>|<kind>.  For a two-segment definition the
blamed segment is the first one whose one-segment definition (also in the space) shows the same kind of failure;
otherwise the pair of shape classes.
"""
from __future__ import annotations

import io
import itertools
from typing import Any, Callable

from mc.canon import canon
from mc.pool import pmap
from mc.stats import Stats

# --------------------------------------------------------------------------------------------------------------
# format AST (JSON-able lists):  ["kw", s] ["p", s] ["var", name] ["type", name] ["operands"] ["type-operands"]
#                                ["anchor", elem]   ["group", then_elems, else_elems | None]
DEFAULT_INT = 7
INT_POOL = (7, -3, 1)           # contains the default
SLOT_TYPES = ("i32", "i64", "index")
EXTRA_ATTR = "zz_extra"


def K(s): return ["kw", s]
def P(s): return ["p", s]
def V(n): return ["var", n]
def T(n): return ["type", n]
def A(e): return ["anchor", e]
def G(then, els=None): return ["group", then, els]


def render(elems: list) -> str:
    out = []
    for e in elems:
        k = e[0]
        if k == "kw" or k == "p":
            out.append(f"`{e[1]}`")
        elif k == "var":
            out.append(f"${e[1]}")
        elif k == "type":
            out.append(f"type(${e[1]})")
        elif k == "operands":
            out.append("operands")
        elif k == "type-operands":
            out.append("type(operands)")
        elif k == "anchor":
            out.append(render([e[1]]) + "^")
        elif k == "group":
            s = "(" + render(e[1]) + ")"
            if e[2] is not None:
                s += ":(" + render(e[2]) + ")"
            out.append(s + "?")
        else:  # pragma: no cover
            raise ValueError(e)
    return " ".join(out)


# --------------------------------------------------------------------------------------------------------------
# field kinds
#   operands o1 / oo / ov ; results r1 / ro / rv
#   pi  prop_def(IntegerAttr[I32])                pa  prop_def(IntegerAttr)               (type printed)
#   pu  opt_prop_def(UnitAttr)                    pq  opt_prop_def(IntegerAttr[I32])      pqa opt_prop_def(IntegerAttr)
#   pd  prop_def(IntegerAttr[I32], default 7)     pod opt_prop_def(IntegerAttr[I32], default 7)
#   aq  opt_attr_def(IntegerAttr[I32])            au  opt_attr_def(UnitAttr)              ad  attr_def(IntegerAttr[I32], default 7)
OPERAND_KINDS = {"o1", "oo", "ov"}
RESULT_KINDS = {"r1", "ro", "rv"}
KIND_WORD = {"oo": "opt-operand", "ov": "var-operand", "o1": "operand", "ro": "opt-result", "rv": "var-result", "r1": "result",
             "pi": "int-prop", "pa": "untyped-int-prop", "pu": "unit-prop", "pq": "opt-prop", "pqa": "opt-untyped-prop",
             "pd": "default-prop", "pod": "opt-default-prop", "aq": "opt-attr", "au": "unit-attr", "ad": "default-attr",
             "da64": "dense-i64-array-prop", "da32": "dense-i32-array-prop", "daf": "dense-f32-array-prop",
             "dao64": "opt-dense-i64-array-prop", "dao32": "opt-dense-i32-array-prop", "daof": "opt-dense-f32-array-prop"}
# dense-array properties (DenseArrayBase over i64 / i32 / f32), printed in the short `[...]` form; values: [] [0] [1, -2]
DENSE_KINDS = {"da64": "i64", "da32": "i32", "daf": "f32", "dao64": "i64", "dao32": "i32", "daof": "f32"}
DENSE_POOL = ([], [0], [1, -2])


def field_states(kind: str, quick: bool) -> list[Any]:
    if kind in ("o1", "r1"):
        return [1]
    if kind in ("oo", "ro"):
        return [0, 1]
    if kind in ("ov", "rv"):
        return [0, 1, 2]
    if kind in ("pi", "pa"):
        return list(INT_POOL[:2] if quick else INT_POOL)
    if kind in ("pu", "au"):
        return [None, "unit"]
    if kind in DENSE_KINDS:
        return ([None] if kind.startswith("dao") else []) + [list(v) for v in DENSE_POOL]
    return [None, *INT_POOL[:2]]     # pq pqa pd pod aq ad : absent, the default value 7, a non-default value


def is_empty(kind: str, state: Any) -> bool:
    if kind in OPERAND_KINDS or kind in RESULT_KINDS:
        return state == 0
    if kind in ("pd", "pod", "ad"):
        return state is None or state == DEFAULT_INT
    return state is None


def bound(elems: list | None) -> set[str]:
    """names of the variables a list of elements binds (result names stand for their type directive)"""
    out: set[str] = set()
    for e in elems or ():
        if e[0] == "anchor":
            e = e[1]
        if e[0] in ("var", "type"):
            out.add(e[1])
        elif e[0] in ("operands", "type-operands"):
            out.add("*operands")
        elif e[0] == "group":
            out |= bound(e[1]) | bound(e[2])
    return out


def _anchor_of(then: list) -> list:
    for e in then:
        if e[0] == "anchor":
            return e[1]
    raise ValueError("group without anchor")


def _empty_name(name: str, kinds: dict[str, str], inst: dict[str, Any]) -> bool:
    if name == "*operands":
        return all(inst[n] == 0 for n, k in kinds.items() if k in OPERAND_KINDS)
    return is_empty(kinds[name], inst[name])


def representable(elems: list | None, kinds: dict[str, str], inst: dict[str, Any], absent: list[int]) -> bool:
    """own model of what the format can denote; absent[0] counts optional groups whose anchor is absent"""
    for e in elems or ():
        if e[0] != "group":
            continue
        a = _anchor_of(e[1])
        name = "*operands" if a[0] in ("operands", "type-operands") else a[1]
        present = not _empty_name(name, kinds, inst)
        if present:
            if not all(_empty_name(n, kinds, inst) for n in bound(e[2])):
                return False
            if not representable(e[1], kinds, inst, absent):
                return False
        else:
            absent[0] += 1
            if not all(_empty_name(n, kinds, inst) for n in bound(e[1])):
                return False
            if not representable(e[2], kinds, inst, absent):
                return False
    return True


# --------------------------------------------------------------------------------------------------------------
# segment templates:  fn(i, om, rm) -> (tag, [(name, kind)...], elems) | None      i = position (unique names)
def _ty(x: str, om: str) -> list:
    return [P(":"), T(x)] if om == "inline" else []


def _close(kind: str, i: int) -> list:
    """An optional attribute WITHOUT a fixed type is parsed with parse_optional_attribute, which accepts any attribute --
    including a `{...}` dictionary.  Directly followed by attr-dict (or by the next segment) the format would be ambiguous
    by design (`ka0 {zz_extra = 1}`: property or attribute dictionary?  same in MLIR), so such a variable is always
    closed by a keyword of its own."""
    return [K(f"kz{i}")] if kind == "pqa" else []


def _templates() -> list[tuple[str, Callable]]:
    t: list[tuple[str, Callable]] = []

    def add(tid: str, fn: Callable) -> None:
        t.append((tid, fn))

    def otag(base: str, om: str) -> str:
        return f"{base};operand-types-{om}"

    def rtag(base: str, rm: str) -> str:
        return f"{base};result-types-{rm}"

    # ---- operands --------------------------------------------------------------------------------------------
    for k in ("o1", "oo", "ov"):
        def bare(i, om, rm, k=k):
            x = f"x{i}"
            return otag(f"bare[{KIND_WORD[k]}]", om), [(x, k)], [K(f"ka{i}"), V(x), *_ty(x, om)]
        add(f"bare-{k}", bare)
    for k in ("oo", "ov"):
        def grp(i, om, rm, k=k):
            x = f"x{i}"
            return otag(f"optional-group[{KIND_WORD[k]}]", om), [(x, k)], [G([K(f"ka{i}"), A(V(x)), *_ty(x, om)])]
        add(f"group-{k}", grp)

        def grp_else(i, om, rm, k=k):
            x = f"x{i}"
            return (otag(f"optional-group-else-keyword[{KIND_WORD[k]}]", om), [(x, k)],
                    [G([K(f"ka{i}"), A(V(x)), *_ty(x, om)], [K(f"kb{i}")])])
        add(f"group-else-{k}", grp_else)

        def anchor_first(i, om, rm, k=k):
            x = f"x{i}"
            return (otag(f"optional-group-anchor-first[{KIND_WORD[k]}]", om), [(x, k)],
                    [K(f"ka{i}"), G([A(V(x)), *_ty(x, om)])])
        add(f"group-anchor-first-{k}", anchor_first)

        def type_anchor(i, om, rm, k=k):
            if om != "inline":
                return None
            x = f"x{i}"
            return (otag(f"optional-group-type-anchor[{KIND_WORD[k]}]", om), [(x, k)],
                    [K(f"ka{i}"), V(x), G([P(":"), A(T(x))])])
        add(f"group-type-anchor-{k}", type_anchor)

        def type_first(i, om, rm, k=k):
            # the type directive itself is the first (optionally parsable) element AND the anchor, followed by a literal
            if om != "inline":
                return None
            x = f"x{i}"
            return (otag(f"optional-group-type-first[{KIND_WORD[k]}]", om), [(x, k)],
                    [K(f"ka{i}"), V(x), K(f"kb{i}"), G([A(T(x)), K(f"kc{i}")])])
        add(f"group-type-first-{k}", type_first)

        def parens(i, om, rm, k=k):
            x = f"x{i}"
            return (otag(f"optional-group-in-parens[{KIND_WORD[k]}]", om), [(x, k)],
                    [K(f"ka{i}"), G([P("("), A(V(x)), *_ty(x, om), P(")")])])
        add(f"group-parens-{k}", parens)

        for k2 in ("oo", "ov"):
            def else_binds(i, om, rm, k=k, k2=k2):
                x, y = f"x{i}", f"y{i}"
                return (otag(f"optional-group-else-binds[{KIND_WORD[k]},{KIND_WORD[k2]}]", om), [(x, k), (y, k2)],
                        [G([K(f"ka{i}"), A(V(x)), *_ty(x, om)], [K(f"kb{i}"), V(y), *_ty(y, om)])])
            add(f"group-else-binds-{k}-{k2}", else_binds)

    for kx, ky, kz in (("oo", "oo", "oo"), ("ov", "oo", "ov"), ("oo", "ov", "oo")):
        w = f"{KIND_WORD[kx]},{KIND_WORD[ky]}"

        def nested(i, om, rm, kx=kx, ky=ky, w=w):
            x, y = f"x{i}", f"y{i}"
            return (otag(f"nested-optional[{w}]", om), [(x, kx), (y, ky)],
                    [G([K(f"ka{i}"), A(V(x)), *_ty(x, om), G([K(f"kb{i}"), A(V(y)), *_ty(y, om)])])])
        add(f"nested-{kx}-{ky}", nested)

        def nested_else_kw(i, om, rm, kx=kx, ky=ky, w=w):
            x, y = f"x{i}", f"y{i}"
            return (otag(f"nested-optional-with-else-keyword[{w}]", om), [(x, kx), (y, ky)],
                    [G([K(f"ka{i}"), A(V(x)), *_ty(x, om), G([K(f"kb{i}"), A(V(y)), *_ty(y, om)], [K(f"kc{i}")])])])
        add(f"nested-else-kw-{kx}-{ky}", nested_else_kw)

        def nested_else(i, om, rm, kx=kx, ky=ky, kz=kz, w=w):
            x, y, z = f"x{i}", f"y{i}", f"z{i}"
            return (otag(f"nested-optional-with-else[{w},{KIND_WORD[kz]}]", om), [(x, kx), (y, ky), (z, kz)],
                    [G([K(f"ka{i}"), A(V(x)), *_ty(x, om),
                        G([K(f"kb{i}"), A(V(y)), *_ty(y, om)], [K(f"kc{i}"), V(z), *_ty(z, om)])])])
        add(f"nested-else-{kx}-{ky}-{kz}", nested_else)

        def nested_in_else(i, om, rm, kx=kx, ky=ky, kz=kz, w=w):
            x, y, z = f"x{i}", f"y{i}", f"z{i}"
            return (otag(f"nested-optional-in-else-branch[{w},{KIND_WORD[kz]}]", om), [(x, kx), (y, ky), (z, kz)],
                    [G([K(f"ka{i}"), A(V(x)), *_ty(x, om)],
                       [K(f"kb{i}"), G([K(f"kc{i}"), A(V(y)), *_ty(y, om)], [K(f"kd{i}"), V(z), *_ty(z, om)])])])
        add(f"nested-in-else-{kx}-{ky}-{kz}", nested_in_else)

    def nested_anchor_first(i, om, rm):
        # inner group starts with its anchor (no literal): `(`ka` $x^ ($y^)?)?`  (x is a single optional, so no comma ambiguity)
        x, y = f"x{i}", f"y{i}"
        return (otag("nested-optional-anchor-first[opt-operand,opt-operand]", om), [(x, "oo"), (y, "oo")],
                [G([K(f"ka{i}"), A(V(x)), *_ty(x, om), G([A(V(y)), *_ty(y, om)])])])
    add("nested-anchor-first", nested_anchor_first)

    def unit_operand(i, om, rm):
        u, x = f"u{i}", f"x{i}"
        return (otag("optional-group[unit-prop]+dependent-opt-operand", om), [(u, "pu"), (x, "oo")],
                [G([K(f"ka{i}"), A(V(u)), V(x), *_ty(x, om)])])
    add("unit-operand", unit_operand)

    def operands_dir(i, om, rm):
        x, y = f"x{i}", f"y{i}"
        return (otag("operands-directive[operand,var-operand]", om), [(x, "o1"), (y, "ov")],
                [K(f"ka{i}"), ["operands"], *([P(":"), ["type-operands"]] if om == "inline" else [])])
    add("operands-directive", operands_dir)

    def operands_grp(i, om, rm):
        y = f"y{i}"
        return (otag("optional-group[operands-directive]", om), [(y, "ov")],
                [G([K(f"ka{i}"), A(["operands"]), *([P(":"), ["type-operands"]] if om == "inline" else [])])])
    add("operands-group", operands_grp)

    # ---- properties / attributes -------------------------------------------------------------------------------
    for k in ("pi", "pa", "pd", "pq", "pqa"):
        def pbare(i, om, rm, k=k):
            p = f"p{i}"
            return f"bare[{KIND_WORD[k]}]", [(p, k)], [K(f"ka{i}"), V(p), *_close(k, i)]
        add(f"bare-{k}", pbare)
    for k in ("da64", "da32", "daf", "dao64", "dao32", "daof"):
        def dbare(i, om, rm, k=k):
            p = f"p{i}"
            return f"bare[{KIND_WORD[k]}]", [(p, k)], [K(f"ka{i}"), V(p)]
        add(f"bare-{k}", dbare)
    for k in ("dao64", "dao32", "daof"):
        def dgrp(i, om, rm, k=k):
            p = f"p{i}"
            return f"optional-group[{KIND_WORD[k]}]", [(p, k)], [G([K(f"ka{i}"), A(V(p))])]
        add(f"group-{k}", dgrp)

        def dgrp_else(i, om, rm, k=k):
            p = f"p{i}"
            return f"optional-group-else-keyword[{KIND_WORD[k]}]", [(p, k)], [G([K(f"ka{i}"), A(V(p))], [K(f"kb{i}")])]
        add(f"group-else-{k}", dgrp_else)
    for k in ("pu", "pq", "pqa", "pd", "pod", "aq", "au"):
        def pgrp(i, om, rm, k=k):
            p = f"p{i}"
            return f"optional-group[{KIND_WORD[k]}]", [(p, k)], [G([K(f"ka{i}"), A(V(p))])]
        add(f"group-{k}", pgrp)
    for k in ("pu", "pq", "pd"):
        def pgrp_else(i, om, rm, k=k):
            p = f"p{i}"
            return f"optional-group-else-keyword[{KIND_WORD[k]}]", [(p, k)], [G([K(f"ka{i}"), A(V(p))], [K(f"kb{i}")])]
        add(f"group-else-{k}", pgrp_else)
    for k in ("pq", "pqa"):
        def p_anchor_first(i, om, rm, k=k):
            p = f"p{i}"
            return f"optional-group-anchor-first[{KIND_WORD[k]}]", [(p, k)], [K(f"ka{i}"), G([A(V(p))]), *_close(k, i)]
        add(f"group-anchor-first-{k}", p_anchor_first)

        def unit_dep(i, om, rm, k=k):
            u, q = f"u{i}", f"q{i}"
            return (f"optional-group[unit-prop]+dependent-{KIND_WORD[k]}", [(u, "pu"), (q, k)],
                    [G([K(f"ka{i}"), A(V(u)), V(q), *_close(k, i)])])
        add(f"unit-dep-{k}", unit_dep)

    def p_else_binds(i, om, rm):
        p, q = f"p{i}", f"q{i}"
        return ("optional-group-else-binds[opt-prop,opt-untyped-prop]", [(p, "pq"), (q, "pqa")],
                [G([K(f"ka{i}"), A(V(p))], [K(f"kb{i}"), V(q), *_close("pqa", i)])])
    add("prop-else-binds", p_else_binds)

    def attr_dict_default(i, om, rm):
        return "attr-dict-only[default-attr]", [(f"t{i}", "ad")], []
    add("attr-dict-default", attr_dict_default)

    # ---- results ---------------------------------------------------------------------------------------------------
    for k in ("r1", "ro", "rv"):
        def rbare(i, om, rm, k=k):
            r = f"r{i}"
            return rtag(f"bare[type({KIND_WORD[k]})]", rm), [(r, k)], ([K(f"ka{i}"), T(r)] if rm == "inline" else [])
        add(f"bare-{k}", rbare)
    for k in ("ro", "rv"):
        def rgrp(i, om, rm, k=k):
            if rm != "inline":
                return None
            r = f"r{i}"
            return rtag(f"optional-group[type({KIND_WORD[k]})]", rm), [(r, k)], [G([K(f"ka{i}"), A(T(r))])]
        add(f"group-{k}", rgrp)

        def rgrp_type_first(i, om, rm, k=k):
            if rm != "inline":
                return None
            r = f"r{i}"
            return (rtag(f"optional-group-type-first[type({KIND_WORD[k]})]", rm), [(r, k)],
                    [K(f"ka{i}"), G([A(T(r)), K(f"kb{i}")])])
        add(f"group-type-first-{k}", rgrp_type_first)

        def rgrp_punct(i, om, rm, k=k):
            if rm != "inline":
                return None
            r = f"r{i}"
            return (rtag(f"optional-group-punctuation-first[type({KIND_WORD[k]})]", rm), [(r, k)],
                    [K(f"ka{i}"), G([P("->"), A(T(r))])])
        add(f"group-punct-{k}", rgrp_punct)

    def rgrp_else(i, om, rm):
        if rm != "inline":
            return None
        r = f"r{i}"
        return rtag("optional-group-else-keyword[type(opt-result)]", rm), [(r, "ro")], [G([K(f"ka{i}"), A(T(r))], [K(f"kb{i}")])]
    add("group-else-ro", rgrp_else)

    def operand_result(i, om, rm):
        if rm != "inline":
            return None
        x, r = f"x{i}", f"r{i}"
        return (f"optional-group[opt-operand]+dependent-type(opt-result);operand-types-{om};result-types-{rm}",
                [(x, "oo"), (r, "ro")], [G([K(f"ka{i}"), A(V(x)), *_ty(x, om), K(f"kb{i}"), T(r)])])
    add("operand-result", operand_result)
    return t


TEMPLATES = _templates()
TEMPLATE_BY_ID = dict(TEMPLATES)
# core alphabet for the pairs of the quick tier
CORE = ("group-oo", "bare-ov", "group-else-binds-oo-oo", "nested-else-oo-oo-oo", "bare-pi", "group-pd", "group-pu", "group-dao64", "group-ro", "bare-rv", "bare-r1")
MODES_ALL = tuple(itertools.product(("infer", "inline", "tail"), repeat=2))
MODES_PAIR = (("infer", "infer"), ("inline", "inline"), ("tail", "tail"))


def make_spec(tids: tuple[str, ...], om: str, rm: str, attr_dict_kw: bool = False) -> dict | None:
    fields: list[tuple[str, str]] = []
    elems: list = []
    tags: list[str] = []
    for i, tid in enumerate(tids):
        r = TEMPLATE_BY_ID[tid](i, om, rm)
        if r is None:
            return None
        tag, fs, es = r
        tags.append(tag)
        fields += fs
        elems += es
    has_o = any(k in OPERAND_KINDS for _, k in fields)
    has_r = any(k in RESULT_KINDS for _, k in fields)
    om_, rm_ = (om if has_o else None), (rm if has_r else None)
    tail = ""
    if om_ == "tail" and rm_ == "tail":
        tail = " `:` functional-type(operands, results)"
    elif om_ == "tail":
        tail = " `:` type(operands)"
    elif rm_ == "tail":
        tail = " `->` type(results)"
    options = []
    if sum(k in ("oo", "ov") for _, k in fields) >= 2:
        options.append("AttrSizedOperandSegments")
    if sum(k in ("ro", "rv") for _, k in fields) >= 2:
        options.append("AttrSizedResultSegments")
    fmt = (render(elems) + (" attr-dict-with-keyword" if attr_dict_kw else " attr-dict") + tail).strip()
    return {"templates": list(tids), "tags": tags, "fields": [list(f) for f in fields], "options": options, "format": fmt,
            "elems": elems, "om": om_, "rm": rm_}


def definitions(quick: bool) -> list[dict]:
    """the complete, de-duplicated list of definitions of the tier, in a deterministic order"""
    out: list[dict] = []
    seen: set[tuple] = set()

    def push(spec: dict | None) -> None:
        if spec is None:
            return
        key = (spec["format"], tuple(map(tuple, spec["fields"])), spec["om"], spec["rm"])
        if key in seen:
            return
        seen.add(key)
        out.append(spec)

    ids = [tid for tid, _ in TEMPLATES]
    for tid in ids:
        for om, rm in MODES_ALL:
            push(make_spec((tid,), om, rm))
    if not quick:
        for tid in ids:   # attr-dict-with-keyword variant of every single
            for om, rm in MODES_PAIR:
                push(make_spec((tid,), om, rm, attr_dict_kw=True))
    pair_ids = CORE if quick else ids
    for a in pair_ids:
        for b in pair_ids:
            for om, rm in MODES_PAIR:
                push(make_spec((a, b), om, rm))
    return out


# --------------------------------------------------------------------------------------------------------------
# building the class and the instances (the real implementation is only used through its public construction API)
def build_class(spec: dict, n: int):
    from xdsl.dialects.builtin import I32, I64, DenseArrayBase, Float32Type, IntegerAttr, UnitAttr, i32
    from xdsl.irdl import (AttrSizedOperandSegments, AttrSizedResultSegments, IRDLOperation, attr_def, irdl_op_definition,
                           operand_def, opt_attr_def, opt_operand_def, opt_prop_def, opt_result_def, prop_def, result_def,
                           var_operand_def, var_result_def)

    om, rm = spec.get("om"), spec.get("rm")
    dflt = IntegerAttr(DEFAULT_INT, i32)
    ns: dict[str, Any] = {"name": f"test.fmt{n}"}
    for name, kind in spec["fields"]:
        oc = (I32,) if om == "infer" else ()
        rc = (I32,) if rm == "infer" else ()
        ns[name] = {
            "o1": lambda: operand_def(*oc), "oo": lambda: opt_operand_def(*oc), "ov": lambda: var_operand_def(*oc),
            "r1": lambda: result_def(*rc), "ro": lambda: opt_result_def(*rc), "rv": lambda: var_result_def(*rc),
            "pi": lambda: prop_def(IntegerAttr[I32]), "pa": lambda: prop_def(IntegerAttr),
            "pu": lambda: opt_prop_def(UnitAttr), "pq": lambda: opt_prop_def(IntegerAttr[I32]), "pqa": lambda: opt_prop_def(IntegerAttr),
            "pd": lambda: prop_def(IntegerAttr[I32], default_value=dflt), "pod": lambda: opt_prop_def(IntegerAttr[I32], default_value=dflt),
            "aq": lambda: opt_attr_def(IntegerAttr[I32]), "au": lambda: opt_attr_def(UnitAttr),
            "ad": lambda: attr_def(IntegerAttr[I32], default_value=dflt),
            "da64": lambda: prop_def(DenseArrayBase[I64]), "da32": lambda: prop_def(DenseArrayBase[I32]),
            "daf": lambda: prop_def(DenseArrayBase[Float32Type]),
            "dao64": lambda: opt_prop_def(DenseArrayBase[I64]), "dao32": lambda: opt_prop_def(DenseArrayBase[I32]),
            "daof": lambda: opt_prop_def(DenseArrayBase[Float32Type]),
        }[kind]()
    opts = []
    if "AttrSizedOperandSegments" in spec["options"]:
        opts.append(AttrSizedOperandSegments(as_property=True))
    if "AttrSizedResultSegments" in spec["options"]:
        opts.append(AttrSizedResultSegments(as_property=True))
    if opts:
        ns["irdl_options"] = tuple(opts)
    ns["assembly_format"] = spec["format"]
    return irdl_op_definition(type(f"Fmt{n}", (IRDLOperation,), ns))


def make_ctx(cls):
    from xdsl.context import Context
    from xdsl.dialects.builtin import Builtin
    from xdsl.dialects.test import Test

    c = Context()
    c.load_dialect(Builtin)
    c.load_dialect(Test)
    c.load_op(cls)
    return c


def build_module(cls, spec: dict, inst: dict[str, Any]):
    from xdsl.dialects.builtin import DenseArrayBase, IndexType, IntegerAttr, ModuleOp, UnitAttr, f32, i8, i32, i64
    from xdsl.dialects.test import TestOp

    ty = {"i32": i32, "i64": i64, "index": IndexType()}
    o_types = [ty[t] for t in SLOT_TYPES] if spec.get("om") != "infer" else [i32, i32, i32]
    r_types = [ty[t] for t in SLOT_TYPES] if spec.get("rm") != "infer" else [i32, i32, i32]
    prod = TestOp.create(result_types=o_types)
    operands, osizes, rtypes, rsizes = [], [], [], []
    props: dict[str, Any] = {}
    attrs: dict[str, Any] = {}
    j = 0
    for name, kind in spec["fields"]:
        s = inst[name]
        if kind in OPERAND_KINDS:
            operands += [prod.results[(j + e) % 3] for e in range(s)]
            osizes.append(s)
            j += 1
        elif kind in RESULT_KINDS:
            rtypes += [r_types[(j + e) % 3] for e in range(s)]
            rsizes.append(s)
            j += 1
        elif s is not None:
            if kind in ("pu", "au"):
                v = UnitAttr()
            elif kind in DENSE_KINDS:
                elt = {"i64": i64, "i32": i32, "f32": f32}[DENSE_KINDS[kind]]
                v = DenseArrayBase.from_list(elt, [float(e) for e in s] if elt is f32 else list(s))
            elif kind in ("pa", "pqa"):
                v = IntegerAttr(s, i64)
            else:
                v = IntegerAttr(s, i32)
            (attrs if kind[0] == "a" else props)[name] = v
    if "AttrSizedOperandSegments" in spec["options"]:
        props["operandSegmentSizes"] = DenseArrayBase.from_list(i32, osizes)
    if "AttrSizedResultSegments" in spec["options"]:
        props["resultSegmentSizes"] = DenseArrayBase.from_list(i32, rsizes)
    if inst.get(EXTRA_ATTR):
        attrs[EXTRA_ATTR] = IntegerAttr(1, i8)
    op = cls.create(operands=operands, result_types=rtypes, properties=props, attributes=attrs)
    return ModuleOp([prod, op])


def instances(spec: dict, quick: bool):
    names = [n for n, _ in spec["fields"]]
    pools = [field_states(k, quick) for _, k in spec["fields"]]
    for combo in itertools.product(*pools):
        for extra in (False, True):
            inst = dict(zip(names, combo))
            inst[EXTRA_ATTR] = extra
            yield inst


def _text(m: Any, generic: bool) -> str:
    from xdsl.printer import Printer

    s = io.StringIO()
    Printer(stream=s, print_generic_format=generic).print_op(m)
    return s.getvalue()


def _diff_field(c0: tuple, c1: tuple) -> str:
    """which field of the synthetic op differs (no op name, no values: the signature must not depend on N)"""
    try:
        a = c0[0][7][0][1][0][3][1]
        b = c1[0][7][0][1][0][3][1]
        for idx, label in ((1, "op-name"), (2, "operands"), (3, "result-types"), (4, "attributes"), (5, "properties")):
            if a[idx] != b[idx]:
                return label
    except Exception:  # noqa: BLE001
        pass
    return "module-structure"


def check_instance(st: Stats, cls, spec: dict, inst: dict[str, Any], m: Any) -> tuple[str, str, dict] | None:
    """the round trip of ONE instance -> None (clean) or (kind, what, extra witness fields)"""
    from xdsl.parser import Parser

    st.executions += 1
    c0 = canon([m], normalize=True)
    st.transitions += 1
    try:
        tc = _text(m, generic=False)
    except Exception as e:  # noqa: BLE001
        return f"print-raises:{type(e).__name__}", f"custom printing raised {type(e).__name__}: {str(e)[:100]}", {}
    st.transitions += 1
    try:
        m2 = Parser(make_ctx(cls), tc).parse_module()
    except Exception as e:  # noqa: BLE001
        msg = str(e).strip().splitlines()[-1][:120] if str(e).strip() else ""
        return (f"custom-form-does-not-parse:{type(e).__name__}",
                f"the custom form of a verified synthetic op does not parse back ({type(e).__name__}: {msg})", {"text": tc})
    st.evaluations += 1
    c2 = canon([m2], normalize=True)
    if c2 != c0:
        return (f"parses-to-different-ir:{_diff_field(c0, c2)}", "the custom form parses to different IR",
                {"text": tc, "generic": _text(m, True), "reparsed": _text(m2, True)})
    st.transitions += 1
    try:
        tg = _text(m, generic=True)
    except Exception as e:  # noqa: BLE001
        return f"generic-print-raises:{type(e).__name__}", f"generic printing raised {type(e).__name__}", {}
    st.transitions += 1
    try:
        m3 = Parser(make_ctx(cls), tg).parse_module()
    except Exception as e:  # noqa: BLE001
        return (f"generic-form-does-not-parse:{type(e).__name__}", "the generic form of a verified synthetic op does not parse back",
                {"text": tg})
    st.evaluations += 1
    c3 = canon([m3], normalize=True)
    if c3 != c2:
        return (f"custom-and-generic-forms-differ:{_diff_field(c2, c3)}", "custom and generic printings parse to different IR",
                {"text": tc, "generic": tg})
    return None


def record(st: Stats, spec: dict, inst: dict[str, Any], shape: str, failure: tuple[str, str, dict]) -> None:
    kind, what, more = failure
    # the type-placement mode is part of the evidence's shape class but not of the signature (one defect, one signature per shape)
    sig_shape = " + ".join(t.split(";")[0] for t in shape.split(" + "))
    st.violate(f"C05|synthetic-format|{sig_shape}|{kind}", f"{what} [format: {spec['format']}]",
               {"synthetic": {k: spec[k] for k in ("templates", "fields", "options", "format", "om", "rm")} | {"instance": inst, "shape": shape},
                **more})


def run_definition(st: Stats, spec: dict, n: int, quick: bool, shape_of: Callable[[str], str] | None, count: bool = True) -> set[str]:
    """all instances of one definition; returns the set of outcome kinds.  shape_of(kind) -> shape class to blame
    (None: collect the kinds only, used by the blame runs)"""
    kinds: set[str] = set()
    try:
        cls = build_class(spec, n)
    except Exception as e:  # noqa: BLE001 - the format compiler (or IRDL) rejects the definition: not part of the space
        if count:
            st.outcomes[f"synthetic:definition-rejected:{type(e).__name__}"] += 1
            st.bump("synthetic_definitions_rejected")
        return {"rejected"}
    if count:
        st.outcomes["synthetic:definition-accepted"] += 1
        st.bump("synthetic_definitions_accepted")
        st.extra.setdefault("synthetic_shape_classes", [])
        for t in spec["tags"]:
            if t not in st.extra["synthetic_shape_classes"]:
                st.extra["synthetic_shape_classes"].append(t)
    kind_of = dict(map(tuple, spec["fields"]))
    for inst in instances(spec, quick):
        absent = [0]
        if not representable(spec["elems"], kind_of, inst, absent):
            if count:
                st.outcomes["synthetic:instance-not-denotable-by-format"] += 1
            continue
        try:
            m = build_module(cls, spec, inst)
            m.verify()
        except Exception:  # noqa: BLE001
            if count:
                st.outcomes["synthetic:instance-does-not-verify"] += 1
            continue
        failure = check_instance(st, cls, spec, inst, m)
        kinds.add("ok" if failure is None else failure[0])
        if failure is not None and shape_of is not None:
            record(st, spec, inst, shape_of(failure[0]), failure)
        if count:
            st.states += 1
            elided = any(k in ("pd", "pod", "ad") and inst[nm] == DEFAULT_INT for nm, k in spec["fields"])
            if absent[0] or elided:
                st.nontrivial += 1
            st.outcomes["synthetic:instance:" + ("round-trips" if failure is None else "FAILS")] += 1
            if absent[0]:
                st.outcomes["synthetic:instance:some-optional-group-absent"] += 1
            if elided:
                st.outcomes["synthetic:instance:default-valued-entry-equal-to-default"] += 1
    return kinds


_SOLO_CACHE: dict[tuple, set[str]] = {}


def blame(spec: dict, kind: str, quick: bool) -> str:
    """shape class for the signature: the first segment whose one-segment definition fails the same way"""
    tags = spec["tags"]
    if len(tags) == 1:
        return tags[0]
    for tid, tag in zip(spec["templates"], tags):
        key = (tid, spec["om"], spec["rm"], quick)
        if key not in _SOLO_CACHE:
            # the pair's modes, falling back to a neutral value for a side the solo definition does not have
            solo = make_spec((tid,), spec["om"] or "infer", spec["rm"] or "infer")
            _SOLO_CACHE[key] = run_definition(Stats(), solo, 10_000_000, quick, None, count=False) if solo else set()
        if kind in _SOLO_CACHE[key]:
            return tag
    return " + ".join(tags)


def _shard(arg) -> Stats:
    shard, nshards, quick, seed = arg
    st = Stats()
    for n, spec in enumerate(definitions(quick)):
        if n % nshards != shard:
            continue
        run_definition(st, spec, n, quick, lambda kind, spec=spec: blame(spec, kind, quick))
        if (n + seed) % 97 == 0:
            st.sample({"synthetic_format": spec["format"], "fields": spec["fields"]})
    return st


def run_family(merge: Callable[[Stats], None], quick: bool, seed: int = 0) -> dict:
    nshards = 64
    total = Stats()
    for _, st in pmap(_shard, [(i, nshards, quick, seed) for i in range(nshards)]):
        total.merge(st)
    classes = sorted(total.extra.pop("synthetic_shape_classes", []))
    total.extra["synthetic_shape_classes"] = len(classes)
    total.extra["synthetic_shape_class_list"] = classes
    if not total.extra.get("synthetic_definitions_accepted"):
        total.cap("synthetic-format family: no definition was accepted by the format compiler (vacuous)")
    merge(total)
    return {"synthetic_format_definitions": len(definitions(quick)), "segments_per_definition": "1..2",
            "segment_templates": len(TEMPLATES), "pair_alphabet": "core(%d)" % len(CORE) if quick else "all",
            "variadic_lengths": [0, 1, 2], "int_pool": list(INT_POOL[:2]) + ([] if quick else [INT_POOL[2]]),
            "type_modes": "operand x result in {infer, inline, tail}; pairs use the 3 diagonal combinations"}


def replay_synthetic(rep: dict) -> bool:
    w = rep["witness"]["synthetic"]
    spec = make_spec(tuple(w["templates"]), w.get("om") or "infer", w.get("rm") or "infer",
                     attr_dict_kw="attr-dict-with-keyword" in w["format"])
    if spec is None or spec["format"] != w["format"]:
        # grammar changed since the witness was written: rebuild from the recorded fields + format alone
        spec = {**w, "tags": [w["shape"]], "elems": []}
    cls = build_class(spec, 0)
    m = build_module(cls, spec, w["instance"])
    m.verify()
    st = Stats()
    failure = check_instance(st, cls, spec, w["instance"], m)
    if failure is not None:
        record(st, spec, w["instance"], w["shape"], failure)
    return rep["signature"] not in st.violations
