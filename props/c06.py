"""C06 — builtin attributes and types round-trip bit-exactly through text.

Exhaustive (within the bounds of mc/attrgen.py, no sampling) enumeration of builtin attribute / type VALUES
built through the public constructors.  For every value x:

    text   = str(x)                                   (xdsl.printer.Printer)
    parsed = Parser(fresh Context + Builtin, text).parse_attribute() / parse_type()

Oracle (independent of Attribute.__eq__ and of the printer / parser):
  * the built value holds the payload the desc gave to the constructor (expected element bytes / float bits / integer
    computed by the harness from the desc alone, mc/attrgen.expected_payload), and the MLIR literal written by the
    harness from the desc (mc/attrgen.literal, not the printer) parses to the same payload;
  * neither step raises on a constructible value;
  * akey(parsed) == akey(x)      structural key: class + parameters, every float by its bit pattern;
  * dense attributes: the element bit patterns extracted from the raw buffers with `struct` are identical;
  * parsed == x                  (the statement's "equal value"; never trusted alone);
  * str(parsed) == text.
A violation signature is  C06|<class>|<sub type>|<value class>|<defect kind>  - one per defect class.
"""
from __future__ import annotations

import hashlib
import math
import struct
from typing import Any

from mc import attrgen as G
from mc.pool import pmap
from mc.stats import Stats

CHUNK = 4096

_FAMS: dict[str, dict[str, G.Family]] = {}


def _family(tier: str, name: str) -> G.Family:
    if tier not in _FAMS:
        _FAMS[tier] = {f.name: f for f in G.families(tier)}
    return _FAMS[tier][name]


# --------------------------------------------------------------------------------- harness-side classification
def _fclass(db: int) -> str:
    e = (db >> 52) & 0x7FF
    m = db & ((1 << 52) - 1)
    if e == 0x7FF:
        return "inf" if m == 0 else "nan"
    if e == 0 and m == 0:
        return "zero"
    return "finite"


_ELEM_FMT = {1: "B", 2: "H", 4: "I", 8: "Q"}


def _elem_info(t: Any) -> tuple[str, int, str]:
    """(name, byte size, kind) of a dense element type desc; sizes are the harness's own table."""
    if t[0] == "ComplexType":
        n, s, k = _elem_info(t[1])
        return f"complex<{n}>", s, k
    if t[0] == "index":
        return "index", 8, "int"
    if t[0] in ("f16", "bf16"):
        return t[0], 2, t[0]
    if t[0] == "f32":
        return "f32", 4, "f32"
    if t[0] == "f64":
        return "f64", 8, "f64"
    if t[0] == "i":
        w = t[1]
        size = 1 if w <= 8 else 2 if w <= 16 else 4 if w <= 32 else 8
        pre = {"signless": "i", "signed": "si", "unsigned": "ui"}[t[2]]
        return f"{pre}{w}", size, "int"
    raise ValueError(t)


def _raw_elems(attr: Any, size: int) -> list[int]:
    """element bit patterns of a dense attribute, read from the raw buffer with struct."""
    buf = bytes(attr.data.data)
    if len(buf) % size:
        return [-1]
    return [v[0] for v in struct.iter_unpack("<" + _ELEM_FMT[size], buf)]


def _float_elem_class(p: int, kind: str) -> str:
    fmt = {"f16": G.F16, "bf16": G.BF16, "f32": G.F32, "f64": G.F64}[kind]
    return _fclass(G.ieee_to_double_bits(p, fmt))


_ORDER = ["plain", "needs-quotes", "empty", "quote-backslash", "control", "non-ascii"]


def _strclass(s: str | bytes) -> str:
    b = s.encode("utf-8", "surrogatepass") if isinstance(s, str) else s
    if not b:
        return "empty"
    if any(c >= 0x80 for c in b):
        return "non-ascii"
    if any(c < 0x20 or c == 0x7F for c in b):
        return "control"
    if any(c in (0x22, 0x5C) for c in b):
        return "quote-backslash"
    if not (chr(b[0]).isalpha() or b[0] == 0x5F) or any(not (chr(c).isalnum() or c in b"_$.") for c in b):
        return "needs-quotes"
    return "plain"


def _worst(strs: Any) -> str:
    w = "plain"
    for x in strs:
        c = _strclass(x)
        if _ORDER.index(c) > _ORDER.index(w):
            w = c
    return w


def _strings_in(desc: Any) -> list[str]:
    """all python strings that are constructor arguments somewhere in a desc (not tags, not float hex)."""
    out: list[str] = []
    if isinstance(desc, list) and desc and isinstance(desc[0], str) and desc[0] in ("FileLineColLoc", "NameLoc", "StringAttr", "OpaqueAttr"):
        out += [x for x in desc[1:] if isinstance(x, str)]
    if isinstance(desc, list):
        for x in desc[1:] if desc and isinstance(desc[0], str) else desc:
            if isinstance(x, list):
                out += _strings_in(x)
    return out


def _bytesclass(b: bytes) -> str:
    if b.isascii():
        return "ascii"
    try:
        b.decode("utf-8")
        return "utf8"
    except UnicodeDecodeError:
        return "binary"


def sub_descs(desc: Any) -> list[Any]:
    """immediate child descs: constructor arguments that are themselves values."""
    out: list[Any] = []

    def walk(x: Any) -> None:
        if isinstance(x, list):
            if x and isinstance(x[0], str) and x[0] in G.TAGS:
                out.append(x)
            else:
                for y in x:
                    walk(y)

    for arg in desc[1:]:
        walk(arg)
    return out


def classify(desc: Any, x: Any) -> tuple[str, str, str, bool]:
    """(class name, sub type, value class, plain?) - all derived from the desc / the stored payload by the harness."""
    cls = type(x).__name__
    t = desc[0]
    if cls == "FloatAttr":
        db = G.double_bits(x.value.data)
        vc = _fclass(db)
        if vc == "zero" and db >> 63:
            vc = "negative-zero"
        plain = vc == "finite" and float(f"{x.value.data:.5e}") == x.value.data
        return cls, x.type.name, vc, plain
    if t == "IntegerAttr":
        return cls, _elem_info(desc[2])[0] if desc[2][0] != "index" else "index", "int", abs(desc[1]) <= 2
    if t == "StringAttr":
        return cls, "-", _strclass(desc[1]), _strclass(desc[1]) in ("plain", "needs-quotes")
    if t == "BytesAttr":
        return cls, "-", _bytesclass(bytes.fromhex(desc[1])), False
    if t == "SymbolRefAttr":
        return cls, "nested" if desc[2] else "flat", _worst([desc[1]] + list(desc[2])), False
    if t == "DictionaryAttr":
        return cls, "-", "keys-" + _worst(k for k, _ in desc[1]), False
    if t in ("FileLineColLoc", "NameLoc", "CallSiteLoc", "FusedLoc", "OpaqueAttr"):
        extra = "+metadata" if t == "FusedLoc" and desc[2] != ["NoneAttr"] else ""
        return cls, "-", "strings-" + _worst(_strings_in(desc)) + extra, False
    if t in ("Dense", "DenseArray"):
        et = desc[1][1] if t == "Dense" else desc[1]
        name, size, kind = _elem_info(et)
        vc = "int"
        if kind != "int":
            cs = {_float_elem_class(p, kind) for p in _raw_elems(x, size) if p >= 0}
            vc = "non-finite" if cs & {"nan", "inf"} else "zero" if cs == {"zero"} else "finite" if cs else "empty"
        return cls, name, vc, False
    return cls, "-", t, False


# --------------------------------------------------------------------------------- the check of one value
def check_value(st: Stats, desc: Any, fam: str = "?") -> tuple[Any, bool] | None:
    """Returns (structural key, plain?) of the value, or None if the constructor refused the desc."""
    from xdsl.context import Context
    from xdsl.dialects.builtin import Builtin
    from xdsl.ir import TypeAttribute
    from xdsl.parser import Parser

    try:
        x = G.build(desc)
    except Exception as e:  # noqa: BLE001 - not a value: the public constructor refuses it
        st.outcomes[f"{fam}: constructor refuses ({type(e).__name__})"] += 1
        return None
    kx = G.akey(x)
    cls, sub, vc, plain = classify(desc, x)
    wide = cls == "FloatAttr" and sub in ("f80", "f128")
    head = f"C06|{cls}|{sub}|{vc}"
    wit: dict[str, Any] = {"desc": desc, "family": fam}
    st.executions += 1

    def bad(kind: str, what: str, **extra: Any) -> None:
        if wide:        # no packing format exists for f80/f128: outside "each supported precision"
            st.outcomes[f"{fam}: unsupported precision {sub}: {kind}"] += 1
            return
        # a defect of a nested value is reported under the nested value's own (narrower) signature
        inner = Stats()
        for child in sub_descs(desc):
            if child != ["NoneAttr"]:           # NoneAttr arguments mean "absent" and are never printed
                check_value(inner, child, fam)
        if inner.violations:
            for sig, v in inner.violations.items():
                st.violate(sig, v["what"], {**v["witness"], "seen_inside": desc})
            st.outcomes[f"{fam}: VIOLATION inherited from a nested value"] += 1
            return
        st.violate(f"{head}|{kind}", what, {**wit, **extra})
        st.outcomes[f"{fam}: VIOLATION {kind}"] += 1

    # ---- the constructor keeps the payload it was given (expected payload computed from the desc alone)
    exp = G.expected_payload(desc)
    if exp is not None:
        st.evaluations += 1
        obs = G.observed_payload(desc, x)
        if obs != exp:
            bad("constructor-changes-payload",
                f"{cls} built from {str(desc)[:100]} holds a payload that differs from the data given to the constructor",
                expected=[hex(v) if isinstance(v, int) else v for v in exp[2]][:16],
                observed=[hex(v) if isinstance(v, int) else v for v in obs[2]][:16] if obs else None)
        else:
            st.outcomes[f"{fam}: constructor keeps the given payload"] += 1
        # ---- the literal written by the harness (not by the printer) parses to that payload as well
        lit = G.literal(desc)
        if lit is not None:
            st.evaluations += 1
            st.executions += 1
            lctx = Context()
            lctx.load_dialect(Builtin)
            try:
                lp = Parser(lctx, lit).parse_attribute()
                lobs = G.observed_payload(desc, lp) if type(lp).__name__ == cls else ("class", type(lp).__name__, ())
            except Exception as e:  # noqa: BLE001
                lobs = None
                bad(f"literal-parse-raises|{type(e).__name__}", f"the literal {lit[:100]!r} (written by the harness) does not parse: "
                    f"{str(getattr(e, 'msg', e))[:100]}", literal=lit)
            if lobs is not None and lobs != exp:
                bad("literal-parse-changes-payload", f"the literal {lit[:100]!r} parses to a payload that differs from the written elements",
                    literal=lit, expected=[hex(v) if isinstance(v, int) else v for v in exp[2]][:16],
                    observed=[hex(v) if isinstance(v, int) else v for v in lobs[2]][:16])
            elif lobs is not None:
                st.outcomes[f"{fam}: harness literal parses to the written payload"] += 1
    # ---- print
    try:
        text = str(x)
    except Exception as e:  # noqa: BLE001
        bad(f"print-raises|{type(e).__name__}", f"printing a constructible {cls} raises {type(e).__name__}: {str(e)[:120]}")
        return kx, plain
    wit["text"] = text
    # ---- parse in a fresh context
    ctx = Context()
    ctx.load_dialect(Builtin)
    is_type = isinstance(x, TypeAttribute)
    try:
        parser = Parser(ctx, text)
        parsed = parser.parse_type() if is_type else parser.parse_attribute()
    except Exception as e:  # noqa: BLE001
        msg = getattr(e, "msg", None) or str(e)
        bad(f"parse-raises|{type(e).__name__}", f"the printed text of a {cls} does not parse: {type(e).__name__}: {str(msg)[:120]}",
            error=str(msg)[:300])
        return kx, plain
    # ---- oracle
    st.evaluations += 4
    kp = G.akey(parsed)
    try:
        eq = bool(parsed == x) and bool(x == parsed)
    except Exception as e:  # noqa: BLE001
        bad(f"eq-raises|{type(e).__name__}", f"comparing the parsed {cls} with the original raises {type(e).__name__}")
        return kx, plain
    try:
        text2 = str(parsed)
    except Exception as e:  # noqa: BLE001
        text2 = f"<print raises {type(e).__name__}>"
    wit["reprinted"] = text2
    ok = True
    if kp != kx:
        ok = False
        kind = "payload-differs"
        extra: dict[str, Any] = {}
        if type(parsed).__name__ != cls:
            kind = f"class-changed-to-{type(parsed).__name__}"
        elif cls == "FloatAttr":
            a, b = G.double_bits(x.value.data), G.double_bits(parsed.value.data)
            extra = {"bits": f"0x{a:016x}", "parsed_bits": f"0x{b:016x}"}
            if G.akey(parsed.type) != G.akey(x.type):
                kind = "type-changed"
            elif _fclass(a) == "nan" and _fclass(b) == "nan":
                kind = "nan-payload-lost"
            elif _fclass(a) == "zero" and _fclass(b) == "zero":
                kind = "zero-sign-lost"
            else:
                kind = "value-changed"
        elif cls in ("DenseIntOrFPElementsAttr", "DenseArrayBase"):
            et = desc[1][1] if desc[0] == "Dense" else desc[1]
            ename, size, k = _elem_info(et)
            ea, eb = _raw_elems(x, size), _raw_elems(parsed, size)
            extra = {"elements": [hex(v) for v in ea], "parsed_elements": [hex(v) for v in eb]}
            ga, gb = (list(zip(ea[0::2], ea[1::2])), list(zip(eb[0::2], eb[1::2]))) if ename.startswith("complex") else (ea, eb)
            tkey = G.akey(parsed.type) != G.akey(x.type) if cls == "DenseIntOrFPElementsAttr" else G.akey(parsed.elt_type) != G.akey(x.elt_type)
            if tkey:
                kind = "type-changed"
            elif len(ea) != len(eb):
                kind = "element-count-changed"
            elif k != "int":
                diff = [(p, q) for p, q in zip(ea, eb) if p != q]
                cl = {(_float_elem_class(p, k), _float_elem_class(q, k)) for p, q in diff}
                splat = len(set(gb)) == 1 and len(set(ga)) > 1
                if cl == {("zero", "zero")}:
                    kind = "splat-detection-negative-zero" if splat else "zero-sign-lost"
                elif cl == {("nan", "nan")}:
                    kind = "splat-detection-nan-payload" if splat else "nan-payload-lost"
                else:
                    kind = "hex-literal-read-as-integer" if "0x" in text else "element-value-changed"
            else:
                kind = "element-value-changed"
        bad(kind, f"{cls} {text!r} parses back to a structurally different value ({kind}); == says {eq}", eq=eq, **extra)
    elif cls in ("DenseIntOrFPElementsAttr", "DenseArrayBase"):
        # redundant by construction with the key, kept as the explicit bit-for-bit statement of the property
        et = desc[1][1] if desc[0] == "Dense" else desc[1]
        _, size, _ = _elem_info(et)
        if _raw_elems(x, size) != _raw_elems(parsed, size):
            ok = False
            bad("element-bits-differ", f"{cls} {text!r}: raw element bits differ after the round trip")
    if ok and not eq:
        ok = False
        bad("unequal-although-identical", f"{cls} {text!r} parses back to a bit-identical value that == reports as different")
    if ok and text2 != text:
        ok = False
        bad("reprint-differs", f"{cls}: str(parse(str(x))) = {text2!r} differs from str(x) = {text!r}")
    if ok:
        st.outcomes[f"{fam}: round-trips"] += 1
    return kx, plain


def _digest(k: Any) -> bytes:
    return hashlib.blake2b(repr(k).encode("utf-8", "surrogatepass"), digest_size=8).digest()


def _shard(task: tuple[str, str, int, int, int, bool]) -> tuple[Stats, bytes, bytes]:
    tier, name, lo, hi, seed, want_digests = task
    fam = _family(tier, name)
    st = Stats()
    seen: set[bytes] = set()
    nontriv: set[bytes] = set()
    for i in range(lo, hi):
        desc = fam.get(i)
        st.transitions += G.desc_size(desc)
        r = check_value(st, desc, name)
        if r is None:
            continue
        k, plain = r
        dg = _digest(k)
        if dg not in seen:
            seen.add(dg)
            if not plain:
                nontriv.add(dg)
        if (i + seed * 7) % 1511 == 3:
            st.sample({"family": name, "desc": desc})
    if want_digests:
        return st, b"".join(sorted(seen)), b"".join(sorted(nontriv))
    # families whose descs are pairwise distinct values by construction: count locally
    st.states += len(seen)
    st.nontrivial += len(nontriv)
    return st, b"", b""


def run(ctx: Any) -> None:
    tier = "quick" if ctx.quick else "thorough"
    fams = G.families(tier)
    tasks = []
    for f in fams:
        big = len(f) > 1_000_000
        for lo in range(0, len(f), CHUNK * (8 if big else 1)):
            tasks.append((tier, f.name, lo, min(len(f), lo + CHUNK * (8 if big else 1)), ctx.seed, not big))
    # longest families first so the pool drains evenly
    tasks.sort(key=lambda t: (-(t[3] - t[2]), t[1], t[2]))
    seen: dict[str, set[bytes]] = {}
    nontriv: dict[str, set[bytes]] = {}
    for task, (st, dg, nt) in pmap(_shard, tasks):
        ctx.merge(st)
        s = seen.setdefault(task[1], set())
        n = nontriv.setdefault(task[1], set())
        s.update(dg[i:i + 8] for i in range(0, len(dg), 8))
        n.update(nt[i:i + 8] for i in range(0, len(nt), 8))
    allseen = set().union(*seen.values()) if seen else set()
    allnt = set().union(*nontriv.values()) if nontriv else set()
    ctx.stats.states += len(allseen)
    ctx.stats.nontrivial += len(allnt)
    ctx.stats.extra["distinct_values_per_family"] = {k: len(v) for k, v in sorted(seen.items())}
    ctx.bounds = G.bounds(tier)
    ctx.rule = ("every desc of every family of mc/attrgen.py is built with the public constructors, printed and parsed in a fresh "
                "Context; states = distinct constructed values (harness structural key, floats by bits), transitions = constructor "
                "applications, executions = print+parse round trips; non-trivial = distinct values other than small integers, "
                "printable-ASCII strings and finite floats that survive 6 significant digits")
    ctx.assumptions = ["the constructor must keep the integer / float / dense element payload it is given (expected payload computed from the "
                       "desc alone), compared modulo NaN quieting and, for f16, modulo the NaN payload (CPython half-float packing)",
                       "f80/f128 have no packing format in xDSL and are recorded as outcomes only",
                       "harness float decoding (mc/attrgen.ieee_to_double_bits) is exact"]


def replay(rep: dict[str, Any]) -> bool:
    st = Stats()
    w = rep["witness"]
    check_value(st, w["desc"], w.get("family", "?"))
    return rep["signature"] not in st.violations
