"""C07 — parsing any text terminates promptly and fails only with diagnostics.

Three exhaustively enumerated input families, each parsed by the real Parser (+ verify) in worker
processes under a CPU-time budget with a hard kill:
 (a) every token string of length <= n over a lexeme alphabet (one lexeme per token kind and per
     suspicious spelling), placed in five syntactic contexts;
 (b) the complete single-token edit neighbourhood (delete / duplicate / replace by each lexeme /
     insert each lexeme) of every corpus chunk with at most T tokens (own tokenizer);
 (c) pump families  prefix . x^n . suffix  for growing n (unterminated strings, long identifiers,
     numbers, comments, nested brackets, dense lists, opaque attribute bodies).
Oracle: the outcome is IR, ParseError or a verification diagnostic (VerifyException /
DiagnosticException); anything else escaping is a violation keyed by (exception class, innermost xdsl
frame).  User CPU time (immune to other workers) must stay below 2 s + 5 ms per character (measured twice); a batch that does not finish is bisected down to the single hanging input.
"""
from __future__ import annotations

import itertools
import re
import time
import traceback
from typing import Any

from mc import corpus
from mc.pool import kmap, kmap_watchdog
from mc.stats import Stats

LEX = (
    "%0", "%a", "^bb0", "^0", "@f", '@"s"', "#a", "!t", "i32", "f32", "index", "0", "1", "-1", "0x", "0xFF", "1.5", "1.e", "1e5",
    '"x"', '"', '"\\', '"\\FF"', "(", ")", "{", "}", "[", "]", "<", ">", ":", "::", ",", "=", "->", "...", "..", "*", "?", "+",
    "-", "x", "²", "é", "loc", "dense<", "dense", "array<", "affine_map<", "unit", "true", "{-#", "#-}", "builtin.module", '"test.op"',
    "func.func", "attributes", "//", "\n", "%d#0", "%d#1", "%d#2", "%p:2", "%p#2", "#foo.bar<", "!foo.ty<", "#foo<bar", '"', "i32,",
)
REDUCED = ("%0", "^bb0", "^0", "@f", "#a", "!t", "i32", "0", "0x", "1.e", '"x"', '"', "(", ")", "{", "}", "<", ">", ":", ",", "=",
           "->", "²", "loc", "dense<", '"test.op"', "\n", "%d#1", "%p#2", "#foo.bar<", "-")

CONTEXTS = (
    ("top", "{s}"),
    ("attr-dict", '"test.op"() {{a = {s}}} : () -> ()'),
    ("type", '"test.op"() : () -> ({s})'),
    ("region", '"test.op"() ({{\n {s} \n}}) : () -> ()'),
    ("operands", '%r = "test.op"({s}) : () -> (i32)'),
    # operands that refer to ALREADY DEFINED values (%d: one result, %p: two results)
    ("use-after-def", '%d = "test.op"() : () -> (i32)\n%p:2 = "test.op"() : () -> (i32, i32)\n"test.op"({s}) : (i32) -> ()'),
    # the input ends right after the tokens (no closing syntax): end-of-file inside an open construct
    ("attr-dict-open", '"test.op"() {{a = {s}'),
    ("type-open", '"test.op"() : () -> {s}'),
)

TOK = re.compile(r'\s+|//[^\n]*|"(?:\\.|[^"\\\n])*"?|[%^@#!][A-Za-z0-9_$.\-]*|[A-Za-z_][A-Za-z0-9_$.]*|0x[0-9a-fA-F]+|'
                 r'[0-9]+(?:\.[0-9]*)?(?:[eE][-+]?[0-9]+)?|->|::|\.\.\.|.', re.S)

ALLOWED: tuple = ()
_CTX = None


def budget(text: str) -> float:
    return 2.0 + 0.005 * len(text)


def _utime() -> float:
    import resource

    return resource.getrusage(resource.RUSAGE_SELF).ru_utime   # user CPU only: page faults after fork are kernel time


def parse_one(text: str):
    """-> (outcome label, signature or None, cpu seconds)"""
    global ALLOWED, _CTX
    from xdsl.parser import Parser
    from xdsl.utils.exceptions import DiagnosticException, ParseError, VerifyException

    if _CTX is None:
        _CTX = corpus.fresh_ctx()
        ALLOWED = (ParseError, VerifyException, DiagnosticException)
        # warm-up: dialects are imported lazily on first use; that one-off cost is not parsing time
        for name in list(_CTX.registered_dialect_names):
            try:
                _CTX.get_optional_dialect(name) if hasattr(_CTX, "get_optional_dialect") else _CTX.get_dialect(name)
            except Exception:  # noqa: BLE001
                pass
    t0 = _utime()
    sig = None
    try:
        m = Parser(_CTX, text).parse_module()
        try:
            m.verify()
            out = "ir"
        except ALLOWED:
            out = "verify-diagnostic"
    except ALLOWED as e:
        out = type(e).__name__
    except RecursionError:
        out = "RecursionError"
        sig = "C07|RecursionError|deep-nesting"
    except BaseException as e:  # noqa: BLE001
        if isinstance(e, (KeyboardInterrupt, SystemExit)):
            raise
        out = "escaped:" + type(e).__name__
        frames = [f for f in traceback.extract_tb(e.__traceback__) if "/xdsl/" in f.filename]
        where = f"{frames[-1].filename.split('/xdsl/', 1)[1]}:{frames[-1].name}" if frames else "?"
        sig = f"C07|{type(e).__name__}|{where}"
    return out, sig, _utime() - t0


def run_batch(batch, progress=None):
    """batch = (family, [(text, witness), ...]) -> Stats"""
    family, items = batch
    st = Stats()
    for i, (text, wit) in enumerate(items):
        if progress is not None:
            progress(i)
        out, sig, cpu = parse_one(text)
        st.executions += 1
        st.outcomes[f"{family}:{out}"] += 1
        if out not in ("ParseError",):
            st.nontrivial += 1
        if sig is not None:
            st.violate(sig, f"parser escaped with {out.split(':')[-1]} on a {family} input", {**wit, "text": text[:400]})
        if cpu > budget(text):
            cpu = min(cpu, parse_one(text)[2])   # measured twice: a one-off stall (GC, lazy import) is not parsing time
        if cpu > budget(text):
            st.violate(f"C07|slow|{family}|{wit.get('pump', wit.get('context', 'edit'))}",
                       f"parsing took {cpu:.2f}s CPU for {len(text)} characters (budget {budget(text):.2f}s)", {**wit, "text": text[:200], "len": len(text)})
    return st


# ------------------------------------------------------------------ families
def family_tokens(n_full: int, n_reduced: int):
    for cname, tmpl in CONTEXTS:
        for n in range(0, n_reduced + 1):
            alpha = LEX if n <= n_full else REDUCED
            for toks in itertools.product(alpha, repeat=n):
                yield tmpl.format(s=" ".join(toks)), {"context": cname, "tokens": list(toks)}


def family_edits(max_tokens: int, alpha, double_on: int = 0):
    for rel, ci, text in corpus.chunks():
        pieces = TOK.findall(text)
        idx = [i for i, p in enumerate(pieces) if not p.isspace() and not p.startswith("//")]
        if not idx or len(idx) > max_tokens:
            continue
        for k in idx:
            base = {"file": rel, "chunk": ci, "token_index": k}
            yield "".join(pieces[:k] + pieces[k + 1:]), {**base, "edit": "delete"}
            yield "".join(pieces[:k + 1] + [" ", pieces[k]] + pieces[k + 1:]), {**base, "edit": "duplicate"}
            for a in alpha:
                yield "".join(pieces[:k] + [a] + pieces[k + 1:]), {**base, "edit": "replace", "by": a}
                yield "".join(pieces[:k] + [a, " "] + pieces[k:]), {**base, "edit": "insert", "what": a}


PUMPS = (
    ("unterminated-string", '"test.op"() {a = "', "a", ""),
    ("unterminated-string-escapes", '"test.op"() {a = "', "\\\\", ""),
    ("unterminated-symbol", '"test.op"() {a = @"', "a", ""),
    ("long-string", '"test.op"() {a = "', "ab", '"} : () -> ()'),
    ("long-comment", "// ", "x", '\n"test.op"() : () -> ()'),
    ("long-identifier", '"test.op"() {', "a", " = 1} : () -> ()"),
    ("long-decimal", '"test.op"() {a = ', "9", "} : () -> ()"),
    ("long-hex", '"test.op"() {a = 0x', "F", "} : () -> ()"),
    ("long-float", '"test.op"() {a = 1.', "0", " : f32} : () -> ()"),
    ("dense-list", '"test.op"() {a = dense<[', "1, ", "1]> : tensor<3xi32>} : () -> ()"),
    ("opaque-body", '"test.op"() {a = #foo.bar<', "<a>", ">} : () -> ()"),
    ("opaque-unbalanced", '"test.op"() {a = #foo.bar<', "<", "} : () -> ()"),
    ("nested-brackets", '"test.op"() {a = ', "[", "} : () -> ()"),
    ("nested-parens-type", '"test.op"() : () -> ', "(", ""),
    ("nested-regions", '"test.op"() ', "({", ""),
    ("many-ops", "", '"test.op"() : () -> ()\n', ""),
    ("many-results", '%r:', "1", ' = "test.op"() : () -> ()'),
    ("whitespace", '"test.op"()', " \t", ": () -> ()"),
    ("dots", '"test.op"() {a = ', ".", "} : () -> ()"),
    ("carets", "", "^", ""),
    ("percent-idents", '"test.op"(', "%a, ", "%a) : () -> ()"),
    # literal forms whose conversion happens after lexing: hexadecimal bit patterns longer than the float type,
    # a scalar where a complex pair is expected, byte escapes that are not UTF-8
    ("hex-float-scalar-f32", '"test.op"() {a = 0x', "F", " : f32} : () -> ()"),
    ("hex-float-scalar-f16", '"test.op"() {a = 0x', "F", " : f16} : () -> ()"),
    ("hex-float-scalar-f64", '"test.op"() {a = 0x', "F", " : f64} : () -> ()"),
    ("hex-float-dense-f32", '"test.op"() {a = dense<0x', "F", "> : tensor<f32>} : () -> ()"),
    ("hex-float-dense-f64", '"test.op"() {a = dense<[0x', "F", ", 1.0]> : tensor<2xf64>} : () -> ()"),
    ("hex-float-array-f32", '"test.op"() {a = array<f32: 0x', "F", ">} : () -> ()"),
    ("hex-float-complex", '"test.op"() {a = dense<(0x', "F", ", 1.0)> : tensor<1xcomplex<f32>>} : () -> ()"),
    ("scalar-for-complex", '"test.op"() {a = dense<', "1", "> : tensor<2xcomplex<f32>>} : () -> ()"),
    ("complex-for-scalar", '"test.op"() {a = dense<(', "1", ", 2)> : tensor<2xi32>} : () -> ()"),
    ("symbol-byte-escapes", '"test.op"() {a = @"', "\\ff", '"} : () -> ()'),
    ("string-byte-escapes", '"test.op"() {a = "', "\\ff", '"} : () -> ()'),
    ("symbol-nested-byte-escapes", '"test.op"() {a = @a::@"', "\\c3", '"} : () -> ()'),
)


def family_pumps(sizes):
    for name, pre, x, suf in PUMPS:
        for n in sizes:
            if name.startswith("nested") and n > 200:
                continue   # recursion depth is a separate, documented limit of a recursive-descent parser
            yield pre + x * n + suf, {"pump": name, "n": n}


def batches(gen, family: str, size: int):
    cur = []
    for item in gen:
        cur.append(item)
        if len(cur) >= size:
            yield (family, cur)
            cur = []
    if cur:
        yield (family, cur)


MAX_ISOLATED_STALLS = 24


def explore(ctx, all_batches, kill_s: float):
    """Watchdog exploration: a worker reports the item it is parsing; one that makes no progress for `kill_s`
    seconds is killed and the parent knows exactly which input stalled.  The items before it are re-run, the
    items after it continue as a new batch.  After MAX_ISOLATED_STALLS isolated stalls the remaining stalled
    batches are abandoned and the run is marked non-exhaustive (it is failing anyway)."""
    pending = list(all_batches)
    suspects = []
    while pending:
        retry = []
        for task, status, payload in kmap_watchdog(run_batch, pending, stall_s=kill_s):
            if status == "ok":
                ctx.merge(payload)
                continue
            family, items = task
            at = payload
            if len(suspects) >= MAX_ISOLATED_STALLS:
                ctx.stats.cap(f"more than {MAX_ISOLATED_STALLS} stalled inputs: {len(items)} inputs of a stalled batch not explored")
                continue
            suspects.append((family, items[at]))
            if at > 0:
                retry.append((family, items[:at]))
            if at + 1 < len(items):
                retry.append((family, items[at + 1:]))
        pending = retry
    # confirm suspects alone with a generous limit (robust against machine load)
    seen_sig: dict[str, int] = {}
    confirm = []
    for family, (text, wit) in suspects:
        sig = f"C07|hang|{family}|{wit.get('pump', wit.get('context', 'edit'))}"
        seen_sig[sig] = seen_sig.get(sig, 0) + 1
        if seen_sig[sig] <= 2:
            confirm.append((family, [(text, wit)]))
    ctx.stats.extra["stalled_inputs_isolated"] = len(suspects)
    for task, status, res in kmap(run_batch, confirm, timeout_s=45.0):
        family, [(text, wit)] = task
        if status == "ok":
            ctx.merge(res)
            continue
        st = Stats()
        st.executions += 1
        st.outcomes[f"{family}:{status}"] += 1
        st.violate(f"C07|hang|{family}|{wit.get('pump', wit.get('context', 'edit'))}",
                   f"parser did not finish within 45 s on a {len(text)}-character input ({status})",
                   {**wit, "text": text[:200], "len": len(text)})
        ctx.merge(st)


def run(ctx):
    q = ctx.quick
    n_full, n_red = (2, 3) if q else (3, 4)
    max_tok, alpha = (16, REDUCED) if q else (40, LEX)
    sizes = (8, 16, 24, 32, 128, 512, 2048) if q else (8, 16, 20, 24, 28, 32, 128, 512, 2048, 8192)
    bs = list(batches(family_tokens(n_full, n_red), "tokens", 2000))
    bs += list(batches(family_edits(max_tok, alpha), "edit", 1000))
    bs += list(batches(family_pumps(sizes), "pump", 1))
    ctx.stats.states = sum(len(b[1]) for b in bs)
    ctx.stats.transitions = ctx.stats.states
    parse_one('"test.op"() : () -> ()')   # warm-up in the parent: forked workers inherit the loaded dialects
    explore(ctx, bs, kill_s=12.0)
    ctx.stats.sample({"context": "attr-dict", "tokens": ['"', "^0"]})
    ctx.stats.sample({"pump": "unterminated-string", "n": 24})
    ctx.bounds = {"token_string_len_full_alphabet": n_full, "token_string_len_reduced_alphabet": n_red, "alphabet": len(LEX),
                  "reduced_alphabet": len(REDUCED), "contexts": [c[0] for c in CONTEXTS], "edit_max_tokens": max_tok,
                  "edit_alphabet": len(alpha), "pump_sizes": list(sizes), "pumps": [p[0] for p in PUMPS],
                  "time_budget": "2 s + 5 ms/char user CPU (min of two measurements); hard kill by bisection, single suspects re-run alone with 60 s"}
    ctx.rule = ("every lexeme string up to the length bounds in five contexts; every single-token edit of every corpus chunk with at most "
                "T tokens; pump families at the listed sizes; states = inputs; non-trivial = outcome other than a plain ParseError")
    ctx.assumptions = ["allowed outcomes: IR, ParseError, VerifyException/DiagnosticException", "own tokenizer for the edit family",
                       "nesting depth > 200 (Python recursion limit) is outside the claim"]


def replay(rep) -> bool:
    w = rep["witness"]
    text = w.get("text")
    if "pump" in w:
        p = next(p for p in PUMPS if p[0] == w["pump"])
        text = p[1] + p[2] * w["n"] + p[3]
        # run in a killable child: a hang must not hang the replay
        for task, status, res in kmap(run_batch, [("pump", [(text, w)])], timeout_s=30):
            return status == "ok" and not res.violations
    out, sig, cpu = parse_one(text)
    return sig is None and cpu <= budget(text)
