"""C08 — attribute equality and hashing form a consistent value semantics.

Pool A (a fixed, fully enumerated alphabet of attribute OBJECTS, no sampling):
  * mc/attrgen.boundary_pool(): boundary leaves, float payload twins (+-0, NaN payloads) bare and nested in
    ArrayAttr / DictionaryAttr / dense attributes, types, locations ...; every desc is BUILT TWICE;
    (thorough: additionally every value of the small C06 families, each built twice)
  * dialect attributes / types harvested from tests/filecheck, each parsed from the same text in two fresh
    Contexts (all dialects registered);
  * unregistered attributes / types, each parsed in context A, again in context A, and in context B
    (allow_unregistered).
Constructor overloads (C08-m8): FloatAttr(FloatData(v), t) against FloatAttr(v, t) and IntegerAttr(IntAttr(v), t) against
  IntegerAttr(v, t) -- the same parameters through the two overloads the constructors declare -- for v over doubles that are
  not representable in the narrower types, signed zeros, NaN payloads, subnormals; t over every float type and bit width:
  the two values must be ==, hash alike and print alike (`_overloads`).
Oracle on ALL ordered pairs of the pool (== is evaluated once per ordered pair, hash once per object):
  reflexive; symmetric; transitive (all triples - only triples with a==b and b==c can fail, those are all
  visited); a==b => hash(a)==hash(b); == and != are complementary; built twice from the same parameters =>
  equal; same text parsed in two contexts / twice in one context => equal; structural keys that differ in an
  observable payload (an integer, a string, bytes, a float BIT PATTERN, an enum member, a class, a length)
  => a != b; two values BUILT from descs whose harness-side expected payloads (element bytes / float bits /
  integers computed from the desc alone, mc/attrgen.expected_payload) differ => a != b, which also sees a
  constructor that corrupts its input.  The structural key (mc/attrgen.akey) never calls Attribute.__eq__/__hash__ and unifies things
  that are not observable (bool vs int, list vs tuple, dictionary order).
Signatures:  C08|<class>|<sub type>|<law broken>.
"""
from __future__ import annotations

from typing import Any

from mc import attrgen as G
from mc.pool import pmap
from mc.stats import Stats

DIALECT_TEXTS = (
    "#arith.fastmath<fast>", "#arith.fastmath<none>", "#arith.fastmath<nnan,ninf>", "#arith.fastmath<ninf,nnan>",
    "#arith.fastmath<nsz>",
    "!llvm.ptr", "!llvm.ptr<1>", "!llvm.void", "!llvm.struct<()>", "!llvm.struct<(i32)>", "!llvm.array<3 x i8>", "#llvm.cconv<ccc>",
    "!riscv.reg", "!riscv.reg<a0>", "!riscv.reg<a1>", "!riscv.freg", "!riscv.freg<ft0>",
    "!x86.reg64", "!x86.reg64<r8>", "!x86.ssereg", "!arm.reg", "!arm.reg<x1>", "!arm_neon.reg<v1>",
    "!test.reg", "!test.reg<x0>", '!test.type<"foo">', '!test.type<"bar">',
    "!snitch.readable<!riscv.freg<ft0>>", "!snitch.writable<!riscv.freg<ft0>>",
    "!csl.color", "!csl.var<i16>", "!csl.var<i32>", "!ptr_xdsl.ptr", "!air.async.token", "!gpu.async.token", "!bigint.bigint",
    "#builtin.int<0>", "#builtin.int<1>", "!cmath.complex<f32>", "!cmath.complex<f64>",
    "#stencil.index<[0]>", "#stencil.index<[-1]>", "#stencil.index<[1, 0]>", "!stencil.temp<?xf32>", "!stencil.temp<?xf64>",
    "!stencil.result<f64>", "#dmp.topo<2>", "#dmp.topo<2x2>", "#dmp.grid_slice_2d<#dmp.topo<2x2>, false>",
    "#csl_stencil.exchange<to [0, 1]>", "#csl_stencil.exchange<to [1, 0]>",
    "#csl_stencil.coeff<#stencil.index<[1, 0]>, 0.234567806 : f32>",
    "#csl_stencil.coeff<#stencil.index<[1, 0]>, 0.000000e+00 : f32>", "#csl_stencil.coeff<#stencil.index<[1, 0]>, -0.000000e+00 : f32>",
    '#csl_wrapper.param<"pattern" : i16>', '#csl_wrapper.param<"pattern" default=2 : i16>',
    "#dlti.dl_spec<>", "#dlti.dl_entry<i32, i32>", '#dlti.dl_entry<"str", i32>', '#dlti.map<"bitwidth" = 32 : i32>',
    "!pdl.type", "!pdl.value", "!pdl.range<type>", "!pdl.range<value>", "!emitc.ptr<f32>", "!emitc.ptr<i32>",
    "!hw.array<6xi7>", "!hw.array<7xi6>", "#hw.direction<input>", "!ltl.property", "!ltl.sequence",
    "!memref_stream.readable<f32>", "!memref_stream.writable<f32>", "!mpi.request", "!mpi.vector<!mpi.request>",
    "#polynomial.ring<coefficientType = f32>", "#polynomial.ring<coefficientType = f64>",
    "#polynomial.chebyshev_polynomial<[1.000000e+00 : f64, 2.000000e+00 : f64]>",
    "#polynomial.chebyshev_polynomial<[0.000000e+00 : f64]>", "#polynomial.chebyshev_polynomial<[-0.000000e+00 : f64]>",
    "!smt.bool", "!smt.bv<32>", "!smt.func<(!smt.bool) !smt.bool>",
    "#snitch_stream.stride_pattern<ub = [2], strides = [8]>", "#snitch_stream.stride_pattern<ub = [2, 3], strides = [24, 8]>",
    "!stim.qubit<0>", "!stim.qubit<1>", "!transform.any_op", "!transform.param<i32>", "#ub.poison",
    "#vector.kind<add>", "#vector.kind<mul>", "#linalg.iterator_type<parallel>", "#linalg.iterator_type<reduction>",
    "#acc.par_level<seq>", '#acc.var_name<"foo">', '!accfg.state<"acc1">', "#accfg.effects<full>", "#accfg.effects<none>",
    "!wasmssa.funcref", "!seq.clock", "!shard.sharding", "!omp.map_bounds_ty", "!fsm.instancetype",
)

UNREGISTERED_TEXTS = ("#foo.bar<1>", "#foo.bar<2>", "#foo.bar", "!foo.baz", "!foo.baz<i32>", "!foo.qux", "#foo<bar>", "!foo<baz>",
                      '#foo.str<"a">', "#other.bar<1>")


# --------------------------------------------------------------------------------- pool
def recipes(tier: str) -> list[Any]:
    """JSON-able recipes:  ["build", desc, n]  /  ["parse", text, context id, n, registered?]"""
    descs = list(G.boundary_pool())
    if tier != "quick":
        seen = {repr(d) for d in descs}
        for f in G.families("quick"):
            if len(f) <= 2000 and f.name not in ("FloatAttr.wide", "FloatAttr.reduced"):
                for i in range(len(f)):
                    d = f.get(i)
                    if repr(d) not in seen:
                        seen.add(repr(d))
                        descs.append(d)
    out: list[Any] = []
    for d in descs:
        out.append(["build", d, 0])
        out.append(["build", d, 1])
    for t in DIALECT_TEXTS:
        out.append(["parse", t, "R1", 0, True])
        out.append(["parse", t, "R2", 0, True])
    for t in UNREGISTERED_TEXTS:
        out.append(["parse", t, "U1", 0, False])
        out.append(["parse", t, "U1", 1, False])
        out.append(["parse", t, "U2", 0, False])
    return out


def materialize(recs: list[Any], st: Stats | None = None) -> list[tuple[Any, Any]]:
    """[(recipe, attribute)] - recipes whose construction / parse is refused are dropped (and counted)."""
    from xdsl.context import Context
    from xdsl.dialects import get_all_dialects
    from xdsl.parser import Parser

    ctxs: dict[str, Any] = {}

    def ctx_for(cid: str, registered: bool) -> Any:
        if cid not in ctxs:
            c = Context(allow_unregistered=not registered)
            for name, factory in get_all_dialects().items():
                c.register_dialect(name, factory)
            ctxs[cid] = c
        return ctxs[cid]

    out = []
    for r in recs:
        try:
            if r[0] == "build":
                a = G.build(r[1])
            else:
                p = Parser(ctx_for(r[2], r[4]), r[1])
                a = p.parse_type() if r[1].startswith("!") else p.parse_attribute()
        except Exception as e:  # noqa: BLE001 - not a pool member
            if st is not None:
                st.outcomes[f"pool: {r[0]} refused ({type(e).__name__})"] += 1
            continue
        out.append((r, a))
    return out


# --------------------------------------------------------------------------------- key diff
def _is_attr_node(k: Any) -> bool:
    return isinstance(k, tuple) and len(k) == 3 and k[0] in ("P", "D", "A") and isinstance(k[1], tuple)


def key_diff(ka: Any, kb: Any, path: tuple = ()) -> tuple[str, Any, Any, tuple] | None:
    """first differing leaf of two structural keys: (leaf kind, value a, value b, path of enclosing attribute key nodes)"""
    if ka == kb:
        return None
    if _is_attr_node(ka) and _is_attr_node(kb):
        if ka[0] != kb[0] or ka[1] != kb[1]:
            return ("class", ka[1], kb[1], path)
        return key_diff(ka[2], kb[2], path + (ka,))
    if isinstance(ka, tuple) and isinstance(kb, tuple) and ka and kb and isinstance(ka[0], str) and ka[0] == kb[0]:
        tag = ka[0]
        if tag in ("t", "S", "m"):
            if len(ka[1]) != len(kb[1]):
                return ("length", len(ka[1]), len(kb[1]), path)
            for x, y in zip(ka[1], kb[1]):
                d = key_diff(x, y, path)
                if d:
                    return d
            return None
        if tag in ("i", "s", "y", "f"):
            return ({"i": "int", "s": "str", "y": "bytes", "f": "float-bits"}[tag], ka[1], kb[1], path)
        if tag == "e":
            return ("enum", ka[1:], kb[1:], path)
        if tag == "D":              # dataclass payload (AffineMap ...): (tag, qualname, fields)
            if ka[1] != kb[1]:
                return ("class", ka[1], kb[1], path)
            for (_, x), (_, y) in zip(ka[2], kb[2]):
                d = key_diff(x, y, path)
                if d:
                    return d
            return None
        return ("repr", ka, kb, path)
    if isinstance(ka, tuple) and isinstance(kb, tuple) and len(ka) == len(kb):     # (key, value) pairs etc.
        for x, y in zip(ka, kb):
            d = key_diff(x, y, path)
            if d:
                return d
        return None
    return ("shape", repr(ka)[:60], repr(kb)[:60], path)


def _fclass(bits_hex: str) -> str:
    b = int(bits_hex, 16)
    e, m = (b >> 52) & 0x7FF, b & ((1 << 52) - 1)
    return ("inf" if m == 0 else "nan") if e == 0x7FF else "zero" if (e == 0 and m == 0) else "finite"


def _cls_label(a: Any) -> str:
    n = type(a).__name__
    if n.startswith("UnregisteredAttr"):
        return "unregistered-attr"
    name = getattr(type(a), "name", "")
    return name if "." in name and not name.startswith("builtin.") else n


def _children(a: Any) -> list[Any]:
    from xdsl.ir import Attribute, Data, ParametrizedAttribute

    if isinstance(a, ParametrizedAttribute):
        return list(a.parameters)
    if isinstance(a, Data):
        d = a.data
        if isinstance(d, (tuple, list)):
            return [x for x in d if isinstance(x, Attribute)]
        if hasattr(d, "values") and hasattr(d, "keys"):
            return [x for x in d.values() if isinstance(x, Attribute)]
    return []


def innermost_unhashable(a: Any) -> Any:
    """descend into children whose hash raises as well (attribution only)."""
    for c in _children(a):
        if isinstance(_hash(c), str):
            return innermost_unhashable(c)
    return a


def innermost_hash_mismatch(a: Any, b: Any) -> tuple[Any, Any]:
    """descend into positionally corresponding children that are == but hash differently (attribution only)."""
    ca, cb = _children(a), _children(b)
    if len(ca) == len(cb):
        for x, y in zip(ca, cb):
            if _eq(x, y) is True and _hash(x) != _hash(y):
                return innermost_hash_mismatch(x, y)
    return a, b


def _type_label(tnode: Any) -> str:
    """printable name of a scalar type from its structural key node"""
    if not _is_attr_node(tnode):
        return "-"
    name = tnode[1][0]
    if name == "integer_type":
        try:
            w = tnode[2][0][2][1]
            sg = tnode[2][1][2][2]
            return {"SIGNLESS": "i", "SIGNED": "si", "UNSIGNED": "ui"}[sg] + str(w)
        except Exception:  # noqa: BLE001
            return "integer"
    return str(name)


def _sub(a: Any) -> str:
    n = type(a).__name__
    if n == "FloatData":
        return _fclass(f"{G.double_bits(a.data):016x}")
    if n in ("FloatAttr", "IntegerAttr"):
        return str(a.type) if n == "FloatAttr" else ("index" if type(a.type).__name__ == "IndexType" else str(a.type))
    if n == "DenseIntOrFPElementsAttr":
        return str(a.type.element_type)
    if n == "DenseArrayBase":
        return str(a.elt_type)
    return "-"


def diff_signature(d: tuple[str, Any, Any, tuple]) -> tuple[str, str]:
    """(class|sub type of the innermost attribute that holds the differing leaf, defect kind)"""
    kind, va, vb, path = d
    node = path[-1] if path else None

    def label(n: Any) -> str:
        name, qual = n[1]
        return name if name and "." in name and not name.startswith("builtin.") else qual

    owner = label(node) if node else "?"
    sub = "-"
    if node and node[1][1] in ("FloatData", "IntAttr", "BytesAttr", "StringAttr") and len(path) >= 2:
        parent = path[-2]
        pname = label(parent)
        if pname in ("FloatAttr", "IntegerAttr"):
            owner = pname
            tnode = parent[2][1]
            sub = _type_label(tnode)
        elif pname in ("DenseIntOrFPElementsAttr", "DenseArrayBase"):
            owner = pname
    if kind == "float-bits":
        ca, cb = _fclass(va), _fclass(vb)
        what = "signed-zero-equal" if ca == cb == "zero" else "nan-payload-equal" if ca == cb == "nan" else "distinct-floats-equal"
    else:
        what = f"distinct-{kind}-equal"
    return f"{owner}|{sub}", what


# --------------------------------------------------------------------------------- laws
def _eq(a: Any, b: Any) -> Any:
    try:
        return bool(a == b)
    except Exception as e:  # noqa: BLE001
        return f"raises {type(e).__name__}"


def _ne(a: Any, b: Any) -> Any:
    try:
        return bool(a != b)
    except Exception as e:  # noqa: BLE001
        return f"raises {type(e).__name__}"


def _hash(a: Any) -> Any:
    try:
        return hash(a)
    except Exception as e:  # noqa: BLE001
        return f"raises {type(e).__name__}"


def same_origin(ra: Any, rb: Any) -> str | None:
    """why two recipes must denote equal values, or None"""
    if ra[0] == "build" and rb[0] == "build" and ra[1] == rb[1]:
        return "built-twice"
    if ra[0] == "parse" and rb[0] == "parse" and ra[1] == rb[1] and ra[4] == rb[4]:
        tag = "registered-attr" if ra[4] else "unregistered-attr"
        return f"{tag}|two-contexts" if ra[2] != rb[2] else f"{tag}|twice-in-one-context"
    return None


def expected_key(d: Any) -> Any:
    """harness-side EXPECTED payload of a desc (from the desc alone, never from the built object); None if unknown.
    Leaves: mc/attrgen.expected_payload (dense / dense array / float / integer); arrays and dictionaries of known leaves."""
    if d[0] == "ArrayAttr":
        ks = [expected_key(x) for x in d[1]]
        return None if any(k is None for k in ks) or not ks else ("ArrayAttr", tuple(ks))
    if d[0] == "DictionaryAttr":
        ks = [(k, expected_key(v)) for k, v in d[1]]
        return None if any(k[1] is None for k in ks) or not ks else ("DictionaryAttr", tuple(sorted(ks, key=repr)))
    return G.expected_payload(d)


def check_rows(st: Stats, pool: list[tuple[Any, Any]], rows: range, seed: int = 0) -> None:
    n = len(pool)
    keys = [G.akey(a) for _, a in pool]
    exps = [expected_key(r[1]) if r[0] == "build" else None for r, _ in pool]
    hashes = [_hash(a) for _, a in pool]
    eqrow: dict[int, list[Any]] = {}

    def row(i: int) -> list[Any]:
        if i not in eqrow:
            eqrow[i] = [_eq(pool[i][1], pool[j][1]) for j in range(n)]
        return eqrow[i]

    def wit(*idx: int, **kw: Any) -> dict[str, Any]:
        return {"items": [pool[i][0] for i in idx], "printed": [str(pool[i][1])[:80] for i in idx], **kw}

    for i in rows:
        ri, ai = pool[i]
        ki = keys[i]
        ci, si = _cls_label(ai), _sub(ai)
        r = row(i)
        st.executions += n
        # hash defined
        if isinstance(hashes[i], str):
            x = innermost_unhashable(ai)
            st.violate(f"C08|{_cls_label(x)}|{_sub(x)}|hash-{hashes[i].replace(' ', '-')}",
                       f"hash({str(ai)[:60]}) {hashes[i]} (innermost unhashable part: {type(x).__name__} {x!r:.80})", wit(i))
        # reflexive
        st.evaluations += 1
        if r[i] is not True:
            st.violate(f"C08|{ci}|{si}|not-reflexive", f"a == a is {r[i]} for {str(ai)[:60]}", wit(i))
        for j in range(n):
            if j == i:
                continue
            rj, aj = pool[j]
            e = r[j]
            st.evaluations += 4
            if isinstance(e, str):
                st.violate(f"C08|{ci}|{si}|eq-{e.replace(' ', '-')}", f"{str(ai)[:50]} == {str(aj)[:50]} {e}", wit(i, j))
                continue
            # == and != complementary
            ne = _ne(ai, aj)
            if ne is not (not e):
                st.violate(f"C08|{ci}|{si}|eq-ne-not-complementary", f"a == b is {e} but a != b is {ne}", wit(i, j))
            # symmetric (evaluate the reverse direction directly so that a row shard is self-contained)
            rev = _eq(aj, ai)
            if rev != e:
                st.violate(f"C08|{ci}|{si}|asymmetric", f"a == b is {e} but b == a is {rev}", wit(i, j, eq=[e, rev]))
            # hash consistency
            if e and not isinstance(hashes[i], str) and not isinstance(hashes[j], str) and hashes[i] != hashes[j]:
                x, y = innermost_hash_mismatch(ai, aj)
                st.violate(f"C08|{_cls_label(x)}|{_sub(x)}|hash-inconsistent",
                           f"{str(x)[:50]} == {str(y)[:50]} but the hashes differ", wit(i, j, innermost=[str(x)[:60], str(y)[:60]]))
            # equal by origin
            why = same_origin(ri, rj)
            same_key = ki == keys[j]
            if why is not None:
                st.bump("twin_pairs")
                if not e:
                    head = f"C08|{ci}|{si}|built-twice-unequal" if why == "built-twice" else f"C08|{why}-unequal"
                    st.violate(head, f"the same {'parameters' if why == 'built-twice' else 'text'} gives two values that are not ==: {str(ai)[:60]}",
                               wit(i, j))
            # built from observably different data => unequal (catches a constructor that merges its inputs)
            if exps[i] is not None and exps[j] is not None:
                st.evaluations += 1
                if exps[i] != exps[j] and e:
                    st.violate(f"C08|{ci}|{si}|built-from-different-payloads-equal",
                               f"{str(ri[1])[:70]} and {str(rj[1])[:70]} are given different data but the built values are ==",
                               wit(i, j, expected=[repr(exps[i])[:120], repr(exps[j])[:120]]))
            # observable payload difference => unequal
            if not same_key:
                if e:
                    d = key_diff(ki, keys[j])
                    if d is None:
                        continue
                    owner, what = diff_signature(d)
                    st.violate(f"C08|{owner}|{what}", f"{str(ai)[:50]} == {str(aj)[:50]} although the payloads differ ({d[0]}: {d[1]!r} vs {d[2]!r})",
                               wit(i, j, differs=[d[0], repr(d[1])[:80], repr(d[2])[:80]]))
            elif not e and why is None:
                # identical structure, not related by origin: the statement "two attributes built from the same parameters are
                # equal" covers it as well (same class, same parameters)
                st.violate(f"C08|{ci}|{si}|same-parameters-unequal", f"{str(ai)[:60]}: two values with identical class and parameters are not ==",
                           wit(i, j))
            # classification for the counters
            kd = None if same_key else key_diff(ki, keys[j])
            rel = "same structural key" if same_key else "differ only from a float bit pattern on" if kd and kd[0] == "float-bits" else f"differ ({kd[0] if kd else '?'})"
            st.outcomes[f"pair: {rel}: {'==' if e else '!='}"] += 1
            if i < j and (same_key or e or (kd is not None and kd[0] == "float-bits")):
                st.nontrivial += 1
            if (i * n + j + seed * 101) % 40009 == 17:
                st.sample({"a": ri, "b": rj, "eq": e})
        # transitive: for every b with a == b, every c with b == c must satisfy a == c
        for j in range(n):
            if r[j] is True and j != i:
                rb = row(j)
                for k in range(n):
                    if rb[k] is True:
                        st.evaluations += 1
                        if r[k] is not True:
                            st.violate(f"C08|{ci}|{si}|not-transitive", "a == b and b == c but not a == c", wit(i, j, k))


def _shard(task: tuple[str, int, int, int]) -> Stats:
    tier, lo, hi, seed = task
    st = Stats()
    pool = materialize(recipes(tier), st if lo == 0 else None)
    check_rows(st, pool, range(lo, min(hi, len(pool))), seed)
    if lo == 0:
        keys = {repr(G.akey(a)) for _, a in pool}
        st.states += len(keys)
        st.transitions += sum(G.desc_size(r[1]) if r[0] == "build" else 1 for r, _ in pool)
        st.bump("pool_objects", len(pool))
        st.bump("pool_dialect_objects", sum(1 for r, _ in pool if r[0] == "parse" and r[4]))
        st.bump("pool_unregistered_objects", sum(1 for r, _ in pool if r[0] == "parse" and not r[4]))
    return st


GAPS = (0, 1, 2, 15, 16, 17, 63, 64, 65, 127, 128, 129, 255, 256, 257, 511, 512, 513, 1023, 1024, 1025, 4095, 4096, 4097)


def _capacity(task: tuple[int, bool]) -> Stats:
    """history: the same unregistered attribute / type text parsed in context A, then K OTHER distinct unregistered names
    parsed (in fresh contexts), then the text parsed again in context B — K over the boundary list GAPS (every power of two
    up to 4096 and its neighbours: sizes at which a bounded cache would start evicting).  A and B results must be equal,
    hash alike, and stay equal to a third parse in A."""
    from xdsl.context import Context
    from xdsl.parser import Parser

    gap, is_type = task
    st = Stats()
    text = "!capx.victim<i32>" if is_type else "#capx.victim<1>"

    def parse(ctx, t):
        p = Parser(ctx, t)
        return p.parse_type() if t.startswith("!") else p.parse_attribute()

    a_ctx = Context(allow_unregistered=True)
    a = parse(a_ctx, text)
    for k in range(gap):
        c = Context(allow_unregistered=True)
        parse(c, f"#capf.n{k}<1>")
        parse(c, f"!capf.n{k}<i32>")
        st.transitions += 2
    b = parse(Context(allow_unregistered=True), text)
    a2 = parse(a_ctx, text)
    st.states += 1
    st.executions += 3
    st.evaluations += 6
    st.nontrivial += 1 if gap else 0
    kind = "type" if is_type else "attr"
    wit = {"text": text, "other_names_parsed_in_between": gap}
    if not (a == b and b == a and a == a2 and a2 == b):
        st.violate(f"C08|history|unregistered-{kind}|parsed-twice-unequal-after-other-names",
                   f"{text} parsed in two contexts compares unequal once {gap} other unregistered names were parsed in between", wit)
    elif not (hash(a) == hash(b) == hash(a2)):
        st.violate(f"C08|history|unregistered-{kind}|equal-with-different-hash-after-other-names",
                   f"{text} parsed in two contexts is equal but hashes differently after {gap} other unregistered names", wit)
    st.outcomes[f"capacity-gap-checked:{kind}"] += 1
    return st


# ---- constructor overloads: the SAME parameters given as a wrapped data attribute or as a bare Python number (C08-m8)
OVERLOAD_FLOATS = ("0x3fb999999999999a", "0x3fd5555555555555", "0x3ff0000000000001", "0x3ff0000000000000", "0x0000000000000000",
                   "0x8000000000000000", "0x36a0000000000000", "0x380fffffffffffff", "0x47efffffffffffff", "0x40effc0000000001",
                   "0x7ff0000000000000", "0xfff0000000000000", "0x7ff8000000000000", "0x7ff8000000000001", "0xfff8000000000000",
                   "0x400921fb54442d18", "0xc00921fb54442d18", "0x3f50624dd2f1a9fc")
OVERLOAD_INTS = (0, 1, -1, 127, -128, 255, 2 ** 31 - 1, -2 ** 31, 2 ** 63 - 1)


def _overloads(task: tuple[str, int]) -> Stats:
    """`FloatAttr(FloatData(v), t)` vs `FloatAttr(v, t)` (t a float type or a bit width) and `IntegerAttr(IntAttr(v), t)` vs
    `IntegerAttr(v, t)`: identical parameters in the two overloads the constructors declare, so the values must be ==, hash
    alike and print alike; v over doubles that are NOT representable in the narrower types, signed zeros, NaN payloads."""
    import struct

    from xdsl.dialects import builtin as B

    kind, idx = task
    st = Stats()

    def judge(label: str, sub: str, a: Any, b: Any, wit: dict[str, Any]) -> None:
        st.states += 2
        st.transitions += 2
        st.executions += 2
        st.nontrivial += 1
        e, rev = _eq(a, b), _eq(b, a)
        if e is not True or rev is not True:
            st.violate(f"C08|{label}|{sub}|same-parameters-unequal@wrapped-data-overload",
                       f"{str(a)[:60]} (wrapped data) == {str(b)[:60]} (bare number) is {e} / reversed {rev}", wit)
        elif _hash(a) != _hash(b):
            st.violate(f"C08|{label}|{sub}|hash-inconsistent@wrapped-data-overload", f"{str(a)[:60]}: equal values, different hashes", wit)
        elif str(a) != str(b):
            st.violate(f"C08|{label}|{sub}|equal-but-print-differently@wrapped-data-overload", f"{a} vs {b}", wit)
        st.outcomes[f"overload-checked:{label}"] += 1

    if kind == "float":
        hx = OVERLOAD_FLOATS[idx]
        v = struct.unpack("<d", struct.pack("<Q", int(hx, 16)))[0]
        for name, t in (("f16", B.Float16Type()), ("bf16", B.BFloat16Type()), ("f32", B.Float32Type()), ("f64", B.Float64Type()),
                        ("16", 16), ("32", 32), ("64", 64)):
            try:
                a, b = B.FloatAttr(B.FloatData(v), t), B.FloatAttr(v, t)
            except Exception as ex:   # both overloads share the range checks; a value one of them rejects is not a pair
                st.outcomes[f"overload-rejected:{type(ex).__name__}"] += 1
                continue
            judge("FloatAttr", name if not name.isdigit() else f"width-{name}", a, b, {"overload": "float", "index": idx, "double_bits": hx, "type": name})
    else:
        v = OVERLOAD_INTS[idx]
        for name, t in (("i8", B.IntegerType(8)), ("i32", B.IntegerType(32)), ("i64", B.IntegerType(64)), ("index", B.IndexType()),
                        ("width-64", 64)):
            try:
                a, b = B.IntegerAttr(B.IntAttr(v), t), B.IntegerAttr(v, t)
            except Exception as ex:
                st.outcomes[f"overload-rejected:{type(ex).__name__}"] += 1
                continue
            judge("IntegerAttr", name, a, b, {"overload": "int", "index": idx, "value": v, "type": name})
    return st


def run(ctx: Any) -> None:
    tier = "quick" if ctx.quick else "thorough"
    for _, st in pmap(_overloads, [("float", i) for i in range(len(OVERLOAD_FLOATS))] + [("int", i) for i in range(len(OVERLOAD_INTS))]):
        ctx.merge(st)
    for _, st in pmap(_capacity, [(g, t) for g in ([g for g in GAPS if g <= 1025] if ctx.quick else GAPS + (16383, 16384, 16385)) for t in (False, True)]):
        ctx.merge(st)
    n = len(recipes(tier))
    step = max(8, n // (16 if ctx.quick else 96))      # every shard rebuilds the pool: few shards in quick
    tasks = [(tier, lo, lo + step, ctx.seed) for lo in range(0, n, step)]
    for _, st in pmap(_shard, tasks):
        ctx.merge(st)
    ctx.bounds = {"pool_recipes": n, "built_descs_each_twice": sum(1 for r in recipes(tier) if r[0] == "build") // 2,
                  "dialect_texts_two_contexts": len(DIALECT_TEXTS), "unregistered_texts_three_parses": len(UNREGISTERED_TEXTS),
                  "constructor_overload_pairs": {"float_values": len(OVERLOAD_FLOATS), "float_targets": 7, "int_values": len(OVERLOAD_INTS), "int_targets": 5},
                  "unregistered_reparse_after_k_other_names": [g for g in GAPS if g <= 1025] if ctx.quick else list(GAPS) + [16383, 16384, 16385],
                  "pairs": "all ordered pairs of the pool", "triples": "all triples (a,b,c) with a==b and b==c (the others cannot violate transitivity)"}
    ctx.rule = ("pool = every recipe of props/c08.recipes(tier) materialised in each worker; every ordered pair is compared with ==, !=, "
                "hash and the harness structural key; states = distinct structural keys in the pool, transitions = constructor "
                "applications / parses, executions = == evaluations; non-trivial = unordered pairs of distinct objects that are "
                "twins (same key), reported equal, or differ only in a float bit pattern")
    ctx.assumptions = ["mc/attrgen.akey captures exactly the observable payload (class, parameters, ints, strings, bytes, float bits, enums)",
                       "CSE OperationInfo pairs (DESIGN) are not part of this check"]


def replay(rep: dict[str, Any]) -> bool:
    st = Stats()
    if "overload" in rep["witness"]:
        return rep["signature"] not in _overloads((rep["witness"]["overload"], rep["witness"]["index"])).violations
    if "other_names_parsed_in_between" in rep["witness"]:
        w = rep["witness"]
        return rep["signature"] not in _capacity((w["other_names_parsed_in_between"], w["text"].startswith("!"))).violations
    pool = materialize(rep["witness"]["items"])
    if len(pool) != len(rep["witness"]["items"]):
        return True
    check_rows(st, pool, range(len(pool)))
    return rep["signature"] not in st.violations
