"""C09 — IRDL attribute constraints accept exactly what they describe.

Generator tree over a harness-side constraint AST.  Every AST is turned into a REAL constraint through
the public constructors / operators (AnyOf.get, AnyOf(...), `|`, Union hints, AllOf(...), `&`,
ParamAttrConstraint.get / ParamAttrConstraint(...), AttrSetConstraint.get, VarConstraint, MessageConstraint),
so union flattening / relax_constraint merging / Eq-Set folding / the AnyOf class-dispatch table are all on
the path.  The oracle is a reference evaluator `accept(ast, value, env) -> env' | None` that works on
*model values* (plain tuples; it never touches an xDSL attribute or constraint).  Constructions refused with
PyRDLError (the documented definition-time error) are skipped and counted.

Sections
  d2   all trees of depth <= 2 over the full leaf alphabet (every build variant of the root)
  d3   trees of depth 3 over a restricted leaf alphabet
  seq  two constraints sharing constraint variables verified one after the other with ONE ConstraintContext
  hint type hints built from generic attribute classes: irdl_to_attr_constraint(h).verifies == isa == reference
  ord  unions of a broad (non-final) base with the alternatives it covers, in EVERY order of the alternatives
  hist HISTORIES over a pool of SHARED constraint objects (unions with >= 2 bases, Msg/Var wrappers around them, bases,
       Param, Eq, Set): the empty history and every sequence of <= 2 (quick) / <= 2 over a larger pool and <= 3 over a
       smaller one (thorough) construction steps AnyOf(...) / `|` / AllOf(...) / `&` (thorough only) / Msg / Var wrappers
       over pool objects and earlier results, each followed by the client calls get_bases() and verify().  Every history
       runs on a FRESH pool.  Oracle: (1) every pool object / earlier composite accepts exactly what it accepted when
       it was built and (3) reports the same get_bases() value; (2) the new composite accepts exactly the reference
       evaluation of its description.  Constraint objects are values; constructing one must not change another.
In every accepting run the ConstraintContext is harvested and, for every subset S of the bound variables,
`can_infer(S)  =>  infer(ctx|S)` must return an attribute accepted by the constraint (real and reference).

Restrictions (stated in ctx.bounds): no VarConstraint below an AnyOf (xDSL's verify() semantics for variables
bound inside union alternatives is implementation defined); all occurrences of one variable name in a tree /
sequence carry the same declared constraint (so the result does not depend on evaluation order).
"""
import functools
import itertools
import operator
from abc import ABC
from typing import Annotated, Generic, Union

from typing_extensions import TypeVar

from mc.pool import pmap
from mc.stats import Stats
from xdsl.dialects.builtin import (
    ArrayAttr,
    IndexType,
    IntAttr,
    IntegerAttr,
    IntegerType,
    Signedness,
    StringAttr,
)
from xdsl.ir import Attribute, ParametrizedAttribute, TypeAttribute
from xdsl.irdl import (
    AllOf,
    AnyAttr,
    AnyOf,
    AttrSetConstraint,
    BaseAttr,
    ConstraintContext,
    EqAttrConstraint,
    MessageConstraint,
    ParamAttrConstraint,
    VarConstraint,
    irdl_attr_definition,
    irdl_to_attr_constraint,
)
from xdsl.utils.exceptions import PyRDLError, VerifyException
from xdsl.utils.hints import isa


# ------------------------------------------------------------------------------------------------
# test attribute classes
# ------------------------------------------------------------------------------------------------
@irdl_attr_definition
class P(ParametrizedAttribute):
    name = "c09.p"
    x: Attribute
    y: Attribute


class AB(ParametrizedAttribute, ABC):
    """abstract (non-final) base attribute with two final subclasses"""


@irdl_attr_definition
class S1(AB):
    name = "c09.s1"


@irdl_attr_definition
class S2(AB):
    name = "c09.s2"


@irdl_attr_definition
class S3(AB):
    """final subclass of the abstract base that has MANY values (one parameter)"""
    name = "c09.s3"
    v: Attribute


_GA = TypeVar("_GA", bound=Attribute, covariant=True, default=Attribute)
_GB = TypeVar("_GB", bound=Attribute, covariant=True, default=Attribute)


@irdl_attr_definition
class G(ParametrizedAttribute, Generic[_GA, _GB]):
    name = "c09.g"
    p: _GA
    q: _GB


CLS = {
    "IntegerType": IntegerType, "IndexType": IndexType, "IntegerAttr": IntegerAttr, "StringAttr": StringAttr,
    "P": P, "AB": AB, "S1": S1, "S2": S2, "S3": S3, "G": G, "TypeAttribute": TypeAttribute,
    "ParametrizedAttribute": ParametrizedAttribute, "ArrayAttr": ArrayAttr, "Attribute": Attribute,
}

# ------------------------------------------------------------------------------------------------
# model values  (the reference evaluator only ever sees these)
# ------------------------------------------------------------------------------------------------
I1, I32, I64, IDX = ("it", 1), ("it", 32), ("it", 64), ("idx",)
SA, SB = ("s", "a"), ("s", "b")
VS1, VS2 = ("S1",), ("S2",)


def IA(n, t):
    return ("ia", n, t)


def PV(x, y):
    return ("P", x, y)


_TAG_CLASS = {"it": "IntegerType", "idx": "IndexType", "ia": "IntegerAttr", "int": "IntAttr", "s": "StringAttr",
              "P": "P", "S1": "S1", "S2": "S2", "S3": "S3", "arr": "ArrayAttr", "G": "G", "?": "?"}
_SUBCLASSES = {"AB": ("S1", "S2", "S3"), "TypeAttribute": ("IntegerType", "IndexType"),
               "ParametrizedAttribute": ("IntegerType", "IndexType", "IntegerAttr", "P", "S1", "S2", "S3", "G")}


def m_isinstance(v, cname):
    c = _TAG_CLASS[v[0]]
    return cname == "Attribute" or c == cname or c in _SUBCLASSES.get(cname, ())


@functools.lru_cache(maxsize=None)
def real(v):
    k = v[0]
    if k == "it":
        return IntegerType(v[1])
    if k == "idx":
        return IndexType()
    if k == "ia":
        return IntegerAttr(v[1], real(v[2]))
    if k == "int":
        return IntAttr(v[1])
    if k == "s":
        return StringAttr(v[1])
    if k == "P":
        return P(real(v[1]), real(v[2]))
    if k == "G":
        return G(real(v[1]), real(v[2]))
    if k == "S3":
        return S3(real(v[1]))
    if k == "S1":
        return S1()
    if k == "S2":
        return S2()
    if k == "arr":
        return ArrayAttr([real(e) for e in v[1]])
    raise AssertionError(v)


def to_model(a):
    """real attribute -> model value, by plain structural inspection (no equality, no constraints)."""
    t = type(a)
    if t is IntegerType:
        if a.signedness.data is Signedness.SIGNLESS:
            return ("it", a.width.data)
        return ("?", str(a))
    if t is IndexType:
        return IDX
    if t is IntegerAttr:
        return ("ia", a.value.data, to_model(a.type))
    if t is IntAttr:
        return ("int", a.data)
    if t is StringAttr:
        return ("s", a.data)
    if t is P:
        return ("P", to_model(a.x), to_model(a.y))
    if t is G:
        return ("G", to_model(a.p), to_model(a.q))
    if t is S3:
        return ("S3", to_model(a.v))
    if t is S1:
        return VS1
    if t is S2:
        return VS2
    if t is ArrayAttr:
        return ("arr", tuple(to_model(e) for e in a.data))
    return ("?", str(a))


def vname(v):
    k = v[0]
    if k == "it":
        return f"i{v[1]}"
    if k == "idx":
        return "index"
    if k == "ia":
        return f"{v[1]}:{vname(v[2])}"
    if k == "int":
        return f"int{v[1]}"
    if k == "s":
        return f'"{v[1]}"'
    if k in ("P", "G"):
        return f"{k}<{vname(v[1])},{vname(v[2])}>"
    if k == "arr":
        return "[" + ",".join(vname(e) for e in v[1]) + "]"
    if k == "S3":
        return f"S3<{vname(v[1])}>"
    return k


# ------------------------------------------------------------------------------------------------
# reference evaluator
# ------------------------------------------------------------------------------------------------
def accept(c, v, env):
    """env' if the constraint described by AST `c` accepts model value `v` under variable environment `env`
    (a dict name -> model value, never mutated), else None."""
    k = c[0]
    if k == "any":
        return env
    if k == "base":
        return env if m_isinstance(v, c[1]) else None
    if k == "eq":
        return env if v == c[1] else None
    if k == "set":
        return env if v in c[1] else None
    if k == "var":
        name = c[1]
        if name in env:
            return env if env[name] == v else None
        e = accept(c[2], v, env)
        if e is None:
            return None
        e = dict(e)
        e[name] = v
        return e
    if k == "anyof":  # alternatives are variable free (grammar restriction)
        for alt in c[2]:
            if accept(alt, v, {}) is not None:
                return env
        return None
    if k == "allof":
        for sub in c[2]:
            env = accept(sub, v, env)
            if env is None:
                return None
        return env
    if k == "param":
        if v[0] != "P":
            return None
        env = accept(c[2], v[1], env)
        if env is None:
            return None
        return accept(c[3], v[2], env)
    if k == "iattr":
        if v[0] != "ia":
            return None
        return accept(c[1], v[2], env)
    if k == "msg":
        return accept(c[1], v, env)
    if k == "arr":
        if v[0] != "arr":
            return None
        for e in v[1]:
            if accept(c[1], e, {}) is None:
                return None
        return env
    if k == "gparam":
        if v[0] != "G":
            return None
        env = accept(c[1], v[1], env)
        if env is None:
            return None
        return accept(c[2], v[2], env)
    raise AssertionError(c)


# ------------------------------------------------------------------------------------------------
# AST helpers
# ------------------------------------------------------------------------------------------------
ANY = ("any",)


def children(c):
    k = c[0]
    if k in ("anyof", "allof"):
        return c[2]
    if k == "param":
        return (c[2], c[3])
    if k in ("iattr", "msg", "arr"):
        return (c[1],)
    if k == "gparam":
        return (c[1], c[2])
    if k == "var" and c[2] is not None:
        return (c[2],)
    return ()


def nodes(c):
    return 1 + sum(nodes(x) for x in children(c))


def var_names(c, acc=None):
    acc = set() if acc is None else acc
    if c[0] == "var":
        acc.add(c[1])
    else:
        for x in children(c):
            var_names(x, acc)
    return acc


def inst(c, decls):
    """replace variable placeholders ("var", name, None) by ("var", name, decls[name])"""
    k = c[0]
    if k == "var":
        return ("var", c[1], decls[c[1]])
    if k in ("anyof", "allof"):
        return (k, c[1], tuple(inst(x, decls) for x in c[2]))
    if k == "param":
        return (k, c[1], inst(c[2], decls), inst(c[3], decls))
    if k in ("iattr", "msg"):
        return (k, inst(c[1], decls))
    return c


def _max_occurrences(c):
    cnt = {}

    def walk(x):
        if x[0] == "var":
            cnt[x[1]] = cnt.get(x[1], 0) + 1
        else:
            for y in children(x):
                walk(y)

    walk(c)
    return max(cnt.values(), default=0)


def _rename_apart(c, counter):
    k = c[0]
    if k == "var":
        counter[0] += 1
        return ("var", f"{c[1]}{counter[0]}", c[2])
    if k in ("anyof", "allof"):
        return (k, c[1], tuple(_rename_apart(x, counter) for x in c[2]))
    if k == "param":
        return (k, c[1], _rename_apart(c[2], counter), _rename_apart(c[3], counter))
    if k in ("iattr", "msg"):
        return (k, _rename_apart(c[1], counter))
    return c


def tup(x):
    """JSON round trip: nested lists -> nested tuples"""
    if isinstance(x, list):
        return tuple(tup(e) for e in x)
    return x


def show(c):
    k = c[0]
    if k == "any":
        return "Any"
    if k == "base":
        return f"Base({c[1]})"
    if k == "eq":
        return f"Eq({vname(c[1])})"
    if k == "set":
        return "Set(" + ",".join(vname(x) for x in c[1]) + ")"
    if k == "var":
        return f"Var({c[1]},{show(c[2]) if c[2] is not None else '?'})"
    if k in ("anyof", "allof"):
        return f"{k}.{c[1]}(" + ", ".join(show(x) for x in c[2]) + ")"
    if k == "param":
        return f"Param.{c[1]}(P, {show(c[2])}, {show(c[3])})"
    if k == "iattr":
        return f"Param(IntegerAttr, Any, {show(c[1])})"
    if k == "msg":
        return f"Msg({show(c[1])})"
    if k == "arr":
        return f"ArrayOf({show(c[1])})"
    if k == "gparam":
        return f"Param(G, {show(c[1])}, {show(c[2])})"
    return str(c)


# ------------------------------------------------------------------------------------------------
# real construction through the public constructors / operators
# ------------------------------------------------------------------------------------------------
def _natural_hint(c, built):
    k = c[0]
    if k == "base":
        return CLS[c[1]]
    if k == "eq":
        return Annotated[type(real(c[1])), built]
    if k == "param":
        return Annotated[P, built]
    if k == "iattr":
        return Annotated[IntegerAttr, built]
    return Annotated[Attribute, built]


def build(c):
    k = c[0]
    if k == "any":
        return AnyAttr()
    if k == "base":
        return BaseAttr(CLS[c[1]])
    if k == "eq":
        return EqAttrConstraint(real(c[1]))
    if k == "set":
        return AttrSetConstraint.get(*(real(x) for x in c[1]))
    if k == "var":
        return VarConstraint(c[1], build(c[2]))
    if k == "anyof":
        alts = [build(x) for x in c[2]]
        how = c[1]
        if how == "get":
            return AnyOf.get(*alts)
        if how == "or":
            return functools.reduce(operator.or_, alts)
        if how == "ctor":
            return AnyOf(tuple(alts))
        if how == "hint":
            hs = tuple(_natural_hint(x, b) for x, b in zip(c[2], alts))
            return irdl_to_attr_constraint(Union[hs])
        raise AssertionError(how)
    if k == "allof":
        subs = [build(x) for x in c[2]]
        if c[1] == "ctor":
            return AllOf(tuple(subs))
        if c[1] == "and":
            return functools.reduce(operator.and_, subs)
        raise AssertionError(c[1])
    if k == "param":
        a, b = build(c[2]), build(c[3])
        if c[1] == "get":
            return ParamAttrConstraint.get(P, a, b)
        if c[1] == "ctor":
            return ParamAttrConstraint(P, (a, b))
        raise AssertionError(c[1])
    if k == "iattr":
        return ParamAttrConstraint.get(IntegerAttr, None, build(c[1]))
    if k == "msg":
        return MessageConstraint(build(c[1]), "c09 message")
    raise AssertionError(c)


# ------------------------------------------------------------------------------------------------
# universes
# ------------------------------------------------------------------------------------------------
U_BASE = (
    I1, I32, I64, IDX,
    IA(0, I32), IA(1, I32), IA(0, I64), IA(0, IDX), IA(1, IDX),
    SA, SB, VS1, VS2, ("S3", I32), ("S3", I64),
)
U_P = (
    PV(I32, I32), PV(I32, I64), PV(I64, I32), PV(I64, I64), PV(I32, SA), PV(SA, I32), PV(SA, SB),
    PV(IDX, I32), PV(VS1, VS2), PV(IA(0, I32), IDX),
    PV(PV(I32, I32), I32), PV(I32, PV(I32, I64)), PV(PV(I32, I64), PV(SA, I32)), PV(PV(I64, I32), PV(I32, I32)),
)
U_QUICK = U_BASE + U_P
_PX = (I32, I64, IDX, SA, VS1, IA(0, I32), PV(I32, I32), PV(I32, I64))


def _dedup(seq):
    out, seen = [], set()
    for x in seq:
        if x not in seen:
            seen.add(x)
            out.append(x)
    return tuple(out)


U_THOROUGH = _dedup(U_QUICK + tuple(PV(x, y) for x in _PX for y in _PX))
# universe used for sub-tree localisation: everything plus every parameter value occurring in it
U_LOCAL = _dedup(U_THOROUGH + (("int", 0), ("int", 1)))
U_SEQ = (I32, I64, IDX, IA(0, I32), SA, VS1, PV(I32, I32), PV(I32, I64), PV(I64, I64), PV(SA, I32),
         PV(PV(I32, I32), I32), PV(I32, PV(I32, I64)))
U_ARR = (
    ("arr", ()), ("arr", (SA,)), ("arr", (SA, SB)), ("arr", (IA(0, IDX),)), ("arr", (IA(0, IDX), IA(0, I32))),
    ("arr", (IA(0, I32), IA(1, I32))), ("arr", (I32,)), ("arr", (SA, I32)), ("arr", (("arr", (SA,)),)),
    ("arr", (("arr", ()), SA)),
    ("G", I32, SA), ("G", IDX, SA), ("G", I32, I32), ("G", IDX, I32), ("G", SA, SA), ("G", SA, IDX),
)
U_HINT = U_QUICK + U_ARR

# ------------------------------------------------------------------------------------------------
# leaf alphabets
# ------------------------------------------------------------------------------------------------
def _base(n):
    return ("base", n)


def _eq(v):
    return ("eq", v)


def _set(*vs):
    return ("set", tuple(vs))


LEAVES_FULL = (
    ANY,
    _base("IntegerType"), _base("IndexType"), _base("IntegerAttr"), _base("StringAttr"), _base("P"), _base("AB"),
    _base("S1"), _base("TypeAttribute"),
    _eq(I32), _eq(I64), _eq(IDX), _eq(IA(0, I32)), _eq(SA), _eq(VS1), _eq(PV(I32, I32)), _eq(("S3", I32)),
    _set(I32, I64), _set(I32, IDX), _set(SA, SB), _set(I32, SA), _set(PV(I32, I32), PV(I32, I64)), _set(VS1, VS2),
)
LEAVES_D3_QUICK = (ANY, _base("IntegerType"), _base("P"), _base("AB"), _eq(I32), _set(I32, I64))
LEAVES_D3_THOROUGH = LEAVES_D3_QUICK + (_base("StringAttr"), _eq(I64), _eq(PV(I32, I32)))
LEAVES_SEQ = (ANY, _base("IntegerType"), _eq(I32), _base("P"))
VAR_T = ("var", "T", None)
VAR_U = ("var", "U", None)
DECLS_QUICK = {"T": (ANY, _base("IntegerType")), "U": (ANY, _eq(I32))}
DECLS_THOROUGH = {"T": (ANY, _base("IntegerType"), _set(I32, I64)), "U": (ANY, _eq(I32), _base("AB"))}

ANYOF_HOWS = ("get", "or", "ctor", "hint")
ALLOF_HOWS = ("ctor", "and")
PARAM_HOWS = ("get", "ctor")


def level1(free, allv):
    """all depth-2 trees (default build variant) over the given leaves; returns (var-free list, full list)"""
    f = list(free)
    a = list(allv)
    for x in free:
        for y in free:
            f.append(("anyof", "get", (x, y)))
    a.extend(f[len(free):])
    for x in allv:
        for y in allv:
            for t in (("allof", "ctor", (x, y)), ("param", "get", x, y)):
                a.append(t)
                if not var_names(t):
                    f.append(t)
    for x in allv:
        for t in (("iattr", x), ("msg", x)):
            a.append(t)
            if not var_names(t):
                f.append(t)
    return f, a


def root_groups(kind, first, free, allv, triples_pool=None):
    """groups of root nodes of one kind whose FIRST child is `first`; a group is the list of build variants of
    one (kind, children) combination."""
    if kind == "anyof":
        for y in free:
            yield [("anyof", h, (first, y)) for h in ANYOF_HOWS]
    elif kind == "anyof3":
        for y in triples_pool:
            for z in triples_pool:
                yield [("anyof", h, (first, y, z)) for h in ANYOF_HOWS]
    elif kind == "allof":
        for y in allv:
            yield [("allof", h, (first, y)) for h in ALLOF_HOWS]
    elif kind == "allof3":
        for y in triples_pool:
            for z in triples_pool:
                yield [("allof", h, (first, y, z)) for h in ALLOF_HOWS]
    elif kind == "param":
        for y in allv:
            yield [("param", h, first, y) for h in PARAM_HOWS]
    elif kind == "unary":
        yield [("iattr", first)]
        yield [("msg", first)]
        yield [first]
    else:
        raise AssertionError(kind)


# ------------------------------------------------------------------------------------------------
# checking one tree
# ------------------------------------------------------------------------------------------------
_NONFINAL = ("AB", "TypeAttribute", "ParametrizedAttribute", "Attribute")


def _kinds(cs):
    return "+".join(sorted({x[0] for x in cs}))


def _signature(n, c, fk):
    k = n[0]
    if k == "anyof":
        merged = not (isinstance(c, AnyOf) and len(c.attr_constrs) == len(n[2]))
        what = "merge-changes-accepted-set" if merged else "verify"
        if any(x[0] == "base" and x[1] in _NONFINAL for x in n[2]):
            # a union with a BaseAttr over a non-final class (the "abstract" slot of the dispatch table)
            return f"C09|AnyOf|{what}|nonfinal-base-alternative|{fk}"
        return f"C09|AnyOf|{what}|{n[1]}|{_kinds(n[2])}|{fk}"
    if k == "allof":
        return f"C09|AllOf|{n[1]}|{_kinds(n[2])}|{fk}"
    if k == "param":
        return (f"C09|ParamAttrConstraint|{n[1]}|{_kinds((n[2], n[3]))}|"
                + ("accepts-wrong-param" if fk == "false-accept" else "rejects-valid-param"))
    if k == "iattr":
        return f"C09|ParamAttrConstraint|IntegerAttr|{n[1][0]}|{fk}"
    cname = {"any": "AnyAttr", "base": "BaseAttr", "eq": "EqAttrConstraint", "set": "AttrSetConstraint",
             "var": "VarConstraint", "msg": "MessageConstraint"}.get(k, k)
    return f"C09|{cname}|verify|{fk}"


def _real_verdict(c, a):
    """'acc' / 'rej' / 'raise:<Exc>' plus the context"""
    ctx = ConstraintContext()
    try:
        c.verify(a, ctx)
    except VerifyException:
        return "rej", ctx
    except Exception as e:  # noqa: BLE001
        return f"raise:{type(e).__name__}", ctx
    return "acc", ctx


_DISAGREE_CACHE = {}


def _disagrees(n):
    """first (value, got, expected, constraint) on which the stand-alone real constraint for n differs from the
    reference over U_LOCAL (memoised: only used to localise a failure)"""
    if n in _DISAGREE_CACHE:
        return _DISAGREE_CACHE[n]
    res = None
    try:
        c = build(n)
    except PyRDLError:
        c = None
    if c is not None:
        for v in U_LOCAL:
            got, _ = _real_verdict(c, real(v))
            exp = "acc" if accept(n, v, {}) is not None else "rej"
            if got != exp:
                res = (v, got, exp, c)
                break
    if len(_DISAGREE_CACHE) < 100000:
        _DISAGREE_CACHE[n] = res
    return res


def _localize(n, v, got, exp, c):
    """descend to the deepest sub-tree that (stand-alone, empty environment) still disagrees with the reference"""
    while n[0] != "var":
        for ch in children(n):
            d = _disagrees(ch)
            if d is not None:
                n = ch
                v, got, exp, c = d
                break
        else:
            break
    return n, v, got, exp, c


def _report(st, root, v, got, exp, c):
    n, lv, lgot, lexp, lc = _localize(root, v, got, exp, c)
    if lgot.startswith("raise:"):
        sig = f"C09|verify|raises|{n[0]}|{lgot[6:]}"
        what = f"{show(n)}.verify({vname(lv)}) raised {lgot[6:]} instead of accepting or rejecting"
    else:
        fk = "false-accept" if lgot == "acc" else "false-reject"
        sig = _signature(n, lc, fk)
        if n[0] != "var" and _max_occurrences(n) >= 2:
            # is the handling of repeated variable occurrences to blame?  Rename every occurrence apart: if the
            # implementation then agrees with the reference, the structure is fine and the equality check is not.
            apart = _rename_apart(n, [0])
            try:
                ga, _ = _real_verdict(build(apart), real(lv))
            except PyRDLError:
                ga = None
            if ga == ("acc" if accept(apart, lv, {}) is not None else "rej"):
                sig = "C09|VarConstraint|" + ("occurrences-not-equal" if fk == "false-accept" else "rejects-equal-occurrences")
        what = (f"{show(n)} {'accepts' if lgot == 'acc' else 'rejects'} {vname(lv)}; "
                f"the definition says it must be {'accepted' if lexp == 'acc' else 'rejected'} (built as {lc!r})")
    st.violate(sig, what, {"mode": "tree", "ast": root, "attr": v, "culprit": n, "culprit_attr": lv,
                           "got": lgot, "expected": lexp, "real_constraint": repr(lc)[:400]})


def _subsets(names):
    names = sorted(names)
    for r in range(len(names) + 1):
        yield from itertools.combinations(names, r)


def _check_infer(st, ast, c, bound, seen):
    """bound: name -> real attribute, harvested from an accepting run (so a solution exists under every subset of
    these bindings).  For every subset S: can_infer(S) => infer(ctx|S) is accepted by verify() under ctx|S and by
    the reference."""
    for S in _subsets(bound):
        envS = {n: to_model(bound[n]) for n in S}
        key = tuple(sorted(envS.items()))
        if key in seen:
            continue
        seen.add(key)
        st.evaluations += 1
        wit = {"mode": "infer", "ast": ast, "vars": envS}
        try:
            can = c.can_infer(set(S))
        except Exception as e:  # noqa: BLE001
            st.violate(f"C09|can_infer|raises|{ast[0]}|{type(e).__name__}", f"{show(ast)}.can_infer({set(S)}) raised {e!r}", wit)
            continue
        if not can:
            st.bump("infer_not_claimed")
            continue
        cS = ConstraintContext()
        for n in S:
            cS.set_attr_variable(n, bound[n])
        try:
            r = c.infer(cS)
        except Exception as e:  # noqa: BLE001
            st.violate(f"C09|infer|raises-despite-can_infer|{ast[0]}|{type(e).__name__}",
                       f"{show(ast)}: can_infer({set(S)}) is True but infer raised {type(e).__name__}: {e}", wit)
            continue
        st.bump("infer_checked")
        cV = ConstraintContext()
        for n in S:
            cV.set_attr_variable(n, bound[n])
        try:
            c.verify(r, cV)
            ok_real = True
        except VerifyException:
            ok_real = False
        rm = to_model(r) if isinstance(r, Attribute) else ("?", repr(r))
        ok_ref = accept(ast, rm, envS) is not None
        if not (ok_real and ok_ref):
            who = " and ".join(w for w, ok in (("verify()", ok_real), ("the definition", ok_ref)) if not ok)
            st.violate(f"C09|infer|result-violates-constraint|{ast[0]}",
                       f"{show(ast)}: can_infer({set(S)}) is True but infer() = {vname(rm)} is rejected by {who} "
                       f"under {{{', '.join(f'{n}={vname(envS[n])}' for n in S)}}}",
                       {**wit, "inferred": rm, "real_ok": ok_real, "ref_ok": ok_ref})


def _bound(ctx):
    return {n: ctx.get_variable(n) for n in sorted(ctx.attr_variables)}


def _refusal(e):
    m = str(e)
    for key in ("shares a base", "overlaps with", "cannot be verified as disjoint", "without bases", "instantiated generic"):
        if key in m:
            return key.replace(" ", "-")
    return type(e).__name__


def run_tree(st, ast, uni, ref_acc=None):
    """build `ast`, compare verify()/verifies() with the reference on every value of `uni`, run the inference
    oracle on harvested contexts.  Returns the tuple of accepted flags, or None when construction is refused."""
    st.transitions += nodes(ast)
    try:
        c = build(ast)
    except PyRDLError as e:
        st.bump("constructions_refused")
        st.outcomes[f"refused:{ast[0]}:{ast[1] if ast[0] in ('anyof', 'allof', 'param') else ''}:{_refusal(e)}"] += 1
        return None
    st.states += 1
    has_vars = bool(var_names(ast))
    flags = []
    seen_inf = set()
    for i, v in enumerate(uni):
        a = real(v)
        exp = (accept(ast, v, {}) is not None) if ref_acc is None else ref_acc[i]
        got, ctx = _real_verdict(c, a)
        st.executions += 1
        st.evaluations += 1
        flags.append(got == "acc")
        if got != ("acc" if exp else "rej"):
            _report(st, ast, v, got, "acc" if exp else "rej", c)
            continue
        if got == "acc":
            if has_vars or not seen_inf:
                _check_infer(st, ast, c, _bound(ctx), seen_inf)
            if i % 7 == 0:  # the public boolean helper must agree with verify()
                st.evaluations += 1
                if not c.verifies(a):
                    st.violate("C09|verifies|disagrees-with-verify", f"{show(ast)}.verifies({vname(v)}) is False but verify() passes",
                               {"mode": "tree", "ast": ast, "attr": v})
    nacc = sum(flags)
    if 0 < nacc < len(flags):
        st.nontrivial += 1
    st.outcomes[f"built:{ast[0]}->{type(c).__name__}"] += 1
    return tuple(flags)


def check_group(st, group, uni):
    """group: build variants of the same (kind, children): each vs reference, and pairwise equal accepted sets"""
    ref = None
    if not var_names(group[0]):
        ref = [accept(group[0], v, {}) is not None for v in uni]
    res = []
    for ast in group:
        fl = run_tree(st, ast, uni, ref)
        if fl is not None:
            res.append((ast, fl))
    for (a1, f1), (a2, f2) in zip(res, res[1:]):
        st.evaluations += 1
        if f1 != f2:
            i = next(i for i in range(len(f1)) if f1[i] != f2[i])
            st.violate(f"C09|{a1[0]}|build-variants-disagree|{a1[1]}-vs-{a2[1]}|{_kinds(children(a1))}",
                       f"{show(a1)} and {show(a2)} are the same {a1[0]} built two ways but differ on {vname(uni[i])}",
                       {"mode": "group", "group": group, "attr": uni[i], "first": f1[i], "second": f2[i]})
    return len(res)


# ------------------------------------------------------------------------------------------------
# unions in EVERY order of their alternatives (broad non-final base x alternatives it covers)
# ------------------------------------------------------------------------------------------------
BROAD = (_base("AB"), _base("TypeAttribute"), ("base", "ParametrizedAttribute"), ("base", "Attribute"))


def order_pools(cfg):
    """(pair pool, triple pool): variable-free alternatives that are combined with every broad base"""
    free, _, _ = _pools("d3", cfg)
    leaves = [x for x in LEAVES_FULL if x != ANY and x not in BROAD]
    pair_pool = leaves + [t for t in free if t[0] not in ("any", "base", "eq", "set")]
    trip_extra = [t for t in free if t[0] in ("param", "iattr")][:cfg["ord_trip"]]
    return pair_pool, leaves + trip_extra


def check_order_group(st, alts, uni):
    """alts: the alternatives of one union.  Every distinct permutation x every build variant: each one that
    builds must accept exactly the reference set (run_tree), and all of them must accept the SAME set (cross-order
    law).  One order building while another is refused is only counted."""
    perms = _dedup(itertools.permutations(alts))
    ref = [accept(("anyof", "get", tuple(alts)), v, {}) is not None for v in uni]
    built = []
    refused = 0
    for how in ANYOF_HOWS:
        nb = 0
        for pm in perms:
            ast = ("anyof", how, pm)
            fl = run_tree(st, ast, uni, ref)
            if fl is None:
                refused += 1
            else:
                nb += 1
                built.append((ast, fl))
        if 0 < nb < len(perms):
            st.bump("order_dependent_refusal")
            st.outcomes[f"order-dependent-refusal:{how}"] += 1
    for a2, f2 in built[1:]:
        a1, f1 = built[0]
        st.evaluations += 1
        if f1 != f2:
            i = next(i for i in range(len(f1)) if f1[i] != f2[i])
            st.violate("C09|AnyOf|alternative-order-changes-accepted-set",
                       f"{show(a1)} and {show(a2)} have the same alternatives but differ on {vname(uni[i])}",
                       {"mode": "order", "alts": list(alts), "attr": uni[i], "first": show(a1), "second": show(a2)})
    if built:
        st.bump("order_groups_built")
    return len(built)


def groups_with_decls(groups, decls):
    for g in groups:
        names = sorted(var_names(g[0]))
        if not names:
            yield g
            continue
        for combo in itertools.product(*(decls[n] for n in names)):
            d = dict(zip(names, combo))
            yield [inst(t, d) for t in g]


# ------------------------------------------------------------------------------------------------
# sequences sharing one ConstraintContext
# ------------------------------------------------------------------------------------------------
def check_sequence(st, c1a, c2a, c1, c2, uni):
    """verify (c1,a1) then (c2,a2) with one shared context, for all a1,a2 in uni"""
    for v1 in uni:
        ctx = ConstraintContext()
        try:
            c1.verify(real(v1), ctx)
            ok1 = True
        except VerifyException:
            ok1 = False
        env1 = accept(c1a, v1, {})
        st.executions += 1
        if not ok1 or env1 is None:
            continue  # (a single-constraint disagreement is reported by the tree sections)
        bound = _bound(ctx)
        satisfiable = False
        for v2 in uni:
            ctx2 = ConstraintContext()
            for n, val in bound.items():
                ctx2.set_attr_variable(n, val)
            try:
                c2.verify(real(v2), ctx2)
                got = True
            except VerifyException:
                got = False
            exp = accept(c2a, v2, env1) is not None
            st.executions += 1
            st.evaluations += 1
            st.outcomes[f"seq:{'acc' if got else 'rej'}"] += 1
            if got != exp:
                shared = sorted(var_names(c1a) & var_names(c2a))
                sig = "C09|VarConstraint|sequence|" + ("occurrences-not-equal" if got else "rejects-equal-occurrences")
                st.violate(sig, f"with one shared context, {show(c1a)} accepted {vname(v1)} and then {show(c2a)} "
                           f"{'accepts' if got else 'rejects'} {vname(v2)} (shared variables {shared}); the definition says "
                           f"{'reject' if got else 'accept'}",
                           {"mode": "seq", "c1": c1a, "c2": c2a, "a1": v1, "a2": v2, "got": got, "expected": exp})
            elif got:
                satisfiable = True
        if satisfiable:
            # operand -> result style inference: the second constraint inferred from the first one's bindings
            _check_infer(st, c2a, c2, bound, set())


def seq_constraints(decl_combo):
    leaves_v = LEAVES_SEQ + (VAR_T, VAR_U)
    _, allv = level1(LEAVES_SEQ, leaves_v)
    out = []
    for t in allv:
        if var_names(t) and t[0] != "anyof":
            out.append(inst(t, decl_combo))
    return out


# ------------------------------------------------------------------------------------------------
# type hints
# ------------------------------------------------------------------------------------------------
H_ATOMS = ("IntegerType", "IndexType", "StringAttr", "IntegerAttr", "AB", "S1", "P", "ArrayAttr", "Attribute")


def hint_level1():
    hs = [("hc", n) for n in H_ATOMS]
    ann = ("han", ("hc", "IntegerType"), _eq(I32))
    iargs = [("hc", "IntegerType"), ("hc", "IndexType"), ("hu", "or", (("hc", "IntegerType"), ("hc", "IndexType"))), ann,
             ("hc", "Attribute")]
    ias = [("hia", h) for h in iargs]
    hs += ias
    eargs = [("hc", n) for n in ("IntegerType", "StringAttr", "IntegerAttr", "AB", "P", "Attribute")] + ias[:3] + [
        ("harr", ("hc", "StringAttr")), ("hu", "or", (("hc", "StringAttr"), ("hc", "IntegerType"))), ann]
    hs += [("harr", h) for h in eargs]
    gargs = [("hc", n) for n in ("IntegerType", "IndexType", "StringAttr", "Attribute")]
    hs += [("hg", x, y) for x in gargs for y in gargs]
    hs += [("hg1", x) for x in gargs]
    return hs


H_ANN = (_eq(I32), _base("IntegerType"), _set(I32, SA), ("param", "get", _eq(I32), ANY), ("iattr", _base("IndexType")),
         ("anyof", "get", (_base("StringAttr"), _base("IndexType"))))


def real_hint(h):
    k = h[0]
    if k == "hc":
        return CLS[h[1]]
    if k == "hia":
        return IntegerAttr[real_hint(h[1])]
    if k == "harr":
        return ArrayAttr[real_hint(h[1])]
    if k == "hg":
        return G[real_hint(h[1]), real_hint(h[2])]
    if k == "hg1":
        return G[real_hint(h[1])]
    if k == "hu":
        parts = [real_hint(x) for x in h[2]]
        if h[1] == "or":
            return functools.reduce(operator.or_, parts)
        return Union[tuple(parts)]
    if k == "han":
        return Annotated[real_hint(h[1]), build(h[2])]
    raise AssertionError(h)


def hint_ref(h):
    k = h[0]
    if k == "hc":
        return ANY if h[1] == "Attribute" else ("base", h[1])
    if k == "hia":
        return ("iattr", hint_ref(h[1]))
    if k == "harr":
        return ("arr", hint_ref(h[1]))
    if k == "hg":
        return ("gparam", hint_ref(h[1]), hint_ref(h[2]))
    if k == "hg1":
        return ("gparam", hint_ref(h[1]), ANY)  # second TypeVar takes its default (Attribute)
    if k == "hu":
        return ("anyof", "get", tuple(hint_ref(x) for x in h[2]))
    if k == "han":
        return ("allof", "ctor", (hint_ref(h[1]), h[2]))
    raise AssertionError(h)


def show_hint(h):
    k = h[0]
    if k == "hc":
        return h[1]
    if k == "hia":
        return f"IntegerAttr[{show_hint(h[1])}]"
    if k == "harr":
        return f"ArrayAttr[{show_hint(h[1])}]"
    if k == "hg":
        return f"G[{show_hint(h[1])}, {show_hint(h[2])}]"
    if k == "hg1":
        return f"G[{show_hint(h[1])}]"
    if k == "hu":
        sep = " | " if h[1] == "or" else ", "
        s = sep.join(show_hint(x) for x in h[2])
        return s if h[1] == "or" else f"Union[{s}]"
    if k == "han":
        return f"Annotated[{show_hint(h[1])}, {show(h[2])}]"
    return str(h)


def _hint_class(h):
    k = h[0]
    if k == "hu":
        return "union(" + "+".join(sorted({_hint_class(x) for x in h[2]})) + ")"
    if k == "han":
        return f"Annotated({_hint_class(h[1])})"
    return {"hc": "class", "hia": "IntegerAttr[...]", "harr": "ArrayAttr[...]", "hg": "G[...]", "hg1": "G[...]"}[k]


def check_hint(st, h, uni):
    st.transitions += 1
    hint = real_hint(h)
    ref = hint_ref(h)
    try:
        c = irdl_to_attr_constraint(hint)
    except PyRDLError as e:
        c = None
        st.bump("hints_refused")
        st.outcomes["hint-refused:" + _refusal(e)] += 1
    st.states += 1
    nacc = 0
    for v in uni:
        a = real(v)
        exp = accept(ref, v, {}) is not None
        nacc += exp
        wit = {"mode": "hint", "hint": h, "attr": v, "hint_text": show_hint(h)}
        if c is not None:
            got, _ = _real_verdict(c, a)
            st.executions += 1
            st.evaluations += 1
            if got != ("acc" if exp else "rej"):
                st.violate(f"C09|hint|constraint-disagrees-with-definition|{_hint_class(h)}|"
                           f"{'false-accept' if got == 'acc' else 'false-reject' if got == 'rej' else got}",
                           f"irdl_to_attr_constraint({show_hint(h)}) = {c!r} gives {got} on {vname(v)}, the hint means "
                           f"{'accept' if exp else 'reject'}", {**wit, "got": got, "expected": exp})
        try:
            r = isa(a, hint)
        except ValueError as e:
            if "unsupported type hint" in str(e):
                st.bump("isa_unsupported")
                continue
            r = f"raise:{type(e).__name__}"
        except PyRDLError:
            st.bump("isa_refused")
            continue
        except Exception as e:  # noqa: BLE001
            r = f"raise:{type(e).__name__}"
        st.executions += 1
        st.evaluations += 1
        if r is not exp:
            st.violate(f"C09|hint|isa-disagrees|{_hint_class(h)}|"
                       f"{'false-accept' if r is True else 'false-reject' if r is False else r}",
                       f"isa({vname(v)}, {show_hint(h)}) = {r}, the hint means {exp}", {**wit, "got": r, "expected": exp})
    if 0 < nacc < len(uni):
        st.nontrivial += 1
    st.outcomes["hint:" + _hint_class(h)[:40]] += 1


def hint_tasks(quick):
    l1 = hint_level1()
    sub = [h for h in l1 if h[0] != "hg"] if quick else l1
    tasks = [("hint1", None)]
    for i in range(len(l1)):
        tasks.append(("hint2", i))
    return tasks, l1, sub


def hints_for(task, quick):
    kind, i = task
    _, l1, sub = hint_tasks(quick)
    if kind == "hint1":
        yield from l1
        for h in l1:
            for cst in H_ANN:
                yield ("han", h, cst)
        return
    x = l1[i]
    for y in sub:
        yield ("hu", "or", (x, y))
        yield ("hu", "Union", (x, y))
    small = [h for h in l1 if h[0] in ("hc", "hia")] + [("harr", ("hc", "StringAttr")), ("hg", ("hc", "IntegerType"), ("hc", "StringAttr")),
                                                       ("hg", ("hc", "IndexType"), ("hc", "StringAttr"))]
    if x in small:
        for y in small:
            for z in small:
                yield ("hu", "or", (x, y, z))


# ------------------------------------------------------------------------------------------------
# histories: a pool of SHARED constraint objects and all short construction sequences over it
# ------------------------------------------------------------------------------------------------
# Constraint objects are values: dialects define them once at module level and use the same object in many
# later constructions.  Building (and using) one constraint must therefore never change what another one
# accepts, nor what its get_bases() reports.  A history is
#     fresh pool  ->  step 1  ->  ...  ->  step L  ->  probe
# where a step builds ONE new composite out of pool objects / results of earlier steps and then uses it the way a
# client does (get_bases() once, verify() on every value of U_HIST), and the probe asks every live object (pool,
# hidden pool parts, every earlier composite) for get_bases() and for verify() on every value of U_HIST.  Every
# history gets a FRESH pool, so nothing leaks from one history into the next.  The discrepancies of a history are
# attributed to its LAST step: the ones already present after its prefix (which is a history of its own) are
# subtracted.
U_HIST = (I32, I64, IDX, SA, IA(0, I32), IA(0, IDX), VS1, ("arr", ()))
_H_PARAM = ("iattr", _base("IndexType"))   # ParamAttrConstraint.get(IntegerAttr, None, BaseAttr(IndexType))

# pool entry: (label, kind, operands (indices of EARLIER pool entries) or a leaf AST, selectable as step operand)
_HP_COMMON = (
    ("B_int", "leaf", _base("IntegerType")),
    ("B_str", "leaf", _base("StringAttr")),
    ("B_idx", "leaf", _base("IndexType")),
)
H_POOLS = {
    # quick pool
    "p10": tuple((lab, k, ops, True) for lab, k, ops in _HP_COMMON + (
        ("PR", "leaf", _H_PARAM),
        ("EQ", "leaf", _eq(SA)),
        ("SET", "leaf", _set(I32, SA)),     # AttrSetConstraint: 2 bases without being a union
        ("U1", "anyof.ctor", (0, 1)),       # IntegerType | StringAttr            (2 bases)
        ("U2", "anyof.ctor", (2, 3)),       # IndexType | IntegerAttr<any, index>    (2 bases)
        ("M1", "msg", (6,)),                # MessageConstraint(U1)
        ("V1", "var", (6,)),                # VarConstraint("T", U1)
    )),
    # thorough depth-2 pool: p10 + an abstract base and a flattened 3-alternative union that shares its parts with U2
    "p12": tuple((lab, k, ops, True) for lab, k, ops in _HP_COMMON + (
        ("PR", "leaf", _H_PARAM),
        ("EQ", "leaf", _eq(SA)),
        ("SET", "leaf", _set(I32, SA)),
        ("U1", "anyof.ctor", (0, 1)),
        ("U2", "anyof.ctor", (2, 3)),
        ("M1", "msg", (6,)),
        ("V1", "var", (6,)),
        ("B_ab", "leaf", _base("AB")),
        ("U3", "anyof.get", (7, 10)),       # AnyOf.get(U2, AB) = AnyOf((B_idx, PR, B_ab)): abstract slot, no bases
    )),
    # thorough depth-3 pool (B_int is a hidden part of U1: probed, never an operand)
    "p4": (
        ("B_int", "leaf", _base("IntegerType"), False),
        ("B_str", "leaf", _base("StringAttr"), True),
        ("B_idx", "leaf", _base("IndexType"), True),
        ("PR", "leaf", _H_PARAM, True),
        ("U1", "anyof.ctor", (0, 1), True),
    ),
}
H_KINDS = {  # (`x | y` is AnyOf.get(x, y) but for two shortcuts, so AnyOf.get is not a step kind of its own)
    "k5": ("anyof.ctor", "anyof.or", "allof.ctor", "msg", "var"),
    "k6": ("anyof.ctor", "anyof.or", "allof.ctor", "allof.and", "msg", "var"),
}
_H_UNARY = ("msg", "var")


def _h_families(quick):
    """(pool, step kinds, max history length)"""
    if quick:
        return (("p10", "k5", 2),)
    return (("p4", "k5", 3), ("p12", "k6", 2))


def _h_apply(kind, xs, dxs, varname):
    """ONE construction through the public API; returns (real constraint, its description AST)"""
    if kind == "leaf":
        return build(dxs), dxs
    if kind == "msg":
        return MessageConstraint(xs[0], "c09 history"), ("msg", dxs[0])
    if kind == "var":
        return VarConstraint(varname, xs[0]), ("var", varname, dxs[0])
    fam, how = kind.split(".")
    if kind == "anyof.ctor":
        o = AnyOf(tuple(xs))
    elif kind == "anyof.get":
        o = AnyOf.get(*xs)
    elif kind == "anyof.or":
        o = functools.reduce(operator.or_, xs)
    elif kind == "allof.ctor":
        o = AllOf(tuple(xs))
    elif kind == "allof.and":
        o = functools.reduce(operator.and_, xs)
    else:
        raise AssertionError(kind)
    return o, (fam, how, tuple(dxs))


def _h_bkey(o):
    """get_bases() as a VALUE: None or the sorted class names"""
    try:
        b = o.get_bases()
    except Exception as e:  # noqa: BLE001
        return ("raise", type(e).__name__)
    return None if b is None else tuple(sorted(c.__name__ for c in b))


def _h_flags(o, reals):
    out = []
    for a in reals:
        try:
            o.verify(a, ConstraintContext())
            out.append("acc")
        except VerifyException:
            out.append("rej")
        except Exception as e:  # noqa: BLE001
            out.append(f"raise:{type(e).__name__}")
    return tuple(out)


@functools.lru_cache(maxsize=None)
def _h_ref(desc):
    return tuple("acc" if accept(desc, v, {}) is not None else "rej" for v in U_HIST)


@functools.lru_cache(maxsize=None)
def _h_reals():
    return tuple(real(v) for v in U_HIST)


def _h_steps(kinds, avail):
    out = []
    for k in kinds:
        if k in _H_UNARY:
            out += [(k, a, -1) for a in avail]
        else:
            out += [(k, a, b) for a in avail for b in avail]
    return out


class _HRun:
    __slots__ = ("objs", "descs", "bases", "flags", "outcome", "D", "nverify")


def _h_play(spec, steps, known):
    """fresh pool, the steps, the probe.  `known`: what the pool objects and the results of steps[:-1] accepted when
    they were built, as observed in the prefix history (the implementation is deterministic, and the prefix is a
    history of its own); None = this IS the empty history: measure the pool and compare it with the reference.
    Intermediate steps construct and call get_bases(); the last step also verifies its result on all of U_HIST."""
    reals = _h_reals()
    r = _HRun()
    objs, descs, bases, outcome = [], [], [], []
    for label, kind, ops, _sel in spec:
        if kind == "leaf":
            o, d = _h_apply("leaf", None, ops, None)
        else:
            o, d = _h_apply(kind, [objs[i] for i in ops], [descs[i] for i in ops], "T")
        objs.append(o)
        descs.append(d)
        bases.append(_h_bkey(o))
    npool = len(objs)
    r.nverify = 0
    D = {}
    if known is None:
        assert not steps
        flags = [_h_flags(o, reals) for o in objs]
        r.nverify += npool * len(reals)
        fresh = set(range(npool))
    else:
        flags = list(known[:npool + len(steps) - 1])
        fresh = {npool + len(steps) - 1}
    for k, (kind, a, b) in enumerate(steps, 1):
        ops = (a,) if b < 0 else (a, b)
        try:
            o, d = _h_apply(kind, [objs[i] for i in ops], [descs[i] for i in ops], f"H{k}")
        except PyRDLError as e:
            o = d = None
            outcome.append("refused:" + _refusal(e))
        except Exception as e:  # noqa: BLE001
            o = d = None
            outcome.append("raised")
            D[("crash", npool + k - 1)] = (type(e).__name__, str(e)[:200])
        else:
            outcome.append("built")
        objs.append(o)
        descs.append(d)
        bases.append(None if o is None else _h_bkey(o))          # client call: get_bases()
        if k == len(steps):
            flags.append(None if o is None else _h_flags(o, reals))  # client call: verify() on every value
            r.nverify += 0 if o is None else len(reals)
    for i, o in enumerate(objs):         # the probe
        if o is None or flags[i] is None:
            continue
        nb = _h_bkey(o)
        if nb != bases[i]:
            D[("bases", i)] = (bases[i], nb)
        if i in fresh:  # verified a moment ago: is it what the description says?
            rf = _h_ref(descs[i])
            if flags[i] != rf:
                D[("born", i)] = (rf, flags[i])
            continue
        nf = _h_flags(o, reals)
        r.nverify += len(reals)
        if nf != flags[i]:
            D[("acc", i)] = (flags[i], nf)
    r.objs, r.descs, r.bases, r.flags, r.outcome, r.D = objs, descs, bases, flags, outcome, D
    return r


def _h_label(spec, i):
    return spec[i][0] if i < len(spec) else f"r{i - len(spec) + 1}"


def _h_step_text(spec, steps):
    out = []
    for k, (kind, a, b) in enumerate(steps, 1):
        ops = _h_label(spec, a) + ("" if b < 0 else ", " + _h_label(spec, b))
        out.append(f"r{k} = {kind}({ops})")
    return out


def _h_first_diff(f1, f2):
    return next(i for i in range(len(f1)) if f1[i] != f2[i])


def _h_violate(st, sig, what, wit):
    """st.violate, but the witness kept for a signature is the one with the fewest (then smallest) steps"""
    old = st.violations.get(sig)
    st.violate(sig, what, wit)
    if old is not None and _h_shorter(wit, old["witness"]):
        old["what"], old["witness"] = what, wit


def _h_shorter(w_new, w_old):
    return (isinstance(w_new, dict) and isinstance(w_old, dict) and w_new.get("mode") == "history" == w_old.get("mode")
            and (len(w_new["steps"]), w_new["steps"]) < (len(w_old["steps"]), w_old["steps"]))


def _h_merge(ctx, st):
    """ctx.merge(st), keeping the shortest history witness per signature"""
    better = {sig: v for sig, v in st.violations.items()
              if sig in ctx.stats.violations and _h_shorter(v["witness"], ctx.stats.violations[sig]["witness"])}
    ctx.merge(st)
    for sig, v in better.items():
        ctx.stats.violations[sig]["what"], ctx.stats.violations[sig]["witness"] = v["what"], v["witness"]


def _h_account(st, pool_name, spec, steps, r, Dprev):
    """statistics of one history + one violation per discrepancy that its last step introduced"""
    npool = len(spec)
    st.states += 1
    st.transitions += npool + len(steps)
    st.executions += r.nverify
    st.evaluations += sum(1 for o in r.objs if o is not None) * (len(U_HIST) + 1)
    st.max_depth = max(st.max_depth, len(steps))
    if steps:
        kind = steps[-1][0]
        st.outcomes[f"hist:{kind}:{r.outcome[-1]}"] += 1
        if r.outcome[-1] == "built" and len(set(r.flags[-1])) > 1:
            st.nontrivial += 1
    else:
        kind = "pool-construction"
        st.outcomes["hist:empty"] += 1
    text = _h_step_text(spec, steps)
    for key, val in r.D.items():
        if Dprev.get(key) == val:
            continue
        what_kind, i = key
        wit = {"mode": "history", "pool": pool_name, "steps": [list(s) for s in steps], "steps_text": text,
               "object": _h_label(spec, i), "discrepancy": what_kind}
        if what_kind == "crash":
            _h_violate(st, f"C09|history|construction-raises|{kind}|{val[0]}",
                       f"after {text[:-1]}, {text[-1]} raised {val[0]}: {val[1]}", wit)
        elif what_kind == "bases":
            _h_violate(st, f"C09|history|shared-constraint-changed-by-later-construction|{kind}|get_bases",
                       f"{_h_label(spec, i)} = {show(r.descs[i])}: get_bases() was {val[0]} when it was built and is {val[1]} "
                       f"after {'; '.join(text) or 'building the rest of the pool'}",
                       {**wit, "before": val[0], "after": val[1]})
        elif what_kind == "acc":
            j = _h_first_diff(val[0], val[1])
            _h_violate(st, f"C09|history|shared-constraint-changed-by-later-construction|{kind}|accepted-set",
                       f"{_h_label(spec, i)} = {show(r.descs[i])} gave {val[0][j]} on {vname(U_HIST[j])} when it was built and gives "
                       f"{val[1][j]} after {'; '.join(text) or 'building the rest of the pool'}",
                       {**wit, "attr": U_HIST[j], "before": val[0][j], "after": val[1][j]})
        else:  # born: the composite (or pool object) does not accept what its description says
            if any(k[0] == "acc" for k in Dprev):
                # a shared object already changed what it accepts in the prefix history (reported there): a composite
                # built from it afterwards is a consequence, not a new discrepancy
                st.bump("hist_consequences_of_reported_change")
                continue
            exp, got = val
            j = _h_first_diff(exp, got)
            d = r.descs[i]
            # the same description built as a stand-alone tree from fresh, unshared parts
            try:
                fresh = build(d)
                ff = _h_flags(fresh, _h_reals())
            except PyRDLError:
                fresh, ff = None, exp
            if ff != exp:
                # wrong whatever was built before: the tree sections' report (same localisation, same signature)
                j = _h_first_diff(exp, ff)
                _report(st, d, U_HIST[j], ff[j], exp[j], fresh)
                continue
            fk = {"acc": "false-accept", "rej": "false-reject"}.get(got[j], got[j])
            _h_violate(st, f"C09|history|composite-built-from-shared-parts|{fk}|{kind}",
                       f"after {'; '.join(text[:-1]) or 'building the pool'}, {text[-1] if text else _h_label(spec, i)} = {show(d)} "
                       f"gives {got[j]} on {vname(U_HIST[j])}, its parts say {exp[j]}; the same description built from fresh, "
                       f"unshared parts is correct",
                       {**wit, "attr": U_HIST[j], "got": got[j], "expected": exp[j], "description": d})


def _h_play_all(spec, steps, pool_flags):
    """the runs of every non-empty prefix of `steps`, shortest first (each on a fresh pool)"""
    runs = []
    known = list(pool_flags)
    for k in range(1, len(steps) + 1):
        r = _h_play(spec, steps[:k], known)
        runs.append(r)
        known = r.flags
    return runs


def check_histories(st, pool_name, kinds_name, depth, first, seed):
    """every history of length <= depth whose FIRST step is steps1[first] (first == -1: the empty history)"""
    spec = H_POOLS[pool_name]
    kinds = H_KINDS[kinds_name]
    r0 = _h_play(spec, (), None)
    if first < 0:
        _h_account(st, pool_name, spec, (), r0, {})
        return
    npool = len(spec)
    sel = [i for i, e in enumerate(spec) if e[3]]
    count = [0]

    def rec(prefix, prev, avail):
        r = _h_play(spec, prefix, prev.flags)
        _h_account(st, pool_name, spec, prefix, r, prev.D)
        count[0] += 1
        if (count[0] + seed) % 9973 == 77:
            st.sample({"section": "hist", "pool": pool_name, "history": _h_step_text(spec, prefix),
                       "last": r.outcome[-1]})
        if len(prefix) < depth:
            if r.outcome[-1] == "built":
                avail = avail + [npool + len(prefix) - 1]
            for s in _h_steps(kinds, avail):
                rec(prefix + (s,), r, avail)

    rec((_h_steps(kinds, sel)[first],), r0, sel)


def hist_tasks(quick, seed):
    tasks = []
    for pool_name, kinds_name, depth in _h_families(quick):
        sel = [i for i, e in enumerate(H_POOLS[pool_name]) if e[3]]
        n1 = len(_h_steps(H_KINDS[kinds_name], sel))
        tasks += [("hist", (pool_name, kinds_name, depth), i, quick, seed) for i in range(-1, n1)]
    return tasks


def hist_replay(st, w):
    spec = H_POOLS[w["pool"]]
    steps = tuple(tuple(s) for s in w["steps"])
    r0 = _h_play(spec, (), None)
    if not steps:
        _h_account(st, w["pool"], spec, (), r0, {})
        return
    runs = [r0] + _h_play_all(spec, steps, r0.flags)
    _h_account(st, w["pool"], spec, steps, runs[-1], runs[-2].D)


# ------------------------------------------------------------------------------------------------
# sharding
# ------------------------------------------------------------------------------------------------
def _config(quick):
    if quick:
        return {"uni": U_QUICK, "decls": DECLS_QUICK, "d3": LEAVES_D3_QUICK, "useq": U_SEQ[:9], "trip": 20, "ord_trip": 8}
    return {"uni": U_THOROUGH, "decls": DECLS_THOROUGH, "d3": LEAVES_D3_THOROUGH, "useq": U_SEQ, "trip": 40, "ord_trip": 30}


def _pools(section, cfg):
    if section == "d2":
        free = list(LEAVES_FULL)
        allv = free + [VAR_T, VAR_U]
        return free, allv, free
    free0 = list(cfg["d3"])
    free, allv = level1(free0, free0 + [VAR_T, VAR_U])
    trip = [t for t in free if t[0] in ("param", "eq", "base", "set")][:cfg["trip"]]
    return free, allv, trip


def _shard(task):
    section, kind, idx, quick, seed = task
    st = Stats()
    cfg = _config(quick)
    count = 0
    if section in ("d2", "d3"):
        free, allv, trip = _pools(section, cfg)
        pool = {"anyof": free, "anyof3": trip, "allof3": trip}.get(kind, allv)
        first = pool[idx]
        gen = root_groups(kind, first, free, allv, trip)
        for g in groups_with_decls(gen, cfg["decls"]):
            n = check_group(st, g, cfg["uni"])
            count += 1
            if n and (count + seed) % 211 == 7:
                st.sample({"section": section, "tree": show(g[0]), "variants": len(g)})
    elif section == "seq":
        names = ("T", "U")
        combos = list(itertools.product(*(cfg["decls"][n] for n in names)))
        d = dict(zip(names, combos[kind]))
        cs = seq_constraints(d)
        c1a = cs[idx]
        try:
            c1 = build(c1a)
        except PyRDLError:
            return st
        for c2a in cs:
            if not (var_names(c1a) & var_names(c2a)):
                continue
            try:
                c2 = build(c2a)
            except PyRDLError:
                continue
            st.states += 1
            st.transitions += nodes(c1a) + nodes(c2a)
            st.nontrivial += 1
            check_sequence(st, c1a, c2a, c1, c2, cfg["useq"])
            count += 1
            if (count + seed) % 23 == 5:
                st.sample({"section": "seq", "first": show(c1a), "second": show(c2a)})
    elif section == "ord":
        pair_pool, trip_pool = order_pools(cfg)
        b = BROAD[idx[0]]
        if kind == "pair":
            groups = [(b, a) for a in pair_pool] + [(b, b2) for b2 in BROAD[idx[0] + 1:]]
        else:
            a1 = trip_pool[idx[1]]
            groups = [(b, a1, a2) for a2 in trip_pool[idx[1]:]]
        for g in groups:
            n = check_order_group(st, g, cfg["uni"])
            count += 1
            if n and (count + seed) % 37 == 11:
                st.sample({"section": "ord", "alternatives": [show(x) for x in g], "orders_x_variants_built": n})
    elif section == "hist":
        check_histories(st, kind[0], kind[1], kind[2], idx, seed)
    elif section == "hint":
        for h in hints_for((kind, idx), quick):
            check_hint(st, h, U_HINT)
            count += 1
            if (count + seed) % 97 == 3:
                st.sample({"section": "hint", "hint": show_hint(h)})
    else:
        raise AssertionError(section)
    return st


def _tasks(quick, seed):
    cfg = _config(quick)
    tasks = hist_tasks(quick, seed)  # (first: the depth-3 shards are the longest tasks)
    for section in ("d2", "d3"):
        free, allv, trip = _pools(section, cfg)
        for kind, pool in (("anyof", free), ("allof", allv), ("param", allv), ("unary", allv)):
            tasks += [(section, kind, i, quick, seed) for i in range(len(pool))]
        if section == "d2":
            tasks += [(section, "anyof3", i, quick, seed) for i in range(len(free))]
        else:
            tasks += [(section, "anyof3", i, quick, seed) for i in range(len(trip))]
            tasks += [(section, "allof3", i, quick, seed) for i in range(len(trip))]
    ncombo = len(cfg["decls"]["T"]) * len(cfg["decls"]["U"])
    nseq = len(seq_constraints({"T": ANY, "U": ANY}))
    for k in range(ncombo):
        tasks += [("seq", k, i, quick, seed) for i in range(nseq)]
    pair_pool, trip_pool = order_pools(cfg)
    for bi in range(len(BROAD)):
        tasks.append(("ord", "pair", (bi, 0), quick, seed))
        tasks += [("ord", "trip", (bi, i), quick, seed) for i in range(len(trip_pool))]
    ht, _, _ = hint_tasks(quick)
    tasks += [("hint", k, i, quick, seed) for k, i in ht]
    return tasks


def run(ctx):
    quick = ctx.quick
    cfg = _config(quick)
    tasks = _tasks(quick, ctx.seed)
    for _, st in pmap(_shard, tasks):
        _h_merge(ctx, st)
    d3free, d3all, trip = _pools("d3", cfg)
    ctx.bounds = {
        "d2": {"leaves": [show(x) for x in LEAVES_FULL] + ["Var(T,decl)", "Var(U,decl)"],
               "roots": "AnyOf of 2 and of 3 leaves x {AnyOf.get, |, AnyOf(...), Union hint}; AllOf of 2 x {AllOf(...), &}; "
                        "Param(P,c1,c2) x {ParamAttrConstraint.get, ParamAttrConstraint(...)}; Param(IntegerAttr,Any,c); "
                        "MessageConstraint(c); the leaves themselves"},
        "d3": {"leaves": [show(x) for x in cfg["d3"]] + ["Var(T,decl)", "Var(U,decl)"],
               "children": f"every depth<=2 tree over these leaves ({len(d3free)} variable free, {len(d3all)} total), default build variant",
               "roots": "as d2 with 2 children; AnyOf / AllOf of 3 over the first "
                        f"{len(trip)} variable-free leaf/Param children"},
        "ord": {"broad_bases": [show(b) for b in BROAD],
                "pairs": f"each broad base x {len(order_pools(cfg)[0])} alternatives (all leaves + every depth<=2 d3 child), both orders",
                "triples": f"each broad base x unordered pairs of {len(order_pools(cfg)[1])} alternatives, all 6 orders",
                "variants": "AnyOf.get, |, AnyOf(...), Union hint for every order; law: every order that builds accepts "
                            "exactly the reference set, and all built orders accept the same set"},
        "variable_declarations": {k: [show(x) for x in v] for k, v in cfg["decls"].items()},
        "universe": [vname(v) for v in cfg["uni"]],
        "sequence": {"constraints": "variable-containing depth<=2 trees over leaves " + ", ".join(show(x) for x in LEAVES_SEQ),
                     "pairs": "all ordered pairs sharing a variable", "universe": [vname(v) for v in cfg["useq"]]},
        "hints": {"level1": len(hint_level1()), "shapes": "classes, IntegerAttr[t], ArrayAttr[e], G[a,b], G[a]; `|` and Union[...] of 2 "
                  "(all ordered pairs) and of 3 (restricted); Annotated[h, c]", "universe": [vname(v) for v in U_HINT]},
        "history": {
            "families": [
                {"pool": {e[0]: (show(e[2]) if e[1] == "leaf" else f"{e[1]}({', '.join(H_POOLS[pn][i][0] for i in e[2])})")
                                + ("" if e[3] else "  [hidden part: probed, never an operand]") for e in H_POOLS[pn]},
                 "step_kinds": list(H_KINDS[kn]), "max_steps": depth,
                 "histories": "the empty history and EVERY sequence of <= max_steps steps; a step = one kind x every ordered pair "
                              "(every single object for msg / var) of selectable pool objects and results of earlier steps "
                              "(the same object twice included); refused (PyRDLError) steps stay in the history"}
                for pn, kn, depth in _h_families(quick)],
            "step": "construct through the public API, then get_bases() on the result; the LAST step also verify() on the universe",
            "probe": "after the last step: get_bases() of every live object (pool, hidden parts, earlier results) equals its "
                     "value at construction; verify() of every live object on the whole universe equals what it gave when it "
                     "was built (pool objects, new composite: == reference evaluation of the description)",
            "universe": [vname(v) for v in U_HIST],
            "fresh_pool_per_history": True},
        "restrictions": ["no VarConstraint below an AnyOf alternative in the tree sections (implementation-defined binding "
                         "semantics); in histories every VarConstraint has its own name and all constraints of a composite see "
                         "the same attribute, so a variable below a union is harmless there",
                         "all occurrences of a variable name carry the same declared constraint",
                         "inference is only checked on contexts harvested from an accepting run (all subsets of its bindings)",
                         "isa() on a top-level Annotated hint raises the documented 'unsupported type hint' ValueError: skipped"],
    }
    ctx.rule = ("exhaustive generator tree over the constraint AST within the stated bounds (no sampling); states = real constraints "
                "successfully constructed (+ hints, + sequence pairs), transitions = constructor calls (AST nodes), executions = "
                "verify()/isa() runs compared with the reference; non-trivial = a constraint that accepts at least one and rejects "
                "at least one value of the universe (sequence pairs: share a variable)")
    ctx.assumptions = ["reference evaluator accept() in props/c09.py is the meaning of the AST",
                       "model<->attribute conversion (real/to_model) is faithful for the classes used",
                       "PyRDLError at construction time is a documented refusal, not a verdict",
                       "histories: xDSL is deterministic, so what an object accepted at the end of a prefix history is what it "
                       "accepts at the same point of every extension (extensions do not re-verify intermediate results)"]


# ------------------------------------------------------------------------------------------------
def replay(rep) -> bool:
    w = rep["witness"]
    st = Stats()
    mode = w["mode"]
    if mode == "tree":
        run_tree(st, tup(w["ast"]), [tup(w["attr"])])
    elif mode == "group":
        check_group(st, [tup(g) for g in w["group"]], [tup(w["attr"])])
    elif mode == "seq":
        c1a, c2a = tup(w["c1"]), tup(w["c2"])
        check_sequence(st, c1a, c2a, build(c1a), build(c2a), [tup(w["a1"]), tup(w["a2"])])
    elif mode == "hint":
        check_hint(st, tup(w["hint"]), [tup(w["attr"])])
    elif mode == "order":
        check_order_group(st, tup(w["alts"]), [tup(w["attr"])])
    elif mode == "history":
        hist_replay(st, w)
    elif mode == "infer":
        ast = tup(w["ast"])
        _check_infer(st, ast, build(ast), {n: real(tup(v)) for n, v in w["vars"].items()}, set())
    else:
        raise AssertionError(mode)
    return rep["signature"] not in st.violations
