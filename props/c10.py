"""C10 — IRDL operation verification matches the operation definition.

Real ``@irdl_op_definition`` classes are generated at run time (``type(name, (IRDLOperation,), ns)``)
for every definition of a bounded family; every instance of a bounded instance family is built with
the generic ``cls.create(...)`` and the verdict of the IRDL definition verifier (``op.verify_()``,
i.e. ``OpDef.verify``) is compared with an independent reference segmenter + constraint evaluator
written here on plain strings / ints.  Nothing is sampled: every part is a plain product.

A *spec* (JSON-able) describes a definition:
    {"focus": <construct|"holder">, "operand": [kinds, constrs, option], "result": [...],
     "region": [...], "successor": [...], "holder": None|"prop"|"opt_prop"|"attr"|"opt_attr"}
  kinds   : string over S(ingle) O(ptional) V(ariadic), one char per def
  constrs : string over A(ny) E(q i32) T(the shared VarConstraint "T" over IntegerType) R(the shared
            RangeVarConstraint "R" over RangeOf(Any); only on optional/variadic defs), one char per def
  option  : none | same (SameVariadic<X>Size) | attr (AttrSized<X>Segments) | prop (…(as_property=True))
  holder  : a property/attribute "h" constrained by T
An *instance*:
    {"operand": [types, sizespec], ..., "holder": None|"missing"|"i32"|"i64"|"str"}
  types    : string over 3 (i32) / 6 (i64), one char per list element (regions/successors: any char)
  sizespec : None (no segment-size attribute) | ["ok", sizes] | ["eltype", sizes] (dense array of i64)
             | ["arrayattr", sizes] | ["string"] | ["wrongcontainer", sizes]

Parts
  A  segmentation: one construct in {operand,result,region,successor}, every kind sequence of <= 3 defs,
     every option, constraints Any; every list length 0..5; AttrSized: every size vector in {-1,0,1,2,3}^n,
     every vector in {0,1,2}^(n±1) (wrong length), wrong element type, wrong attribute kind, wrong container,
     missing attribute.
  B  constraints: operand / result focus, every (kind, constraint) sequence of <= 3 defs with at least one
     non-Any constraint, every option; when T is used the op also has a single T-constrained def of the
     other construct (result / operand) and ``h = prop_def(T)``; every type list over {i32,i64} of length
     0..maxlen, every size vector in {-1,0,1,2,3}^n, companion types in {i32,i64}^2.
  C  shared variable holders: operand kind x result kind (both T) x holder kind in {prop_def, opt_prop_def,
     attr_def, opt_attr_def}; lists of length 0..2, holder in {missing, i32, i64, "str"}.
  R  range variables: one RangeVarConstraint "R" shared by (a) two optional/variadic segments of one
     construct (operand or result; kinds {O,V}^2 and {O,V} S {O,V}; options same/attr/prop; type lists 0..4,
     every size vector in {-1,0,1,2,3}^n), (b) an operand segment and a result segment (kinds {O,V}^2, every
     pair of type lists of length 0..2), (c) two variadic operand segments and a variadic result segment.
     Reference: all occurrences of R are the SAME tuple of types (the empty tuple is a binding like any other).
  K  corpus: every op of every verified ``// -----`` chunk of tests/filecheck: the accessors of the
     operand/result/region/successor defs partition the corresponding list in order with the right
     multiplicities.
Constructor path: whenever the reference accepts an instance (and the create path raised no alarm), the
argument tuple it denotes (one entry per def: value / value-or-None / list) is passed to the generated
``cls(operands=[...], result_types=[...], ...)``; the op must verify and every accessor must return the
argument it was given.
"""
from __future__ import annotations

import itertools

from mc.pool import pmap
from mc.stats import Stats

CONSTRUCTS = ("operand", "result", "region", "successor")
OPTIONS = ("none", "same", "attr", "prop")
KINDS = "SOV"
CONSTRS = "AET"
SIZE_ALPHABET = (-1, 0, 1, 2, 3)
SMALL_SIZES = (0, 1, 2)
# names of the segment-size attributes (MLIR convention), written down independently
SEG_ATTR = {"operand": "operandSegmentSizes", "result": "resultSegmentSizes",
            "region": "regionSegmentSizes", "successor": "successorSegmentSizes"}
OPT_LABEL = {"none": "no-option", "same": "same-size", "attr": "attr-sized", "prop": "attr-sized"}
QUICK_CORPUS_DIRS = ("tests/filecheck/dialects",)
THOROUGH_CORPUS_DIRS = ("tests/filecheck",)


# ======================================================================================
# reference model (plain python on strings / ints; imports nothing from xdsl)
# ======================================================================================
def ref_segment(kinds: str, option: str, length: int, sizespec):
    """-> (sizes tuple, None) when the list splits into the declared segments, else (None, reason)."""
    if option in ("attr", "prop"):
        if sizespec is None:
            return None, "missing-size-attr"
        tag = sizespec[0]
        if tag in ("string", "arrayattr"):
            return None, "size-attr-wrong-kind"
        if tag == "eltype":
            return None, "size-attr-wrong-elt-type"
        if tag == "wrongcontainer":
            return None, "size-attr-wrong-container"
        sizes = tuple(sizespec[1])
        if len(sizes) != len(kinds):
            return None, "size-attr-wrong-length"
        if any(s < 0 for s in sizes):
            return None, "negative-size"
        for k, s in zip(kinds, sizes):
            if k == "S" and s != 1:
                return None, "single-size-not-1"
            if k == "O" and s > 1:
                return None, "optional-size-gt-1"
        if sum(sizes) != length:
            return None, "sum-mismatch"
        return sizes, None
    # none / same: all optional+variadic segments have one common size k fixed by the list length
    nvar = sum(k != "S" for k in kinds)
    nsingle = len(kinds) - nvar
    rest = length - nsingle
    if rest < 0:
        return None, "list-too-short"
    if nvar == 0:
        if rest != 0:
            return None, "list-too-long"
        return tuple(1 for _ in kinds), None
    if rest % nvar:
        return None, "not-evenly-divisible"
    k = rest // nvar
    if k > 1 and "O" in kinds:
        return None, "optional-size-gt-1"
    return tuple(1 if kd == "S" else k for kd in kinds), None


def reference(spec, inst):
    """-> (ok, where, reason, segs).  segs[c] = sizes or None per construct."""
    segs = {}
    bad = None
    for c in CONSTRUCTS:
        kinds, _constrs, option = spec[c]
        types, sizespec = inst[c]
        sizes, why = ref_segment(kinds, option, len(types), sizespec)
        segs[c] = sizes
        if sizes is None and bad is None:
            bad = (c, why)
    if bad is not None:
        return False, bad[0], bad[1], segs
    tvals = set()
    rvals = set()     # every occurrence of the range variable, as a string of type chars ("" = empty tuple)
    for c in ("operand", "result"):
        kinds, constrs, _ = spec[c]
        types = inst[c][0]
        pos = 0
        for cc, s in zip(constrs, segs[c]):
            piece = types[pos:pos + s]
            pos += s
            if cc == "E" and any(t != "3" for t in piece):
                return False, c, "eq-constraint-violated", segs
            if cc == "T":
                tvals.update(piece)
            if cc == "R":
                rvals.add(piece)
    hk, hv = spec["holder"], inst["holder"]
    if hk is not None:
        if hv == "missing":
            if not hk.startswith("opt_"):
                return False, "holder", "required-" + hk.replace("opt_", "") + "-missing", segs
        elif hv == "str":
            return False, "holder", "var-base-constraint-violated", segs
        else:
            tvals.add("3" if hv == "i32" else "6")
    if len(tvals) > 1:
        return False, "shared-var", "var-inconsistent", segs
    if len(rvals) > 1:
        return False, "shared-range-var", "range-var-inconsistent", segs
    return True, None, None, segs


FAILURE_NAME = {"sum-mismatch": "sum-not-checked", "negative-size": "negative-size-accepted"}


def opt_label(spec, c):
    if c not in CONSTRUCTS:
        c = spec["focus"] if spec["focus"] in CONSTRUCTS else "operand"
    kinds, _, option = spec[c]
    lab = OPT_LABEL[option]
    if option == "same" and all(k == "S" for k in kinds):
        lab += "/no-variadic-defs"
    return lab


# ======================================================================================
# real side
# ======================================================================================
_ENV = None


class _Env:
    def __init__(self):
        from xdsl.dialects.builtin import (ArrayAttr, DenseArrayBase, IntegerAttr, IntegerType, StringAttr, i32,
                                           i64)
        from xdsl.ir import Block, Region
        from xdsl.irdl import (AnyAttr, AttrSizedOperandSegments, AttrSizedRegionSegments, AttrSizedResultSegments,
                               AttrSizedSuccessorSegments, IRDLOperation, SameVariadicOperandSize,
                               SameVariadicRegionSize, SameVariadicResultSize, SameVariadicSuccessorSize,
                               RangeOf, RangeVarConstraint, VarConstraint, attr_def, base, irdl_op_definition, operand_def, opt_attr_def,
                               opt_operand_def, opt_prop_def, opt_region_def, opt_result_def, opt_successor_def,
                               prop_def, region_def, result_def, successor_def, var_operand_def, var_region_def,
                               var_result_def, var_successor_def)
        from xdsl.utils.exceptions import VerifyException

        self.VerifyException = VerifyException
        self.IRDLOperation = IRDLOperation
        self.irdl_op_definition = irdl_op_definition
        self.Region = Region
        self.i32, self.i64 = i32, i64
        self.T = VarConstraint("T", base(IntegerType))
        self.R = RangeVarConstraint("R", RangeOf(AnyAttr()))
        self.constr = {"A": lambda: AnyAttr(), "E": lambda: i32, "T": lambda: self.T, "R": lambda: self.R}
        self.fields = {
            "operand": {"S": operand_def, "O": opt_operand_def, "V": var_operand_def},
            "result": {"S": result_def, "O": opt_result_def, "V": var_result_def},
            "region": {"S": region_def, "O": opt_region_def, "V": var_region_def},
            "successor": {"S": successor_def, "O": opt_successor_def, "V": var_successor_def},
        }
        self.same = {"operand": SameVariadicOperandSize, "result": SameVariadicResultSize,
                     "region": SameVariadicRegionSize, "successor": SameVariadicSuccessorSize}
        self.sized = {"operand": AttrSizedOperandSegments, "result": AttrSizedResultSegments,
                      "region": AttrSizedRegionSegments, "successor": AttrSizedSuccessorSegments}
        self.holders = {"prop": prop_def, "opt_prop": opt_prop_def, "attr": attr_def, "opt_attr": opt_attr_def}
        self.pool = Block(arg_types=[i32] * 6 + [i64] * 6)
        self.blocks = [Block() for _ in range(6)]
        self.succ_region = Region(self.blocks)
        self.types = {"3": i32, "6": i64}
        self.hvals = {"i32": i32, "i64": i64, "str": StringAttr("x")}
        self._dense = {}
        self.DenseArrayBase, self.ArrayAttr, self.IntegerAttr, self.StringAttr = (DenseArrayBase, ArrayAttr,
                                                                                  IntegerAttr, StringAttr)

    def value(self, j, t):
        return self.pool.args[j if t == "3" else 6 + j]

    def size_attr(self, sizespec):
        key = (sizespec[0], tuple(sizespec[1]) if len(sizespec) > 1 else ())
        a = self._dense.get(key)
        if a is None:
            tag = key[0]
            if tag in ("ok", "wrongcontainer"):
                a = self.DenseArrayBase.from_list(self.i32, list(key[1]))
            elif tag == "eltype":
                a = self.DenseArrayBase.from_list(self.i64, list(key[1]))
            elif tag == "arrayattr":
                a = self.ArrayAttr([self.IntegerAttr(v, self.i32) for v in key[1]])
            elif tag == "string":
                a = self.StringAttr("sizes")
            else:
                raise AssertionError(tag)
            self._dense[key] = a
        return a


def env() -> _Env:
    global _ENV
    if _ENV is None:
        _ENV = _Env()
    return _ENV


def def_name(c, i):
    return f"x_{c}{i}"


_UID = [0]


def expected_refusal(spec) -> bool:
    return any(spec[c][2] == "none" and sum(k != "S" for k in spec[c][0]) >= 2 for c in CONSTRUCTS)


def make_def(st: Stats, spec):
    """-> class or None (definition refused by IRDL)."""
    E = env()
    _UID[0] += 1
    ns = {"name": f"c10.op{_UID[0]}", "__annotations__": {}}
    opts = []
    for c in CONSTRUCTS:
        kinds, constrs, option = spec[c]
        for i, k in enumerate(kinds):
            f = E.fields[c][k]
            if c in ("operand", "result"):
                ns[def_name(c, i)] = f(E.constr[constrs[i]]())
            else:
                ns[def_name(c, i)] = f()
        if option == "same":
            opts.append(E.same[c]())
        elif option == "attr":
            opts.append(E.sized[c](as_property=False))
        elif option == "prop":
            opts.append(E.sized[c](as_property=True))
    if opts:
        ns["irdl_options"] = tuple(opts)
    if spec["holder"] is not None:
        ns["h"] = E.holders[spec["holder"]](E.T)
    st.transitions += 1
    try:
        cls = type(f"C10Op{_UID[0]}", (E.IRDLOperation,), ns)
        cls = E.irdl_op_definition(cls)
    except Exception as e:  # noqa: BLE001 - definition-time refusal
        st.bump("definitions_refused")
        st.outcomes[f"definition refused ({type(e).__name__}) expected={expected_refusal(spec)}"] += 1
        if not expected_refusal(spec):
            st.cap(f"IRDL refused a definition the model considers legal: {type(e).__name__}")
        return None
    if expected_refusal(spec):
        st.bump("ambiguous_definitions_accepted")
        st.outcomes["definition with >=2 variadics and no option accepted (instances skipped)"] += 1
        return None
    st.bump("definitions_built")
    return cls


def build_lists(E: _Env, inst):
    """Python objects for the four lists of an instance (fresh regions each call)."""
    ot = inst["operand"][0]
    return {
        "operand": [E.value(j, t) for j, t in enumerate(ot)],
        "result": [E.types[t] for t in inst["result"][0]],
        "region": [E.Region() for _ in inst["region"][0]],
        "successor": [E.blocks[j] for j, _ in enumerate(inst["successor"][0])],
    }


def side_tables(E: _Env, spec, inst, with_sizes: bool):
    props, attrs = {}, {}
    if with_sizes:
        for c in CONSTRUCTS:
            option = spec[c][2]
            sizespec = inst[c][1]
            if sizespec is None:
                continue
            as_prop = option == "prop"
            if sizespec[0] == "wrongcontainer":
                as_prop = not as_prop
            (props if as_prop else attrs)[SEG_ATTR[c]] = E.size_attr(sizespec)
    hk, hv = spec["holder"], inst["holder"]
    if hk is not None and hv != "missing":
        (props if hk.endswith("prop") else attrs)["h"] = E.hvals[hv]
    return props, attrs


def raw_lists(op):
    return {"operand": list(op.operands), "result": list(op.results), "region": list(op.regions),
            "successor": list(op.successors)}


def cmp_accessors(st: Stats, spec, op, segs, wit, prefix: str):
    """Compare every named accessor with the reference segment.  -> set of exception names raised / bool bad"""
    raw = raw_lists(op)
    bad = False
    for c in CONSTRUCTS:
        kinds = spec[c][0]
        sizes = segs[c]
        if sizes is None or not kinds:
            continue
        lst = raw[c]
        pos = 0
        for i, (k, s) in enumerate(zip(kinds, sizes)):
            seg = lst[pos:pos + s]
            pos += s
            st.evaluations += 1
            try:
                got = getattr(op, def_name(c, i))
            except Exception as e:  # noqa: BLE001
                st.violate(f"C10|{c}|{opt_label(spec, c)}|{prefix}accessor-raises-{type(e).__name__}",
                           f"accessor of {c} def #{i} raised {type(e).__name__}: {str(e)[:80]} on an op whose "
                           f"{c} list splits into the declared segments",
                           {**wit, "accessor": def_name(c, i), "expected_segment": [pos - s, pos]})
                bad = True
                continue
            if k == "S":
                ok = len(seg) == 1 and got is seg[0]
            elif k == "O":
                ok = (got is None) if s == 0 else (got is seg[0])
            else:
                try:
                    g = list(got)
                    ok = len(g) == len(seg) and all(a is b for a, b in zip(g, seg))
                except TypeError:
                    ok = False
            if not ok:
                kn = {"S": "single", "O": "optional", "V": "variadic"}[k]
                st.violate(f"C10|{c}|{opt_label(spec, c)}|{prefix}accessor-mismatch-{kn}",
                           f"accessor of {kn} {c} def #{i} does not return list[{pos - s}:{pos}]",
                           {**wit, "accessor": def_name(c, i), "expected_segment": [pos - s, pos],
                            "got": _describe(got, lst)})
                bad = True
    return bad


def _describe(got, lst):
    def one(x):
        for j, y in enumerate(lst):
            if x is y:
                return j
        return repr(type(x).__name__)
    if got is None:
        return None
    try:
        return [one(x) for x in got]
    except TypeError:
        return one(got)


def run_verify(E: _Env, op):
    try:
        op.verify_()
        return "accept"
    except Exception as e:  # noqa: BLE001
        return type(e).__name__


def check_instance(st: Stats, cls, spec, inst, sample: bool = False):
    E = env()
    ok, where, reason, segs = reference(spec, inst)
    wit = {"part": spec.get("part"), "spec": spec, "inst": inst}
    lists = build_lists(E, inst)
    props, attrs = side_tables(E, spec, inst, True)
    st.states += 1
    st.transitions += 1
    focus = spec["focus"]
    fk = spec[focus][0] if focus in CONSTRUCTS else "V"
    if any(k != "S" for k in fk) or (focus in CONSTRUCTS and spec[focus][2] != "none") or spec["holder"]:
        st.nontrivial += 1
    try:
        op = cls.create(operands=lists["operand"], result_types=lists["result"], properties=props,
                        attributes=attrs, regions=lists["region"], successors=lists["successor"])
    except Exception as e:  # noqa: BLE001
        st.violate(f"C10|{focus}|{opt_label(spec, focus)}|create-raises-{type(e).__name__}",
                   f"generic Operation.create raised {type(e).__name__}: {str(e)[:80]}", wit)
        return
    alarm = cmp_accessors(st, spec, op, segs, wit, "")
    impl = run_verify(E, op)
    st.executions += 1
    st.evaluations += 1
    flabel = opt_label(spec, focus)
    st.outcomes[f"{focus}/{flabel}: ref={'valid' if ok else where + ':' + reason} impl={impl}"] += 1
    if ok and impl != "accept":
        if not (alarm and impl != "VerifyException"):  # a raising accessor was reported already (same root cause)
            kind = "valid-rejected" if impl == "VerifyException" else f"valid-raises-{impl}"
            st.violate(f"C10|{focus}|{flabel}|{kind}",
                       f"verification raised {impl} although every list splits into the declared segments and "
                       "all constraints hold", {**wit, "impl": impl, "ref": "valid"})
        alarm = True
    elif not ok and impl == "accept":
        failure = FAILURE_NAME.get(reason, reason + "-accepted")
        st.violate(f"C10|{where}|{opt_label(spec, where)}|{failure}",
                   f"op verifies although the reference rejects it ({where}: {reason})",
                   {**wit, "impl": "accept", "ref": f"reject {where}:{reason}"})
        alarm = True
    op.drop_all_references()
    if sample:
        st.sample({"spec": spec, "inst": inst, "ref": "valid" if ok else f"{where}:{reason}", "impl": impl})
    if ok and not alarm:
        check_ctor(st, cls, spec, inst, segs, wit)


def ctor_args(kinds, sizes, items):
    out = []
    pos = 0
    for k, s in zip(kinds, sizes):
        seg = items[pos:pos + s]
        pos += s
        if k == "S":
            out.append(seg[0])
        elif k == "O":
            out.append(seg[0] if s else None)
        else:
            out.append(list(seg))
    return out


def check_ctor(st: Stats, cls, spec, inst, segs, wit):
    """The argument tuple denoted by a valid instance goes through the generated constructor."""
    E = env()
    lists = build_lists(E, inst)
    props, attrs = side_tables(E, spec, inst, False)
    focus = spec["focus"]
    flabel = opt_label(spec, focus)
    args = {c: ctor_args(spec[c][0], segs[c], lists[c]) for c in CONSTRUCTS}
    st.transitions += 1
    st.bump("constructor_calls")
    try:
        op = cls(operands=args["operand"], result_types=args["result"], properties=props, attributes=attrs,
                 regions=args["region"], successors=args["successor"])
    except Exception as e:  # noqa: BLE001
        st.violate(f"C10|{focus}|{flabel}|ctor-raises-{type(e).__name__}",
                   f"generated constructor raised {type(e).__name__}: {str(e)[:80]} on arguments satisfying the "
                   "definition", {**wit, "ctor_sizes": {c: list(segs[c]) for c in CONSTRUCTS}})
        return
    st.executions += 1
    raw = raw_lists(op)
    same = True
    for c in CONSTRUCTS:
        st.evaluations += 1
        if c == "result":
            same &= [r.type for r in raw[c]] == lists[c]
        else:
            same &= len(raw[c]) == len(lists[c]) and all(a is b for a, b in zip(raw[c], lists[c]))
    if not same:
        st.violate(f"C10|{focus}|{flabel}|ctor-list-mismatch",
                   "generated constructor did not concatenate its arguments in order", wit)
    cmp_accessors(st, spec, op, segs, wit, "ctor-")
    try:
        if raw["successor"]:
            op.verify_()
        else:
            op.verify()
        st.outcomes[f"{focus}/{flabel}: ctor verifies"] += 1
    except Exception as e:  # noqa: BLE001
        kind = "ctor-op-rejected" if isinstance(e, E.VerifyException) else f"ctor-op-raises-{type(e).__name__}"
        st.violate(f"C10|{focus}|{flabel}|{kind}",
                   f"op built by the generated constructor from satisfying arguments does not verify: "
                   f"{type(e).__name__}: {str(e)[:80]}", wit)
    st.evaluations += 1
    op.drop_all_references()


# ======================================================================================
# enumeration
# ======================================================================================
EMPTY = ["", "", "none"]


def empty_spec(part, focus):
    return {"part": part, "focus": focus, "operand": list(EMPTY), "result": list(EMPTY), "region": list(EMPTY),
            "successor": list(EMPTY), "holder": None}


def type_lists(maxlen, canonical: bool):
    for n in range(maxlen + 1):
        if canonical:
            yield "".join("36"[j % 2] for j in range(n))
        else:
            for t in itertools.product("36", repeat=n):
                yield "".join(t)


def size_specs(n, option, part):
    if option not in ("attr", "prop"):
        return [None]
    out = [["ok", list(v)] for v in itertools.product(SIZE_ALPHABET, repeat=n)]
    if part == "A":
        out.append(None)
        out.append(["string"])
        for m in (n - 1, n + 1):
            if m >= 0:
                out.extend(["ok", list(v)] for v in itertools.product(SMALL_SIZES, repeat=m))
        for tag in ("eltype", "arrayattr", "wrongcontainer"):
            out.extend([tag, list(v)] for v in itertools.product(SMALL_SIZES, repeat=n))
    return out


def instances(spec, params):
    part = spec["part"]
    maxlen = params["maxlen"]
    alts = {}
    for c in CONSTRUCTS:
        kinds, constrs, option = spec[c]
        if c == spec["focus"]:
            tl = list(type_lists(maxlen, canonical=(part == "A")))
            alts[c] = [[t, s] for t in tl for s in size_specs(len(kinds), option, part)]
        elif kinds and part == "B":      # companion: a single T-constrained def
            alts[c] = [["3", None], ["6", None]]
        elif kinds and part in ("C", "R"):
            alts[c] = [[t, None] for t in type_lists(min(maxlen, 2), canonical=False)]
        else:
            alts[c] = [["", None]]
    if spec["holder"] is None:
        hv = [None]
    elif part == "B":
        hv = ["i32", "i64"]
    else:
        hv = ["missing", "i32", "i64", "str"]
    for o, r, g, s, h in itertools.product(alts["operand"], alts["result"], alts["region"], alts["successor"], hv):
        yield {"operand": o, "result": r, "region": g, "successor": s, "holder": h}


def _shard_defs(task) -> Stats:
    spec, params, seed = task
    st = Stats()
    cls = make_def(st, spec)
    if cls is None:
        return st
    # VERIF_SEED only rotates which instance of a definition is copied into the samples
    pick = 1 + (sum(map(ord, spec[spec["focus"]][0] if spec["focus"] in CONSTRUCTS else "h")) * 13 + seed * 37) % 61
    n = 0
    for inst in instances(spec, params):
        n += 1
        check_instance(st, cls, spec, inst, sample=(n == pick))
    return st


def corpus_check_module(st: Stats, rel, idx, module):
    from xdsl.irdl import IRDLOperation

    for op in module.walk():
        if not isinstance(op, IRDLOperation):
            st.bump("corpus_non_irdl_ops")
            continue
        spec_kinds = corpus_kinds(op)
        st.states += 1
        st.executions += 1
        raw = raw_lists(op)
        multi = False
        for c in CONSTRUCTS:
            names, kinds, optlabel = spec_kinds[c]
            lst = raw[c]
            nvar = sum(k != "S" for k in kinds)
            shape = optlabel + "/" + ("no-variadic" if nvar == 0 else "one-variadic" if nvar == 1 else "multi-variadic")
            if nvar:
                multi = True
                st.outcomes[f"corpus {c} defs: {shape}"] += 1
            st.evaluations += 1
            pos = 0
            problem = None
            for name, k in zip(names, kinds):
                try:
                    got = getattr(op, name)
                except Exception as e:  # noqa: BLE001
                    problem = f"accessor-raises-{type(e).__name__}"
                    break
                if k == "S":
                    if pos < len(lst) and got is lst[pos]:
                        pos += 1
                    else:
                        problem = "single-accessor-mismatch"
                elif k == "O":
                    if got is None:
                        pass
                    elif pos < len(lst) and got is lst[pos]:
                        pos += 1
                    else:
                        problem = "optional-accessor-mismatch"
                else:
                    try:
                        g = list(got)
                    except TypeError:
                        g = None
                    if g is not None and len(g) <= len(lst) - pos and all(a is b for a, b in zip(g, lst[pos:])):
                        pos += len(g)
                    else:
                        problem = "variadic-accessor-mismatch"
                if problem:
                    break
            if problem is None and pos != len(lst):
                problem = "segments-do-not-cover-list"
            if problem:
                st.violate(f"C10|corpus|{c}|{shape}|{problem}",
                           f"accessors of the {c} defs of {op.name} do not partition the {c} list of a verified op",
                           {"part": "K", "file": rel, "chunk": idx, "op": op.name, "construct": c, "kinds": kinds,
                            "list_length": len(lst)})
        if multi:
            st.nontrivial += 1
        st.outcomes["corpus op checked"] += 1


def corpus_kinds(op):
    """Definition of the op read from its OpDef: per construct (names, kinds, option label)."""
    from xdsl.irdl import OptionalDef, VariadicDef

    d = type(op).get_irdl_definition()
    optnames = [type(o).__name__ for o in d.options]
    out = {}
    for c, defs in (("operand", d.operands), ("result", d.results), ("region", d.regions),
                    ("successor", d.successors)):
        names = [n for n, _ in defs]
        kinds = "".join("O" if isinstance(x, OptionalDef) else "V" if isinstance(x, VariadicDef) else "S"
                        for _, x in defs)
        cap = c.capitalize()
        lab = "+".join(l for l, nm in (("attr-sized", f"AttrSized{cap}Segments"), ("same-size", f"SameVariadic{cap}Size"))
                       if nm in optnames) or "no-option"
        out[c] = (names, kinds, lab)
    return out


def _shard_corpus(task) -> Stats:
    from mc import corpus

    rel, only = task
    st = Stats()
    for idx, text in enumerate(corpus.chunks_of(rel)):
        if only is not None and idx != only:
            continue
        st.transitions += 1
        m = corpus.parse(text, rel)
        if m is None:
            st.bump("corpus_chunks_skipped")
            continue
        st.bump("corpus_chunks_verified")
        corpus_check_module(st, rel, idx, m)
    return st


def _shard(task) -> Stats:
    if task[0] == "K":
        return _shard_corpus(task[1:])
    return _shard_defs(task[1:])


def def_specs(quick: bool):
    """-> list of (spec, params, cost estimate)"""
    out = []
    # ---- part A
    for c in CONSTRUCTS:
        for n in range(4):
            for kinds in itertools.product(KINDS, repeat=n):
                for option in OPTIONS:
                    spec = empty_spec("A", c)
                    spec[c] = ["".join(kinds), "A" * n, option]
                    cost = 6 * (5 ** n + 4 * 3 ** n + 3 ** (n + 1)) if option in ("attr", "prop") else 6
                    out.append((spec, {"maxlen": 5}, cost))
    # ---- part B
    b_attr_n = 2 if quick else 3
    b_maxlen3 = 4
    for c, other in (("operand", "result"), ("result", "operand")):
        for n in range(1, 4):
            for kinds in itertools.product(KINDS, repeat=n):
                for constrs in itertools.product(CONSTRS, repeat=n):
                    if all(x == "A" for x in constrs):
                        continue
                    for option in OPTIONS:
                        sized = option in ("attr", "prop")
                        if sized and n > b_attr_n:
                            continue
                        spec = empty_spec("B", c)
                        spec[c] = ["".join(kinds), "".join(constrs), option]
                        comp = 1
                        if "T" in constrs:
                            spec[other] = ["S", "T", "none"]
                            spec["holder"] = "prop"
                            comp = 4
                        maxlen = b_maxlen3 if (sized and n == 3) else 5
                        cost = (2 ** (maxlen + 1) - 1) * (5 ** n if sized else 1) * comp
                        out.append((spec, {"maxlen": maxlen}, cost))
    # ---- part R (range variable shared by several optional/variadic segments)
    ov = ["".join(k) for k in itertools.product("OV", repeat=2)]
    for c in ("operand", "result"):
        for k in ov:
            for kinds, constrs in ((k, "RR"), (k[0] + "S" + k[1], "RAR")):
                for option in ("same", "attr", "prop"):
                    spec = empty_spec("R", c)
                    spec[c] = [kinds, constrs, option]
                    sized = option != "same"
                    out.append((spec, {"maxlen": 4}, 31 * (5 ** len(kinds) if sized else 1)))
    for k in ov:
        spec = empty_spec("R", "operand")
        spec["operand"] = [k[0], "R", "none"]
        spec["result"] = [k[1], "R", "none"]
        out.append((spec, {"maxlen": 2}, 49))
    for option in ("same", "attr", "prop"):
        spec = empty_spec("R", "operand")
        spec["operand"] = ["VV", "RR", option]
        spec["result"] = ["V", "R", "none"]
        out.append((spec, {"maxlen": 4}, 31 * 7 * (25 if option != "same" else 1)))
    # ---- part C
    for ko in KINDS:
        for kr in KINDS:
            for hk in ("prop", "opt_prop", "attr", "opt_attr"):
                spec = empty_spec("C", "holder")
                spec["operand"] = [ko, "T", "none"]
                spec["result"] = [kr, "T", "none"]
                spec["holder"] = hk
                out.append((spec, {"maxlen": 2}, 7 * 7 * 4))
    return out, {"partB_attr_sized_max_defs": b_attr_n, "partB_attr_sized_3defs_max_list_length": b_maxlen3}


def region_entry_family(st: Stats) -> None:
    """part G: region definitions WITH entry-argument constraints x every entry-block shape (no block, block with 0, 1, 2
    arguments over {i32, i64}) for single / optional / variadic region definitions.  Reference: a region without blocks is
    not constrained; otherwise the entry block's argument types must satisfy the range constraint (element constraint
    and length)."""
    from xdsl.dialects.builtin import i32, i64
    from xdsl.dialects.test import TestTermOp
    from xdsl.ir import Block, Region
    from xdsl.irdl import (AnyAttr, EqAttrConstraint, IRDLOperation, RangeOf, irdl_op_definition, opt_region_def,
                           region_def, var_region_def)

    T = {"3": i32, "6": i64}
    cons = {
        "any*": (RangeOf(AnyAttr()), lambda ts: True),
        "i32*": (RangeOf(EqAttrConstraint(i32)), lambda ts: all(t == "3" for t in ts)),
        "i32^0": (RangeOf(EqAttrConstraint(i32)).of_length(0), lambda ts: len(ts) == 0),
        "i32^1": (RangeOf(EqAttrConstraint(i32)).of_length(1), lambda ts: ts == ("3",)),
        "i32^2": (RangeOf(EqAttrConstraint(i32)).of_length(2), lambda ts: ts == ("3", "3")),
        "any^1": (RangeOf(AnyAttr()).of_length(1), lambda ts: len(ts) == 1),
    }
    shapes = [None, (), ("3",), ("6",), ("3", "3"), ("3", "6"), ("6", "3")]

    def mk_region(shape):
        if shape is None:
            return Region()
        return Region(Block([TestTermOp.create()], arg_types=[T[c] for c in shape]))

    n = 0
    for cname, (c, accept) in cons.items():
        for kind, mkdef, counts in (("S", region_def, (1,)), ("O", opt_region_def, (0, 1)), ("V", var_region_def, (0, 1, 2))):
            n += 1

            @irdl_op_definition
            class _G(IRDLOperation):
                name = f"c10.regentry{n}"
                body = mkdef(entry_args=c)

            st.transitions += 1
            for k in counts:
                for combo in itertools.product(shapes, repeat=k):
                    ref = all(sh is None or accept(tuple(sh)) for sh in combo)
                    op = _G.create(regions=[mk_region(sh) for sh in combo])
                    st.states += 1
                    st.executions += 1
                    st.evaluations += 1
                    st.nontrivial += 1 if any(sh == () for sh in combo) else 0
                    try:
                        op.verify_()
                        got = True
                    except Exception as e:  # noqa: BLE001
                        got = False
                        if type(e).__name__ != "VerifyException":
                            st.violate(f"C10|region-entry-args|{kind}|verify-raises-{type(e).__name__}",
                                       f"verify_ raised {type(e).__name__} for a region entry-argument check", {"constraint": cname, "kind": kind, "shapes": [list(x) if x is not None else None for x in combo]})
                            continue
                    st.outcomes[f"region-entry:{'accept' if got else 'reject'}"] += 1
                    if got != ref:
                        empty = any(sh == () for sh in combo)
                        st.violate(f"C10|region-entry-args|{kind}|{'invalid-accepted' if got else 'valid-rejected'}|{'entry-block-without-args' if empty else 'entry-block-with-args'}",
                                   f"entry-argument constraint {cname}: verify_ {'accepts' if got else 'rejects'} entry blocks {combo}, the definition says {'accept' if ref else 'reject'}",
                                   {"constraint": cname, "kind": kind, "shapes": [list(x) if x is not None else None for x in combo]})


def run(ctx):
    from mc import corpus

    region_entry_family(ctx.stats)
    specs, binfo = def_specs(ctx.quick)
    tasks = [(cost, ("D", spec, params, ctx.seed)) for spec, params, cost in specs]
    dirs = QUICK_CORPUS_DIRS if ctx.quick else THOROUGH_CORPUS_DIRS
    files = []
    for d in dirs:
        files.extend(corpus.files(d))
    files = sorted(set(files))
    tasks.extend((3000, ("K", rel, None)) for rel in files)
    tasks.sort(key=lambda t: -t[0])
    for _, st in pmap(_shard, [t for _, t in tasks]):
        ctx.merge(st)
    ctx.bounds = {
        "constructs": list(CONSTRUCTS), "defs_per_construct": "every sequence of 0..3 over {single, optional, variadic}",
        "options": ["none", "SameVariadic<X>Size", "AttrSized<X>Segments", "AttrSized<X>Segments(as_property=True)"],
        "constraints": ["Any", "Eq i32", "VarConstraint T (IntegerType) shared by operand/result/property"],
        "partA_list_lengths": "0..5", "partA_size_vectors": "{-1,0,1,2,3}^n, {0,1,2}^(n-1), {0,1,2}^(n+1), i64 dense "
        "array / ArrayAttr / wrong container over {0,1,2}^n, StringAttr, missing",
        "partB_type_lists": "every list over {i32,i64} of length 0..5 (0..4 for 3 defs with AttrSized)",
        "partB_size_vectors": "{-1,0,1,2,3}^n", **binfo,
        "partR": "RangeVarConstraint R shared by two optional/variadic segments of one construct (lists 0..4, all size "
        "vectors), by an operand and a result segment (every pair of lists 0..2), and by two operand + one result segment",
        "partC": "operand kind x result kind x holder kind; lists 0..2; holder in {missing,i32,i64,str}",
        "partG": "region_def / opt_region_def / var_region_def with entry_args in {any*, i32*, i32^0, i32^1, i32^2, any^1} x entry blocks "
                 "{none, (), (i32), (i64), (i32,i32), (i32,i64), (i64,i32)} per region (0..2 regions)",
        "definitions": len(specs), "corpus_dirs": list(dirs), "corpus_files": len(files),
    }
    ctx.rule = ("states = (definition, instance) pairs of the product families A/B/C plus corpus ops; transitions = "
                "definitions attempted + instances built + constructor calls + corpus chunks; executions = verify_ runs "
                "compared with the reference (+ constructor-built ops, + corpus ops); non-trivial = instance whose focus "
                "construct has an optional/variadic def or a segment option (the split must be computed) or that has a "
                "T-constrained holder; corpus op with an optional/variadic def")
    ctx.assumptions = [
        "reference segmenter/constraint evaluator in props/c10.py states the property",
        "op.verify_() (OpDef.verify) is the IRDL definition verification; Operation.verify() adds only structural "
        "checks (terminator placement, nested regions) that are out of scope; used for constructor-built ops without successors",
        "in parts A-C regions are empty Region() objects; entry-argument constraints are covered by part G",
        "a verification that raises a non-VerifyException (e.g. IndexError) on an op the reference rejects is counted "
        "as a rejection (visible in outcomes), not as a violation",
        "corpus chunks that do not parse/verify with all dialects registered are not part of the corpus",
    ]


def replay(rep) -> bool:
    if "constraint" in rep.get("witness", {}) and "shapes" in rep["witness"]:
        st0 = Stats()
        region_entry_family(st0)
        return rep["signature"] not in st0.violations
    w = rep["witness"]
    st = Stats()
    if w.get("part") == "K":
        st = _shard_corpus((w["file"], w["chunk"]))
    else:
        spec, inst = w["spec"], w["inst"]
        cls = make_def(st, spec)
        if cls is None:
            return True
        check_instance(st, cls, spec, inst)
    return rep["signature"] not in st.violations
