"""C11 — the greedy rewrite driver reaches a fixpoint and observes every IR change.

Stateless exploration of the REAL PatternRewriteWalker under a controlled scheduler: the walker's
`Worklist.pop` is substituted (from the harness, class level) by a chooser that may return ANY item
present in the worklist; executions are enumerated depth-first by choice prefix with an iterated
deviation bound (deviation = not popping the default, most recently pushed, item).  Every execution
runs to completion on a freshly built seed.

Seeds: every block of up to N marker ops (with every operand wiring and small nested regions);
patterns: a pool of terminating rewrite patterns keyed on the marker (erase, replace, forward to
operand, insert, modify in place, inline region, erase op with region, block-argument insertion,
conditional use replacement, erase a neighbour), inside GreedyRewritePatternApplier (both pattern
orders, dce on/off); walker configurations: all 8 of walk_reverse x walk_regions_first x
apply_recursively.

Oracles on every execution:
 (1) fixpoint: after return with apply_recursively, re-running every pattern on every remaining op
     (on a clone) changes nothing;
 (2) the returned flag is True whenever the canonical form of the region changed;
 (3) match_and_rewrite is only ever invoked on an op attached below the rewritten region;
 (4) every insertion / removal / replacement / modification a pattern performs through the rewriter
     reaches the registered listener, and has_done_action is set whenever a match changed the IR.
"""
from __future__ import annotations

import itertools
from typing import Any

from mc.canon import canon
from mc.explore import Chooser, dfs_choices
from mc.pool import pmap
from mc.stats import Stats

MARKERS = ("a", "e", "fwd", "ins", "insh", "insh0", "m", "reg", "ereg", "addarg", "rui", "rui2", "rauw", "eo", "eo2", "victim", "pure", "c")
ERASERS = frozenset({"eo", "eo2", "ereg"})
# (needs_operand, n_results, has_region)
SHAPE = {
    "a": (False, 1, False), "b": (False, 1, False), "c": (False, 1, False), "e": (False, 1, False),
    "fwd": (True, 1, False), "ins": (False, 1, False), "m": (False, 1, False), "reg": (False, 0, True),
    "ereg": (False, 0, True), "addarg": (False, 0, True), "rui": (True, 1, False), "eo": (False, 0, False),
    "victim": (False, 1, False), "pure": (False, 1, False),
    "rui2": (True, 1, False), "rauw": (True, 1, False), "insh": (False, 1, False),
    "insh0": (False, 1, False), "eo2": (False, 0, False),
}
# bodies placed inside region-carrying markers; an entry (marker, inner) with inner != None is itself an op with a
# region holding the inner ops, so erasing the outer op leaves GRANDCHILDREN pending in the worklist
NESTED_BODIES = ((("a", None),), (("m", None), ("e", None)), (("c", (("a", None), ("m", None))),))


# ------------------------------------------------------------------ seeds
def seeds(max_ops: int):
    """descriptions: tuple of ops; op = (marker, operand_index|None, nested_body_index|None).
    operand_index refers to the i-th earlier value of the top block (use of an outer value from a nested
    body is covered by nested bodies being placed after defs)."""
    def rec(prefix: tuple, nvals: int, budget: int):
        if prefix:
            yield prefix
        if budget == 0:
            return
        for mk in MARKERS:
            need, nres, has_reg = SHAPE[mk]
            opnds = [None] + list(range(nvals)) if not need else list(range(nvals))
            if need and nvals == 0:
                continue
            bodies = [None] if not has_reg else list(range(len(NESTED_BODIES)))
            for o in opnds:
                for b in bodies:
                    yield from rec(prefix + ((mk, o, b),), nvals + nres, budget - 1)
    yield from rec((), 0, max_ops)


def build(desc):
    from xdsl.dialects.builtin import ModuleOp, StringAttr, i32
    from xdsl.dialects.test import TestOp, TestPureOp
    from xdsl.ir import Block, Region

    vals: list[Any] = []
    ops = []
    for (mk, o, b) in desc:
        need, nres, has_reg = SHAPE[mk]
        operands = [vals[o]] if o is not None else []
        regions = []
        if has_reg:
            body = []
            for (nmk, inner) in NESTED_BODIES[b]:
                # nested ops use the most recent outer value when there is one (values used from an enclosing region)
                inner_regions = []
                if inner is not None:
                    inner_regions = [Region([Block([TestOp(result_types=[i32], attributes={"k": StringAttr(imk)}) for (imk, _y) in inner])])]
                body.append(TestOp(operands=vals[-1:] if vals else [], result_types=[i32], attributes={"k": StringAttr(nmk)},
                                   regions=inner_regions))
            regions = [Region([Block(body)])]
        cls = TestPureOp if mk == "pure" else TestOp
        op = cls(operands=operands, result_types=[i32] * nres, attributes={"k": StringAttr(mk)}, regions=regions)
        vals.extend(op.results)
        ops.append(op)
    # a final user keeps the last value alive so that not everything is dead
    if vals:
        ops.append(TestOp(operands=[vals[-1]], attributes={"k": StringAttr("c")}))
    return ModuleOp(ops)


# ------------------------------------------------------------------ patterns (all through the rewriter API)
class Rec:
    def __init__(self) -> None:
        self.events: list[tuple[str, int]] = []
        self.expected: list[tuple[str, int]] = []
        self.problems: list[tuple[str, str]] = []
        self.invocations = 0
        self.keep: list[Any] = []


REC: Rec = Rec()
_FIX_CACHE: dict = {}


def marker(op) -> str | None:
    a = op.attributes.get("k")
    return a.data if a is not None else None


def _mk(k: str, operands=(), nres=1):
    from xdsl.dialects.builtin import StringAttr, i32
    from xdsl.dialects.test import TestOp

    return TestOp(operands=list(operands), result_types=[i32] * nres, attributes={"k": StringAttr(k)})


def _set(op, k: str):
    from xdsl.dialects.builtin import StringAttr

    op.attributes["k"] = StringAttr(k)


def expect(kind: str, op) -> None:
    REC.expected.append((kind, id(op)))
    REC.keep.append(op)


def users(op):
    return [u.operation for r in op.results for u in r.uses]


def make_patterns():
    from xdsl.dialects.builtin import i32
    from xdsl.pattern_rewriter import RewritePattern
    from xdsl.rewriter import InsertPoint

    class Replace(RewritePattern):
        def __init__(self, frm, to):
            self.frm, self.to = frm, to

        def match_and_rewrite(self, op, rewriter):
            if marker(op) != self.frm:
                return
            new = _mk(self.to, op.operands, len(op.results))
            expect("insertion", new)
            expect("replacement", op)
            expect("removal", op)
            for u in users(op):
                expect("modification", u)
            rewriter.replace(op, new)

    class EraseUnused(RewritePattern):
        def match_and_rewrite(self, op, rewriter):
            if marker(op) != "e" or any(r.first_use is not None for r in op.results):
                return
            expect("removal", op)
            rewriter.erase(op)

    class Forward(RewritePattern):
        def match_and_rewrite(self, op, rewriter):
            if marker(op) != "fwd":
                return
            expect("replacement", op)
            expect("removal", op)
            for u in users(op):
                expect("modification", u)
            rewriter.replace(op, [], [op.operands[0]])

    class InsertThenMark(RewritePattern):
        def match_and_rewrite(self, op, rewriter):
            if marker(op) != "ins":
                return
            new = _mk("a")
            expect("insertion", new)
            rewriter.insert(new, InsertPoint.before(op))
            _set(op, "c")
            expect("modification", op)
            rewriter.notify_op_modified(op)

    class InsertWithNameHint(RewritePattern):
        """insertion made while the rewriter carries a name hint (a separate code path in Builder.insert)"""
        def match_and_rewrite(self, op, rewriter):
            if marker(op) != "insh":
                return
            new = _mk("a")
            expect("insertion", new)
            rewriter.name_hint = "hinted"
            rewriter.insert(new, InsertPoint.before(op))
            _set(op, "c")
            expect("modification", op)
            rewriter.notify_op_modified(op)

    class InsertNoResultWithNameHint(RewritePattern):
        """a ZERO-RESULT op inserted while the rewriter carries a name hint (nothing to name, still an insertion)"""
        def match_and_rewrite(self, op, rewriter):
            if marker(op) != "insh0":
                return
            new = _mk("m", nres=0)
            expect("insertion", new)
            rewriter.name_hint = "hinted"
            rewriter.insert(new, InsertPoint.before(op))
            _set(op, "c")
            expect("modification", op)
            rewriter.notify_op_modified(op)

    class EraseOtherThenInsertPair(RewritePattern):
        """erases a queued op (leaving a hole in the worklist), then inserts an eraser and a fresh victim: under a
        non-LIFO pop the new eraser runs first and erases the new victim while it is still queued"""
        def match_and_rewrite(self, op, rewriter):
            if marker(op) != "eo2":
                return
            nxt = op.next_op
            if nxt is not None and marker(nxt) == "victim" and all(r.first_use is None for r in nxt.results):
                expect("removal", nxt)
                rewriter.erase(nxt)
            e2, v2 = _mk("eo", nres=0), _mk("victim")
            expect("insertion", e2)
            expect("insertion", v2)
            rewriter.insert(e2, InsertPoint.before(op))
            rewriter.insert(v2, InsertPoint.before(op))
            _set(op, "c")
            expect("modification", op)
            rewriter.notify_op_modified(op)

    class Modify(RewritePattern):
        def match_and_rewrite(self, op, rewriter):
            if marker(op) != "m":
                return
            _set(op, "e")
            expect("modification", op)
            rewriter.notify_op_modified(op)

    class InlineRegion(RewritePattern):
        def match_and_rewrite(self, op, rewriter):
            if marker(op) != "reg":
                return
            rewriter.inline_block(op.regions[0].block, InsertPoint.before(op))
            expect("removal", op)
            rewriter.erase(op)

    class EraseWithRegion(RewritePattern):
        def match_and_rewrite(self, op, rewriter):
            if marker(op) != "ereg":
                return
            expect("removal", op)
            rewriter.erase(op, safe_erase=False)

    class AddArg(RewritePattern):
        def match_and_rewrite(self, op, rewriter):
            if marker(op) != "addarg":
                return
            rewriter.insert_block_argument(op.regions[0].block, 0, i32)
            _set(op, "c")
            expect("modification", op)
            rewriter.notify_op_modified(op)

    class ReplaceUsesIf(RewritePattern):
        def match_and_rewrite(self, op, rewriter):
            if marker(op) != "rui":
                return
            us = users(op)
            for u in us:
                expect("modification", u)
            rewriter.replace_uses_with_if(op.results[0], op.operands[0], lambda use: True)
            _set(op, "e")
            expect("modification", op)
            rewriter.notify_op_modified(op)

    class ReplaceUsesIfOnly(RewritePattern):
        """the conditional use replacement is the ONLY mutation of this match"""
        def match_and_rewrite(self, op, rewriter):
            if marker(op) != "rui2" or op.results[0].first_use is None:
                return
            for u in users(op):
                expect("modification", u)
            rewriter.replace_uses_with_if(op.results[0], op.operands[0], lambda use: True)

    class ReplaceAllUsesOnly(RewritePattern):
        """replace_all_uses_with is the ONLY mutation of this match"""
        def match_and_rewrite(self, op, rewriter):
            if marker(op) != "rauw" or op.results[0].first_use is None:
                return
            for u in users(op):
                expect("modification", u)
            rewriter.replace_all_uses_with(op.results[0], op.operands[0])

    class EraseOther(RewritePattern):
        def match_and_rewrite(self, op, rewriter):
            if marker(op) != "eo":
                return
            nxt = op.next_op
            if nxt is not None and marker(nxt) == "victim" and all(r.first_use is None for r in nxt.results):
                expect("removal", nxt)
                rewriter.erase(nxt)
            _set(op, "c")
            expect("modification", op)
            rewriter.notify_op_modified(op)

    return [Replace("a", "b"), Replace("b", "c"), EraseUnused(), Forward(), InsertThenMark(), InsertWithNameHint(), InsertNoResultWithNameHint(), Modify(),
            InlineRegion(), EraseWithRegion(), AddArg(), ReplaceUsesIf(), ReplaceUsesIfOnly(), ReplaceAllUsesOnly(), EraseOther(),
            EraseOtherThenInsertPair()]


# ------------------------------------------------------------------ one execution
def under(op, region) -> bool:
    cur = op
    while cur is not None:
        blk = cur.parent
        if blk is None:
            return False
        reg = blk.parent
        if reg is None:
            return False
        if reg is region:
            return True
        cur = reg.parent
    return False


def run_once(desc, cfg, ch: Chooser):
    """build, run the real walker under the chooser, evaluate oracles; returns list of (sig, what)"""
    from xdsl.pattern_rewriter import GreedyRewritePatternApplier, PatternRewriter, PatternRewriterListener, PatternRewriteWalker, RewritePattern
    from xdsl.utils import worklist as wl_mod

    global REC
    REC = Rec()
    rec = REC
    walk_reverse, regions_first, recursive, rev_patterns, dce = cfg[:5]
    post_walk = len(cfg) > 5 and cfg[5]
    module = build(desc)
    region = module.body
    pats = make_patterns()
    if rev_patterns:
        pats = list(reversed(pats))
    applier = GreedyRewritePatternApplier(pats, dce_enabled=dce)

    class Checked(RewritePattern):
        def match_and_rewrite(self, op, rewriter):
            rec.invocations += 1
            if not under(op, region):
                rec.problems.append(("invoked-on-detached-op", f"pattern invoked on an op ({marker(op)}) that is not attached below the rewritten region"))
                return
            c0 = canon(region)
            e0, x0 = len(rec.events), len(rec.expected)
            was_dead = dce and _dead(op)
            applier.match_and_rewrite(op, rewriter)
            changed = canon(region) != c0
            if changed and not rewriter.has_done_action:
                rec.problems.append(("has_done_action-not-set", f"a match on '{marker(op) or op.name}' changed the IR but has_done_action is False"))
            got = rec.events[e0:]
            for ev in rec.expected[x0:]:
                if ev not in got:
                    rec.problems.append((f"listener-missed-{ev[0]}", f"a {ev[0]} made through the rewriter was not reported to the listener"))
            if was_dead and changed and ("removal", id(op)) not in got:
                rec.problems.append(("listener-missed-removal", "trivial-dead erasure was not reported to the listener"))

    def _dead(op):
        from xdsl.transforms.dead_code_elimination import is_trivially_dead
        return is_trivially_dead(op)

    listener = PatternRewriterListener(
        operation_insertion_handler=[lambda op: rec.events.append(("insertion", id(op)))],
        operation_removal_handler=[lambda op: rec.events.append(("removal", id(op)))],
        operation_modification_handler=[lambda op: rec.events.append(("modification", id(op)))],
        operation_replacement_handler=[lambda op, new: rec.events.append(("replacement", id(op)))],
    )
    def post_walk_hook(reg, lst) -> bool:
        """post_walk_func option: erases unused 'victim' ops directly (as canonicalize's region_dce hook does) and
        reports whether it changed anything"""
        from xdsl.rewriter import Rewriter
        changed = False
        for o in list(reg.walk()):
            if marker(o) == "victim" and o.parent is not None and all(r.first_use is None for r in o.results):
                Rewriter.erase_op(o)
                changed = True
        return changed

    walker = PatternRewriteWalker(Checked(), walk_regions_first=regions_first, apply_recursively=recursive,
                                  walk_reverse=walk_reverse, listener=listener,
                                  post_walk_func=post_walk_hook if post_walk else None)

    MISSING = wl_mod._MISSING
    orig_pop = wl_mod.Worklist.pop

    def chosen_pop(self):
        present = [i for i in range(len(self._stack) - 1, -1, -1) if self._stack[i] is not MISSING]
        if not present:
            raise IndexError("pop from empty worklist")
        c = ch.choose(len(present)) if len(present) > 1 else 0
        idx = present[c]
        item = self._stack[idx]
        if c == 0:
            del self._stack[idx:]
        else:
            self._stack[idx] = MISSING
        del self._map[item]
        return item

    before = canon(region)
    wl_mod.Worklist.pop = chosen_pop
    try:
        try:
            flag = walker.rewrite_region(region)
        except Exception as e:  # noqa: BLE001
            return [("driver-raised|" + type(e).__name__, f"rewrite_region raised {type(e).__name__}: {str(e)[:200]}")], rec, None
    finally:
        wl_mod.Worklist.pop = orig_pop
    after = canon(region)
    problems = list(rec.problems)
    if after != before and not flag:
        problems.append(("flag-false-but-changed", "rewrite_region returned False although the IR changed"))
    # fixpoint (memoised on the final IR: many schedules end in the same state)
    if recursive:
        key = (after, rev_patterns, dce)
        res = _FIX_CACHE.get(key)
        if res is None:
            res = ""
            ops = list(region.walk())
            for i, _op in enumerate(ops):
                for p in pats + [None]:
                    if p is None and not dce:
                        continue
                    m2 = module.clone()
                    op2 = list(m2.body.walk())[i]
                    rw = PatternRewriter(op2)
                    c0 = canon(m2)
                    if p is None:
                        GreedyRewritePatternApplier([], dce_enabled=True).match_and_rewrite(op2, rw)
                    else:
                        p.match_and_rewrite(op2, rw)
                    if rw.has_done_action or canon(m2) != c0:
                        res = f"after the walker returned, a pattern still changes op '{marker(_op) or _op.name}'"
                        break
                if res:
                    break
            if len(_FIX_CACHE) > 50000:
                _FIX_CACHE.clear()
            _FIX_CACHE[key] = res
        if res:
            problems.append(("not-a-fixpoint", res))
        if post_walk and any(marker(o) == "victim" and all(r.first_use is None for r in o.results) for o in region.walk()):
            problems.append(("not-a-fixpoint", "after the walker returned, the post-walk hook would still change the IR"))
    return problems, rec, (flag, after != before)


CONFIGS_ALL = [(wr, rf, rec, rp, dce) for wr in (False, True) for rf in (False, True) for rec in (True, False)
               for rp in (False, True) for dce in (True, False)]


def _shard(arg) -> Stats:
    max_ops, configs, bound, shard, nshards, seed, cap = arg[:7]
    only = arg[7] if len(arg) > 7 else None
    st = Stats()
    for si, desc in enumerate(seeds(max_ops)):
        if si % nshards != shard:
            continue
        if only is not None and not any(op[0] in only for op in desc):
            continue
        st.states += 1
        interesting = False
        for cfg in configs:
            outcomes = set()

            def run(ch, desc=desc, cfg=cfg):
                return run_once(desc, cfg, ch)

            def on_exec(ch, res, desc=desc, cfg=cfg):
                problems, rec, fl = res
                st.executions += 1
                st.transitions += len(ch.taken)
                outcomes.add(fl)
                for sig, what in problems:
                    st.violate(f"C11|{sig}", what, {"seed": desc, "config": dict(zip(("walk_reverse", "regions_first", "recursive", "reversed_patterns", "dce", "post_walk_func"), tuple(cfg) + (False,))),
                                                   "schedule": list(ch.taken)})
            n, capped = dfs_choices(run, on_exec, bound, max_executions=cap)
            if capped:
                st.cap(f"max_executions_per_seed_config={cap}")
            if n > 1:
                interesting = True
            for o in outcomes:
                st.outcomes[f"flag={o[0]} changed={o[1]}" if o else "raised"] += 1
        if interesting:
            st.nontrivial += 1
        if (si + seed) % 997 == 0:
            st.sample({"seed": desc})
    return st


def run(ctx):
    n = 64
    default_cfgs = [c for c in CONFIGS_ALL if c[3] is False]      # 16: all walker configs x dce, pattern order forward
    post_cfgs = [c + (True,) for c in CONFIGS_ALL if c[3] is False]
    # seeds in which a match erases ANOTHER op (possibly one that is still queued) are the schedule-sensitive ones:
    # they get one more deviation under the two default walker directions
    two_dirs = [(False, False, True, False, True), (True, False, True, False, True)]
    if ctx.quick:
        plans = [(2, CONFIGS_ALL, 1, 400, None), (2, two_dirs, 2, 5000, ERASERS), (2, post_cfgs, 0, 50, None),
                 (3, [(False, False, True, False, True)], 0, 50, None)]
    else:
        plans = [(2, CONFIGS_ALL, 2, 20000, None), (2, post_cfgs, 1, 500, None), (3, two_dirs, 0, 50, None), (3, two_dirs, 1, 200, ERASERS), (2, two_dirs, 3, 50000, ERASERS)]
    for max_ops, cfgs, bound, cap, only in plans:
        for _, st in pmap(_shard, [(max_ops, cfgs, bound, i, n, ctx.seed, cap, only) for i in range(n)]):
            ctx.merge(st)
    ctx.bounds = {"plans": [{"max_marker_ops": p[0], "configs": len(p[1]), "deviation_bound": p[2], "max_executions_per_seed_config": p[3],
                             "only_seeds_containing": sorted(p[4]) if p[4] else "all"} for p in plans],
                  "markers": list(MARKERS)}
    ctx.rule = ("every block of <= N marker ops (all operand wirings, nested bodies) x walker/applier configurations x every worklist pop "
                "order with at most k deviations from LIFO; states = seeds, transitions = pop choices, executions = complete runs of the real "
                "walker; non-trivial = seed with more than one schedule")
    ctx.assumptions = ["Worklist.pop is the only scheduling point of the driver", "patterns record their own rewriter calls as ground truth"]


def replay(rep) -> bool:
    def tup(x):
        return tuple(tup(y) for y in x) if isinstance(x, list) else x
    w = rep["witness"]
    cfgd = w["config"]
    cfg = (cfgd["walk_reverse"], cfgd["regions_first"], cfgd["recursive"], cfgd["reversed_patterns"], cfgd["dce"], cfgd.get("post_walk_func", False))
    problems, _, _ = run_once(tup(w["seed"]), cfg, Chooser(w["schedule"]))
    return not any(f"C11|{s}" == rep["signature"] for s, _ in problems)
