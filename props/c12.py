"""C12 — Worklist, union-find and scoped dictionary follow their abstract models.

Explicit-state BFS over the real objects: a state is (real structure, reference model);
a transition is one real API call; every return value / exception class is compared with
the model at every step; global observations (full partition, all lookups) are compared in
every reached state.  De-dup on (private concrete state, model state).
"""
from __future__ import annotations

import collections
import copy
import itertools
from typing import Any

from mc.stats import Stats
from mc.pool import pmap


def _exc(f, *a):
    try:
        return ("ok", f(*a))
    except Exception as e:  # noqa: BLE001
        return ("raise", type(e).__name__)


def _bfs(st: Stats, init, actions, apply_, key, observe, depth: int, tag: str, roots_hist=()):
    """init() -> state ; apply_(state, action) -> (impl_obs, model_obs) ; observe(state)->list of (what, impl, model)"""
    s0 = init()
    seen = {key(s0)}
    frontier = collections.deque([(s0, tuple(roots_hist))])
    st.states += 1
    outcomes = set()
    while frontier:
        s, hist = frontier.popleft()
        if len(hist) >= depth:
            continue
        for a in actions(s):
            s2 = copy.deepcopy(s)
            io, mo = apply_(s2, a)
            st.transitions += 1
            st.executions += 1
            h2 = hist + (a,)
            outcomes.add((a[0], repr(mo)))
            if io != mo:
                st.violate(f"C12|{tag}|{a[0]}|return", f"{tag}.{a[0]} returned {io!r}, model says {mo!r}",
                           {"structure": tag, "history": [list(x) for x in h2], "impl": repr(io), "model": repr(mo)})
            for what, iv, mv in observe(s2):
                st.evaluations += 1
                if iv != mv:
                    st.violate(f"C12|{tag}|{what}", f"{tag}: {what} impl={iv!r} model={mv!r} after history",
                               {"structure": tag, "history": [list(x) for x in h2], "impl": repr(iv), "model": repr(mv)})
            k = key(s2)
            if k not in seen:
                seen.add(k)
                st.states += 1
                if io != ("ok", None) or True:
                    pass
                st.max_depth = max(st.max_depth, len(h2))
                frontier.append((s2, h2))
                if len(seen) % 5000 == 1:
                    st.sample({"structure": tag, "history": [list(x) for x in h2]})
    for o in outcomes:
        st.outcomes[f"{tag}:{o[0]}:{o[1]}"] += 1
    return len(seen)


# ---------------------------------------------------------------- worklist
def run_worklist(arg) -> Stats:
    depth, nitems = arg
    from xdsl.utils.worklist import Worklist, _MISSING

    st = Stats()
    items = ("a", "b", "c", "d", "e", "f")[:nitems]

    def init():
        return [Worklist(), []]

    def actions(s):
        for x in items:
            yield ("push", x)
        yield ("pop",)
        for x in items:
            yield ("remove", x)
        yield ("bool",)

    def apply_(s, a):
        w, m = s
        if a[0] == "push":
            io = _exc(w.push, a[1])
            if a[1] not in m:
                m.append(a[1])
            return io, ("ok", None)
        if a[0] == "pop":
            io = _exc(w.pop)
            if m:
                return io, ("ok", m.pop())
            return io, ("raise", "IndexError")
        if a[0] == "remove":
            io = _exc(w.remove, a[1])
            if a[1] in m:
                m.remove(a[1])
            return io, ("ok", None)
        if a[0] == "bool":
            return _exc(bool, w), ("ok", bool(m))
        raise AssertionError(a)

    def key(s):
        w, m = s
        return (tuple(None if x is _MISSING else x for x in w._stack), tuple(sorted(w._map.items())), tuple(m))

    def observe(s):
        # full drain on a copy: the sequence of pops is the model reversed, then empty
        w, m = copy.deepcopy(s)
        out = []
        while True:
            r = _exc(w.pop)
            if r[0] != "ok" or len(out) > len(m) + 3:
                break
            out.append(r[1])
        return [("drain-order", out, list(reversed(m)))]

    n = _bfs(st, init, actions, apply_, key, observe, depth, "worklist")
    st.nontrivial += n - 1
    return st


# ---------------------------------------------------------------- union-find
def run_unionfind(arg) -> Stats:
    depth, nmax, generic = arg
    from xdsl.utils.disjoint_set import DisjointSet, IntDisjointSet

    st = Stats()
    names = "pqrstuv"
    tag = "disjointset" if generic else "intdisjointset"

    class M:  # reference: list of frozensets + expected representative constraints
        def __init__(self):
            self.n = 0
            self.cls: list[set[int]] = []

        def find_cls(self, i):
            for c in self.cls:
                if i in c:
                    return c
            raise KeyError(i)

    def init():
        d = DisjointSet(()) if generic else IntDisjointSet(size=0)
        return [d, M()]

    def val(i):
        return names[i] if generic else i

    def actions(s):
        d, m = s
        if m.n < nmax:
            yield ("add",)
        rng = range(m.n + 1)  # one out-of-range index to exercise KeyError
        for i in rng:
            yield ("find", i)
        for i, j in itertools.product(rng, rng):
            if i <= m.n and j <= m.n:
                yield ("union", i, j)
                yield ("union_left", i, j)
                if i <= j:
                    yield ("connected", i, j)
        yield ("roots",)

    def find(d, i):
        return d.find(val(i)) if generic else d[i]

    def apply_(s, a):
        d, m = s
        op = a[0]
        if op == "add":
            if generic:
                io = _exc(d.add, val(m.n))
                mo = ("ok", None)
            else:
                io = _exc(d.add)
                mo = ("ok", m.n)
            m.cls.append({m.n})
            m.n += 1
            return io, mo
        if op == "find":
            io = _exc(find, d, a[1])
            if a[1] >= m.n:
                return io, ("raise", "KeyError")
            # representative must be a member of the class: compare membership, not identity
            if io[0] == "ok":
                r = names.index(io[1]) if generic and io[1] in names else io[1]
                ok = r in m.find_cls(a[1])
                return ("ok", "member" if ok else f"non-member {io[1]!r}"), ("ok", "member")
            return io, ("ok", "member")
        if op in ("union", "union_left"):
            i, j = a[1], a[2]
            if i >= m.n or j >= m.n:
                io = _exc(getattr(d, op), val(i) if i < m.n else (names[i] if generic else i),
                          val(j) if j < m.n else (names[j] if generic else j))
                return io, ("raise", "KeyError")
            old_left = find(d, i) if op == "union_left" else None
            io = _exc(getattr(d, op), val(i), val(j))
            ci, cj = m.find_cls(i), m.find_cls(j)
            merged = ci is not cj
            if merged:
                ci |= cj
                m.cls.remove(cj)
            if op == "union_left" and merged and io == ("ok", True):
                # left-biased: old representative of lhs now represents the merged class
                for x in sorted(ci):
                    r = find(d, x)
                    if r != old_left:
                        return ("ok", f"rep {r!r} != left rep {old_left!r}"), ("ok", True)
            return io, ("ok", merged)
        if op == "connected":
            i, j = a[1], a[2]
            if i >= m.n or j >= m.n:
                io = _exc(d.connected, names[i] if generic else i, names[j] if generic else j)
                return io, ("raise", "KeyError")
            io = _exc(d.connected, val(i), val(j))
            return io, ("ok", m.find_cls(i) is m.find_cls(j))
        if op == "roots":
            io = _exc(lambda: sorted(d.roots()))
            # exactly one root per class, each a member of a distinct class
            if io[0] == "ok":
                rs = [names.index(r) if generic else r for r in io[1]]
                good = len(rs) == len(m.cls) and len({id(m.find_cls(r)) for r in rs}) == len(rs)
                return ("ok", good), ("ok", True)
            return io, ("ok", True)
        raise AssertionError(a)

    def key(s):
        d, m = s
        base = d._base if generic else d
        return (tuple(base._parent), tuple(base._count[i] for i, p in enumerate(base._parent) if p == i),
                tuple(sorted(tuple(sorted(c)) for c in m.cls)))

    def observe(s):
        d, m = copy.deepcopy(s)
        part = collections.defaultdict(set)
        for i in range(m.n):
            part[find(d, i)].add(i)
        impl = sorted(tuple(sorted(c)) for c in part.values())
        model = sorted(tuple(sorted(c)) for c in m.cls)
        reps_ok = all((names.index(r) if generic else r) in c for r, c in part.items())
        n_impl = len(d) if generic else d.value_count()
        return [("partition", impl, model), ("representative-in-class", reps_ok, True), ("size", n_impl, m.n)]

    n = _bfs(st, init, actions, apply_, key, observe, depth, tag)
    st.nontrivial += n - 1
    return st


# ---------------------------------------------------------------- scoped dict
def run_scoped(arg) -> Stats:
    depth, nscopes = arg
    from xdsl.utils.scoped_dict import ScopedDict

    st = Stats()
    keys = ("x", "y")
    vals = (1, 0, "", None)
    SENT = "<default>"

    def init():
        chain = [ScopedDict()]
        for _ in range(nscopes - 1):
            chain.append(ScopedDict(chain[-1]))
        return [chain, [dict() for _ in range(nscopes)]]  # index 0 = outermost

    def actions(s):
        for lvl in range(nscopes):
            for k in keys:
                for v in vals:
                    yield ("set", lvl, k, repr(v))

    def apply_(s, a):
        chain, m = s
        _, lvl, k, rv = a
        v = eval(rv)
        io = _exc(chain[lvl].__setitem__, k, v)
        m[lvl][k] = v
        return io, ("ok", None)

    def key(s):
        chain, m = s
        return (tuple(tuple(sorted((k, repr(v)) for k, v in c._local_scope.items())) for c in chain),
                tuple(tuple(sorted((k, repr(v)) for k, v in d.items())) for d in m))

    def ref_lookup(m, lvl, k):
        for i in range(lvl, -1, -1):
            if k in m[i]:
                return True, m[i][k]
        return False, None

    def observe(s):
        chain, m = s
        out = []
        for lvl in range(nscopes):
            d = chain[lvl]
            for k in keys + ("z",):
                found, v = ref_lookup(m, lvl, k)
                out.append((f"getitem", _exc(d.__getitem__, k), ("ok", v) if found else ("raise", "KeyError")))
                out.append((f"contains", _exc(d.__contains__, k), ("ok", found)))
                out.append((f"get", _exc(d.get, k), ("ok", v if found else None)))
                out.append((f"get-default", _exc(d.get, k, SENT), ("ok", v if found else SENT)))
            out.append(("local_scope", dict(d.local_scope), m[lvl]))
        # compare with repr so that 0 / False / "" are not conflated
        return [(w, repr(i), repr(mm)) for w, i, mm in out]

    n = _bfs(st, init, actions, apply_, key, observe, depth, "scopeddict")
    st.nontrivial += n - 1
    return st


def _task(t):
    kind, arg = t
    return {"worklist": run_worklist, "uf": run_unionfind, "scoped": run_scoped}[kind](arg)


def run(ctx):
    q = ctx.quick
    tasks = [
        ("worklist", (14, 4) if q else (18, 4)),
        ("worklist", (9, 5) if q else (12, 6)),
        ("uf", (9 if q else 12, 5 if q else 6, False)),
        ("uf", (8 if q else 10, 5, True)),
        ("scoped", (5 if q else 6, 3)),
        ("scoped", (7 if q else 9, 2)),
    ]
    ctx.bounds = {"tasks": [list(map(str, t)) for t in tasks]}
    for t, st in pmap(_task, tasks):
        ctx.merge(st)
    ctx.rule = ("BFS over all call histories up to the depth bound on the real Worklist / IntDisjointSet / DisjointSet / "
                "ScopedDict, each step compared with a list / set-of-sets / list-of-dicts model; states de-duplicated on "
                "(private concrete state, model state); non-trivial = distinct reached state other than the initial one")
    ctx.assumptions = ["reference models in props/c12.py are correct", "deepcopy of these structures is faithful"]


def replay(rep) -> bool:
    """Re-run the recorded history on fresh objects; True iff impl agrees with model."""
    w = rep["witness"]
    st = Stats()
    tag = w["structure"]
    hist = [tuple(x) for x in w["history"]]
    # replay by running a depth-limited BFS restricted to that history
    runner = {"worklist": lambda: run_worklist((len(hist), 4)),
              "intdisjointset": lambda: run_unionfind((len(hist), 5, False)),
              "disjointset": lambda: run_unionfind((len(hist), 5, True)),
              "scopeddict": lambda: run_scoped((len(hist), 3))}[tag]
    st = runner()
    return rep["signature"] not in st.violations
