"""C13 — dead-code elimination removes only unobservable code.

Bounded-exhaustive enumeration of small programs over an alphabet of REAL operations whose effect
class is fixed in a harness-side ground-truth table (never computed with xDSL's trait helpers):

  pure (test.pureop)                      removable when unused
  read (test.op_with_memread)             removable when unused
  alloc-own (harness op c13.alloc_own whose only effect is ALLOC of its own result;
             no op of /repo declares that)  removable when unused
  alloc-anon (memref.alloc: ALLOC effect that names no value)   either answer accepted
  write (test.op_with_memwrite)           never removable
  unknown (test.op, no MemoryEffect trait) never removable
  symbol (test.op_with_symbol, func.func declaration, shard.grid which is also Pure) never removable
  terminator (test.termop with 0..2 successors, scf.yield) never removable
  unregistered-terminator ("foo.br", a builtin UnregisteredOp with 0..2 successors ending a block) never
             removable (unknown effects) and its successors ARE control-flow edges
  rec (scf.if, RecursiveMemoryEffect)     removable iff every nested non-terminator op is removable
  pure op with a region (test.pureop holding pure/read/alloc ops) removable when unused
  rec-mb (RecursiveMemoryEffect op whose region holds 1..3 BLOCKS: the real omp.parallel, and the harness op c13.rec
             with 0 or 1 results) removable iff every op -- terminators included -- of every block REACHABLE from the
             entry block of its region is harmless: leaf ops by the rows above; terminators by the table HARMLESS_TERMS:
             cf.switch, omp.terminator, scf.yield and the harness terminator c13.pterm declare themselves Pure, whereas
             cf.br, cf.cond_br and test.termop declare no effects at all (unknown => the container is never removable)

Programs: a region with <= 3 blocks inside `builtin.module { test.op { ... } }` ("cfg" container, SSA
dominance enforced by the generator because xDSL's verifier does not check it; a use inside an
unreachable block may name any value of another block, as in MLIR) or the single graph block of
builtin.module itself ("graph" container: forward/self references, i.e. dead use cycles), or the graph
block of a builtin.module nested in the top-level module ("ngraph": a graph region BELOW the root).  All
successor assignments and all operand wirings (incl. dead cycles through block arguments,
uses from unreachable blocks, values captured by nested regions) are enumerated.

Family "mb" (multi-block bodies of RecursiveMemoryEffect containers): in the single block ^0(%a) of the cfg container
  [D]  <omp.parallel | c13.rec> ({ ^i0: leaf* term  ^i1: leaf* term  [^i2: leaf* term] })  [user of the result]  test.termop
every placement of <= max_leaf leaf ops (pure/read/alloc-own/alloc-anon/write/unknown) over the entry and the later blocks x
every terminator kind per block (Pure and unknown ones, 0..2 successors) x every successor assignment among the non-entry
blocks (so later blocks are reachable, unreachable, self-looping) x every dominance-correct operand wiring (nested operands
may capture %a and the D in front) x how the surroundings use the container (no result; result unused / operand of the outer
terminator / of an unused pure op / of an unknown op).  For a live container the reference also decides the nested ops (an op
of an unreachable nested block is dead) and after the dce pass exactly the reachable nested blocks must remain
[C13|dce-pass|left-unreachable-block|nested].  A container whose only non-removable ops sit in UNREACHABLE blocks of its
region is reference-dead: the dce pass must not leave it behind [..|left-dead-op|rec-mb-unreachable-effect|..]; the one-op-at-
a-time sweeps (which never delete blocks) may keep it.

Entry points: the `dce` pass, region_dce(region) with a listener, dce(module), the trivial-dead path of
GreedyRewritePatternApplier with no patterns (recursive and single forward sweep) and the
`canonicalize` pass (no pattern of the alphabet can fire: scf.if only folds arith.constant conditions; the omp.parallel
spaces of family "mb" skip canonicalize because the cf.* canonicalization patterns rewrite their terminators).

Oracle: reference liveness computed on the DESCRIPTION (pure data): least fixpoint of
  live(op) := context(op) and (non-removable(op) or some result has a live user)
with context = "in a block reachable from its region's entry" for ops of the region under test and
"parent op is live" for nested ops.  Terminator operands (successor operands) are ordinary uses:
region_dce never touches block arguments, so a value that only feeds a dead block-argument cycle
counts as live and nothing is asserted about it.

Assertions: (1) every op an entry point removes is reference-dead [C13|<entry>|removed-live-op|<class>];
(2) after the dce PASS no reference-dead op of a reachable block remains
[C13|dce-pass|left-dead-op|<class>|unused or ...|used-only-inside-removed-region: the op's (transitive) users sat in
the region of an op the pass removed] and exactly the reachable blocks remain [C13|dce-pass|left-unreachable-block];
for the recursive trivially-dead sweeps (greedy, dce()) no removable op without uses remains at their fixpoint
[C13|<entry>|left-trivially-dead|<class>]; (3) surviving effectful ops keep order and block
[C13|<entry>|effect-order-changed]; (4) the result verifies and mc.irinv is clean (checked whenever the entry point
removed or created something).  <class> is the ground-truth class ("rec-effectful" = scf.if holding a non-removable op,
"rec-mb-effectful" = multi-block container with a non-removable op in a reachable block).  Ops for which either answer is
accepted (memref.alloc, containers holding one) and that the pass keeps count as live for assertion (2): what they use stays.
"""
from __future__ import annotations

import itertools
from typing import Any, Iterator

from mc.pool import pmap
from mc.stats import Stats

# ------------------------------------------------------------------------------------------------
# ground truth: class -> removable when every result is unused (None: either answer is accepted)
REMOVABLE: dict[str, bool | None] = {
    "pure": True, "read": True, "alloc-own": True, "alloc-anon": None,
    "write": False, "unknown": False, "symbol": False, "terminator": False,
    # an op of an unloaded dialect that ends a block: unknown effects, and its successors ARE control-flow edges
    "unregistered-terminator": False,
    # "rec" is derived from the nested ops
}

# kind -> (class, n_operands, n_results, n_successors, inner)    inner: None | "if" | "pure-region"
KINDS: dict[str, tuple[str, int, int, int, str | None]] = {
    "D": ("pure", 0, 1, 0, None),         # test.pureop            () -> i1
    "P": ("pure", 1, 1, 0, None),         # test.pureop            (v) -> i1
    "R": ("read", 1, 1, 0, None),         # test.op_with_memread   (v) -> i1
    "A": ("alloc-own", 0, 1, 0, None),    # c13.alloc_own          () -> i1
    "M": ("alloc-anon", 0, 0, 0, None),   # memref.alloc           () -> memref<1xi1>, result never used
    "W": ("write", 1, 1, 0, None),        # test.op_with_memwrite  (v) -> i1
    "W0": ("write", 0, 0, 0, None),       # test.op_with_memwrite  () -> ()
    "U": ("unknown", 1, 0, 0, None),      # test.op                (v) -> ()
    "U0": ("unknown", 0, 1, 0, None),     # test.op                () -> i1
    "S": ("symbol", 0, 0, 0, None),       # test.op_with_symbol
    "F": ("symbol", 0, 0, 0, None),       # func.func private declaration
    "G": ("symbol", 0, 0, 0, None),       # shard.grid: SymbolOpInterface AND Pure -> only the symbol test protects it
    "IF0": ("rec", 1, 0, 0, "if"),        # scf.if %c { inner }           (no results)
    "IF1": ("rec", 1, 1, 0, "if"),        # scf.if %c -> i1 { inner; yield %x } else { yield %c }
    "PR": ("pure", 0, 1, 0, "pure-region"),  # test.pureop () -> i1 ({ inner; test.termop })
    "T0": ("terminator", 0, 0, 0, None),  # test.termop
    "T1": ("terminator", 1, 0, 0, None),  # test.termop (v)
    "B0": ("terminator", 0, 0, 1, None),  # test.termop [^b]
    "B1": ("terminator", 1, 0, 1, None),  # test.termop (v) [^b]
    "C": ("terminator", 1, 0, 2, None),   # test.termop (v) [^a, ^b]
    "XT0": ("unregistered-terminator", 0, 0, 0, None),  # "foo.br"() : () -> ()            (builtin UnregisteredOp)
    "XB0": ("unregistered-terminator", 0, 0, 1, None),  # "foo.br"() [^b]
    "XC": ("unregistered-terminator", 1, 0, 2, None),   # "foo.br"(v) [^a, ^b]
    # ---- RecursiveMemoryEffect containers whose region holds SEVERAL blocks ("mb" family, see mb_skeletons)
    "OP": ("rec", 0, 0, 0, "mb"),         # omp.parallel ({ multi-block body })              (real registered op)
    "RC0": ("rec", 0, 0, 0, "mb"),        # c13.rec ({ multi-block body }) : () -> ()        (harness op, RecursiveMemoryEffect only)
    "RC1": ("rec", 0, 1, 0, "mb"),        # c13.rec ({ multi-block body }) : () -> i1
    # terminators of the inner blocks; HARMLESS_TERMS below says which of them declare themselves Pure
    "OT": ("terminator", 0, 0, 0, None),  # omp.terminator                   Pure
    "SW1": ("terminator", 1, 0, 1, None),  # cf.switch %f, [default: ^a]      Pure
    "SW2": ("terminator", 1, 0, 2, None),  # cf.switch %f, [default: ^a, 1: ^b]  Pure
    "BR": ("terminator", 0, 0, 1, None),  # cf.br ^a                         no effect trait -> unknown
    "CBR": ("terminator", 1, 0, 2, None),  # cf.cond_br %c, ^a, ^b            no effect trait -> unknown
    "PT0": ("terminator", 0, 0, 0, None),  # c13.pterm                        harness terminator, Pure
    "PT1": ("terminator", 0, 0, 1, None),  # c13.pterm [^a]
    "PT2": ("terminator", 0, 0, 2, None),  # c13.pterm [^a, ^b]
}
# ground truth: terminators whose own effects are known and empty (Pure); every other terminator of the table (test.termop,
# cf.br, cf.cond_br, unregistered ops) has UNKNOWN effects and therefore keeps an enclosing RecursiveMemoryEffect op alive.
# ("yield" is the implicit scf.yield of the scf.if kinds.)
HARMLESS_TERMS = ("yield", "OT", "SW1", "SW2", "PT0", "PT1", "PT2")
MB_CONTAINERS = ("OP", "RC0", "RC1")
TERMS = ("T0", "T1", "B0", "B1", "C")
XTERMS = ("XT0", "XB0", "XC")
PURE_INNER = ("D", "P", "R", "A")      # what a test.pureop region may hold (the op declares itself Pure)

GRAPHS = ("graph", "ngraph")   # "ngraph": the graph block of a builtin.module NESTED in the top-level module

ENTRIES = ("dce-pass", "region_dce", "dce-fn", "greedy", "greedy-once", "canonicalize")


# ------------------------------------------------------------------------------------------------
# descriptions
#   program := (container, blocks)               container: "cfg" | "graph"
#   block   := (n_args, (op, ...))
#   op      := (kind, operands, successors, inner)
#   inner   := None | ((op, ...), yield_operands)   nested single block; its terminator is implicit
#            | ("mb", ((op, ..., terminator op), ...))   multi-block region of an OP/RC0/RC1 container: per block its ops,
#              the last one is the block's terminator and its successors are indices of blocks of the SAME region
# values are numbered in definition order: block args, then per op its results, then its nested values.

def _skel_ops(leaf: tuple[str, ...], inner_leaf: tuple[str, ...], budget: int, max_inner: int) -> Iterator[tuple[tuple, int]]:
    """sequences of leaf op skeletons (kind, inner kinds | None) costing <= budget ops"""
    yield (), 0
    if budget <= 0:
        return
    for k in leaf:
        inner = KINDS[k][4]
        if inner is None:
            firsts = [((k, None), 1)]
        else:
            alpha = tuple(x for x in inner_leaf if inner == "if" or x in PURE_INNER)
            firsts = []
            for n in range(0, min(max_inner, budget - 1) + 1):
                for combo in itertools.product(alpha, repeat=n):
                    firsts.append(((k, combo), 1 + n))
        for first, cost in firsts:
            for rest, used in _skel_ops(leaf, inner_leaf, budget - cost, max_inner):
                yield (first,) + rest, cost + used


def skeletons(sp: dict) -> Iterator[tuple]:
    """(container, ((n_args, leaf op skeletons, terminator kind | None), ...)); skeletons that already belong to the
    space summarised by sp["exclude"] = (leaf kinds, max_ops, max_inner) (same container/args/terminators) are skipped,
    so that the spaces of one run are disjoint"""
    excl = sp.get("exclude")
    need = sp.get("require_term")     # only skeletons with at least one of these terminator kinds
    for sk in _skeletons(sp):
        if need is not None and not any(t in need for (_na, _ops, t) in sk[1]):
            continue
        if excl is not None:
            leaf, max_ops, max_inner = excl
            n = 0
            inside = True
            for (_na, ops, t) in sk[1]:
                n += 1 if t is not None else 0
                for (k, inner) in ops:
                    n += 1 + len(inner or ())
                    if k not in leaf or len(inner or ()) > max_inner:
                        inside = False
            if inside and n <= max_ops:
                continue
        yield sk


def _skeletons(sp: dict) -> Iterator[tuple]:
    leaf, inner_leaf = tuple(sp["leaf"]), tuple(sp.get("inner_leaf", ()))
    max_inner = sp.get("max_inner", 0)
    if sp["container"] in GRAPHS:
        for ops, _used in _skel_ops(leaf, inner_leaf, sp["max_ops"], max_inner):
            if ops:
                yield (sp["container"], ((0, ops, None),))
        return

    def blocks(nb: int, budget: int, first: bool) -> Iterator[tuple]:
        if nb == 0:
            yield ()
            return
        arg_opts = sp["entry_args"] if first else sp["other_args"]
        for ops, used in _skel_ops(leaf, inner_leaf, budget - nb, max_inner):   # keep 1 op per block for terminators
            for t in sp["terms"]:
                for rest in blocks(nb - 1, budget - used - 1, False):
                    for na in arg_opts:
                        yield ((na, ops, t),) + rest

    for nb in range(1, sp["max_blocks"] + 1):
        for bl in blocks(nb, sp["max_ops"], True):
            yield ("cfg", bl)


def _reach(succs: list[tuple[int, ...]], removed: int | None = None) -> set[int]:
    if removed == 0:
        return set()
    seen, todo = {0}, [0]
    while todo:
        x = todo.pop()
        for s in succs[x]:
            if s != removed and s not in seen:
                seen.add(s)
                todo.append(s)
    return seen


def expand(skel: tuple, ordered_succ: bool = True) -> Iterator[tuple]:
    """all successor assignments and all operand wirings of one skeleton (ordered_succ=False: two-successor
    terminators only with successors (a, b), a <= b)"""
    container, blks = skel
    nb = len(blks)
    graph = container in GRAPHS
    # ---- number the values (depends on the skeleton only)
    nv = 0
    bargs: list[list[int]] = []
    top_res: list[list[list[int]]] = []      # per block, per top-level op: result value ids
    inner_res: list[list[list[list[int]]]] = []  # per block, per op, per inner op
    for (na, ops, _t) in blks:
        bargs.append(list(range(nv, nv + na)))
        nv += na
        tr, ir = [], []
        for (k, inner) in ops:
            n = KINDS[k][2]
            tr.append(list(range(nv, nv + n)))
            nv += n
            ii = []
            for ik in inner or ():
                n2 = KINDS[ik][2]
                ii.append(list(range(nv, nv + n2)))
                nv += n2
            ir.append(ii)
        top_res.append(tr)
        inner_res.append(ir)
    block_vals = [bargs[b] + [v for r in top_res[b] for v in r] for b in range(nb)]

    succ_slots = [[c for c in itertools.product(range(nb), repeat=KINDS[t][3]) if ordered_succ or list(c) == sorted(c)]
                  if t is not None else [()] for (_na, _ops, t) in blks]
    for succs in itertools.product(*succ_slots):
        if graph:
            reach = {0}
        else:
            reach = _reach(list(succs))
        # values visible from other blocks
        outer: list[list[int]] = []
        for b in range(nb):
            vis: list[int] = []
            for d in range(nb):
                if d == b:
                    continue
                if b not in reach or (d in reach and b not in _reach(list(succs), removed=d)):
                    vis.extend(block_vals[d])
            outer.append(vis)
        slots: list[list[int]] = []
        for b, (na, ops, t) in enumerate(blks):
            before = list(bargs[b])
            for oi, (k, inner) in enumerate(ops):
                here = (block_vals[b] if graph else before) + outer[b]
                for _ in range(KINDS[k][1]):
                    slots.append(here)
                if inner is not None:
                    # nested values: visible at the parent (own result excluded) + earlier nested results
                    base = [v for v in here if v not in top_res[b][oi]]
                    acc = list(base)
                    for ii, ik in enumerate(inner):
                        for _ in range(KINDS[ik][1]):
                            slots.append(list(acc))
                        acc.extend(inner_res[b][oi][ii])
                    if k == "IF1":
                        slots.append(list(acc))     # operand of the then-yield
                before.extend(top_res[b][oi])
            if t is not None:
                for _ in range(KINDS[t][1]):
                    slots.append(before + outer[b])
        if any(not s for s in slots):
            continue
        for choice in itertools.product(*slots):
            it = iter(choice)
            out = []
            for b, (na, ops, t) in enumerate(blks):
                oo = []
                for (k, inner) in ops:
                    operands = tuple(next(it) for _ in range(KINDS[k][1]))
                    if inner is None:
                        oo.append((k, operands, (), None))
                    else:
                        ins = tuple((ik, tuple(next(it) for _ in range(KINDS[ik][1])), (), None) for ik in inner)
                        y = (next(it),) if k == "IF1" else ()
                        oo.append((k, operands, (), (ins, y)))
                if t is not None:
                    oo.append((t, tuple(next(it) for _ in range(KINDS[t][1])), succs[b], None))
                out.append((na, tuple(oo)))
            yield (container, tuple(out))


# ------------------------------------------------------------------------------------------------
# reference analysis on the description
class Rec:
    __slots__ = ("kind", "cls", "parent", "block", "operands", "results", "children", "succs", "iblock", "nblocks")

    def __init__(self, kind, cls, parent, block, operands, results, succs=(), iblock=None):
        self.kind, self.cls, self.parent, self.block = kind, cls, parent, block
        self.operands, self.results, self.succs = operands, results, succs
        self.children: list[int] = []
        self.iblock = iblock      # nested op of a multi-block container: index of its block in the parent's region
        self.nblocks = 0          # multi-block container: number of blocks of its region


def analyse(desc: tuple) -> tuple[list[Rec], int]:
    """op records in BUILD ORDER (block order; op; its nested ops; its implicit terminator(s))"""
    _container, blks = desc
    recs: list[Rec] = []
    nv = 0
    for b, (na, ops) in enumerate(blks):
        nv += na
        for (k, operands, succs, inner) in ops:
            cls, _no, nr, _ns, _inn = KINDS[k]
            me = len(recs)
            recs.append(Rec(k, cls, None, b, tuple(operands), tuple(range(nv, nv + nr)), tuple(succs)))
            nv += nr
            if inner is not None and inner[0] == "mb":
                recs[me].nblocks = len(inner[1])
                for ib, iops in enumerate(inner[1]):
                    for (ik, ioperands, isuccs, _i) in iops:
                        icls, _a, inr, _b, _c = KINDS[ik]
                        recs[me].children.append(len(recs))
                        recs.append(Rec(ik, icls, me, None, tuple(ioperands), tuple(range(nv, nv + inr)), tuple(isuccs), ib))
                        nv += inr
            elif inner is not None:
                ins, y = inner
                for (ik, ioperands, _s, _i) in ins:
                    icls, _a, inr, _b, _c = KINDS[ik]
                    recs[me].children.append(len(recs))
                    recs.append(Rec(ik, icls, me, None, tuple(ioperands), tuple(range(nv, nv + inr))))
                    nv += inr
                # implicit terminator of the nested block
                recs[me].children.append(len(recs))
                recs.append(Rec("yield", "terminator", me, None, tuple(y), ()))
                if k == "IF1":   # else { scf.yield %cond }
                    recs[me].children.append(len(recs))
                    recs.append(Rec("yield", "terminator", me, None, tuple(operands), ()))
    return recs, nv


def inner_reach(recs: list[Rec], i: int) -> set[int]:
    """blocks of the region of multi-block container i that are reachable from its entry block (the last op of a block
    is its terminator)"""
    r = recs[i]
    succs: list[tuple[int, ...]] = [()] * r.nblocks
    for c in r.children:
        succs[recs[c].iblock] = recs[c].succs      # the last child of a block wins: its terminator
    return _reach(succs)


def static_removable(recs: list[Rec], i: int, lenient: set[int] | None = None) -> bool | None:
    """ground truth: may op i go away when none of its results is used?  A multi-block container is judged by the ops of the
    blocks REACHABLE from its entry (an op that can never execute has no observable effect); containers whose only
    non-removable ops sit in unreachable blocks are removable and additionally reported in `lenient`"""
    r = recs[i]
    if r.cls == "rec" and r.nblocks:
        reach = inner_reach(recs, i)
        verdicts: dict[bool, list[bool | None]] = {True: [], False: []}
        for c in r.children:
            if recs[c].cls == "terminator":
                v: bool | None = recs[c].kind in HARMLESS_TERMS
            else:
                v = static_removable(recs, c, lenient)
            verdicts[recs[c].iblock in reach].append(v)
        if any(v is False for v in verdicts[True]):
            return False
        if any(v is None for v in verdicts[True]):
            return None
        if lenient is not None and any(v is not True for v in verdicts[False]):
            lenient.add(i)
        return True
    if r.cls == "rec":
        return all(static_removable(recs, c) is True for c in r.children if recs[c].cls != "terminator")
    return REMOVABLE[r.cls]


def reference(desc: tuple, forced: frozenset[int] = frozenset()) -> dict[str, Any]:
    """forced: ops to treat as never removable (the "either answer accepted" ops an entry point decided to keep)"""
    container, blks = desc
    recs, nv = analyse(desc)
    if container in GRAPHS:
        reach = {0}
    else:
        succs = [tuple(blk[1][-1][2]) if blk[1] else () for blk in blks]
        reach = _reach(succs)
    users: dict[int, list[int]] = {v: [] for v in range(nv)}
    for i, r in enumerate(recs):
        for v in r.operands:
            users[v].append(i)
    lenient: set[int] = set()
    rem = [False if i in forced else static_removable(recs, i, lenient) for i in range(len(recs))]
    ireach = {i: inner_reach(recs, i) for i, r in enumerate(recs) if r.nblocks}
    live: set[int] = set()

    def ctx_ok(i: int) -> bool:
        """can op i execute at all: top level -> its block is reachable; nested -> its parent is live (and, inside a
        multi-block container, its block is reachable from the container's entry block)"""
        r = recs[i]
        if r.parent is None:
            return r.block in reach
        return r.parent in live and (r.iblock is None or r.iblock in ireach[r.parent])

    changed = True
    while changed:
        changed = False
        for i, r in enumerate(recs):
            if i in live:
                continue
            if not ctx_ok(i):
                continue
            if rem[i] is False or any(u in live for v in r.results for u in users[v]):
                live.add(i)
                changed = True
    optional = {i for i, r in enumerate(recs) if rem[i] is None and i not in live and ctx_ok(i)}
    return {"recs": recs, "reach": reach, "live": live, "optional": optional, "rem": rem, "users": users,
            "lenient": lenient, "ireach": ireach, "ctx_ok": ctx_ok}


# ------------------------------------------------------------------------------------------------
# real IR
_REAL: dict[str, Any] = {}


def _real() -> dict[str, Any]:
    if _REAL:
        return _REAL
    from xdsl.dialects.builtin import DenseArrayBase, DenseIntElementsAttr, MemRefType, UnregisteredOp, VectorType, i1, i32, i64
    from xdsl.irdl import IRDLOperation, irdl_op_definition, region_def, result_def, traits_def, var_result_def, var_successor_def
    from xdsl.traits import EffectInstance, IsTerminator, MemoryEffect, MemoryEffectKind, Pure, RecursiveMemoryEffect

    class AllocOwnResultEffect(MemoryEffect):
        """the only effect is the allocation of the op's own result"""

        @classmethod
        def get_effects(cls, op):
            return {EffectInstance(MemoryEffectKind.ALLOC, op.results[0])}

    @irdl_op_definition
    class AllocOwnOp(IRDLOperation):
        name = "c13.alloc_own"
        res = result_def()
        traits = traits_def(AllocOwnResultEffect())

    @irdl_op_definition
    class RecOp(IRDLOperation):
        """has exactly the effects of the ops nested in its (possibly multi-block) region"""
        name = "c13.rec"
        res = var_result_def()
        body = region_def()
        traits = traits_def(RecursiveMemoryEffect())

    @irdl_op_definition
    class PureTermOp(IRDLOperation):
        """a branch with 0..n successors that declares itself Pure (like cf.switch / omp.terminator)"""
        name = "c13.pterm"
        succ = var_successor_def()
        traits = traits_def(IsTerminator(), Pure())

    _REAL["AllocOwnOp"] = AllocOwnOp
    _REAL["RecOp"] = RecOp
    _REAL["PureTermOp"] = PureTermOp
    _REAL["omp.segments"] = DenseArrayBase.from_list(i32, [0] * 6)
    # cf.switch %flag : i1, [default: ^a (, 1: ^b)]   -- operand segments (flag, default operands, case operands)
    _REAL["sw.segments"] = DenseArrayBase.from_list(i32, [1, 0, 0])
    _REAL["sw.case_segments"] = {1: DenseArrayBase.from_list(i32, []), 2: DenseArrayBase.from_list(i32, [0])}
    _REAL["sw.case_values"] = DenseIntElementsAttr.from_list(VectorType(i1, [1]), [1])
    _REAL["cbr.segments"] = DenseArrayBase.from_list(i32, [1, 0, 0])
    _REAL["i1"] = i1
    _REAL["memref"] = MemRefType(i1, [1])
    _REAL["shape"] = DenseArrayBase.from_list(i64, [2])
    _REAL["foo.br"] = UnregisteredOp.with_name("foo.br")
    return _REAL


class Prog:
    def __init__(self) -> None:
        self.module = None
        self.region = None          # region under test
        self.ops: list[Any] = []    # build order == analyse() order
        self.blocks: list[Any] = []  # blocks of the region under test
        self.values: list[Any] = []
        self.opblock: list[Any] = []  # parent Block of every op at build time


def build(desc: tuple) -> Prog:
    from xdsl.dialects import cf, func, memref, omp, scf, shard
    from xdsl.dialects.builtin import ModuleOp, StringAttr
    from xdsl.dialects.test import TestOp, TestPureOp, TestReadOp, TestSymbolOp, TestTermOp, TestWriteOp
    from xdsl.ir import Block, Region

    R = _real()
    i1 = R["i1"]
    container, blks = desc
    p = Prog()
    pending: list[tuple[Any, tuple, tuple]] = []
    nsym = [0]

    def mk(k: str, inner) -> list[Any]:
        """create op of kind k (operands wired later); returns [op, nested ops..., implicit terminators...]"""
        cls, _no, nr, _ns, _inn = KINDS[k]
        rt = [i1] * nr
        # Operation.create is the plain constructor (no IRDL argument processing): same op, built faster
        if k in ("D", "P"):
            return [TestPureOp.create(result_types=rt)]
        if k == "R":
            return [TestReadOp.create(result_types=rt)]
        if k == "A":
            return [R["AllocOwnOp"].create(result_types=rt)]
        if k == "M":
            return [memref.AllocOp([], [], R["memref"])]
        if k in ("W", "W0"):
            return [TestWriteOp.create(result_types=rt)]
        if k in ("U", "U0"):
            return [TestOp.create(result_types=rt)]
        if k == "S":
            nsym[0] += 1
            return [TestSymbolOp(properties={"sym_name": StringAttr(f"s{nsym[0]}")})]
        if k == "F":
            nsym[0] += 1
            return [func.FuncOp.external(f"f{nsym[0]}", [], [])]
        if k == "G":
            nsym[0] += 1
            return [shard.GridOp.create(properties={"sym_name": StringAttr(f"g{nsym[0]}"), "shape": R["shape"]})]
        if k in TERMS:
            return [TestTermOp.create()]
        if k in XTERMS:
            return [R["foo.br"].create()]
        if k == "OT":
            return [omp.TerminatorOp.create()]
        if k in ("SW1", "SW2"):
            n = KINDS[k][3]
            props = {"operandSegmentSizes": R["sw.segments"], "case_operand_segments": R["sw.case_segments"][n]}
            if n == 2:
                props["case_values"] = R["sw.case_values"]
            return [cf.SwitchOp.create(properties=props)]
        if k == "BR":
            return [cf.BranchOp.create()]
        if k == "CBR":
            return [cf.ConditionalBranchOp.create(properties={"operandSegmentSizes": R["cbr.segments"]})]
        if k in ("PT0", "PT1", "PT2"):
            return [R["PureTermOp"].create()]
        raise KeyError(k)

    blocks = [Block(arg_types=[i1] * na) for (na, _ops) in blks]
    p.blocks = blocks
    for b, (na, ops) in zip(blocks, blks):
        p.values.extend(b.args)
        for (k, operands, succs, inner) in ops:
            if inner is None:
                op = mk(k, None)[0]
                p.ops.append(op)
                p.values.extend(op.results[:KINDS[k][2]])
                b.add_op(op)
                pending.append((op, tuple(operands), tuple(succs)))
                continue
            if inner[0] == "mb":
                iblocks = [Block() for _ in inner[1]]
                if k == "OP":
                    op = omp.ParallelOp.create(properties={"operandSegmentSizes": R["omp.segments"]}, regions=[Region(iblocks)])
                else:
                    op = R["RecOp"].create(result_types=[i1] * KINDS[k][2], regions=[Region(iblocks)])
                p.ops.append(op)
                p.values.extend(op.results)
                b.add_op(op)
                for iblk, iops in zip(iblocks, inner[1]):
                    for (ik, ioperands, isuccs, _i) in iops:
                        iop = mk(ik, None)[0]
                        iblk.add_op(iop)
                        p.ops.append(iop)
                        p.values.extend(iop.results[:KINDS[ik][2]])
                        # successors of nested terminators name blocks of the container's own region
                        pending.append((iop, tuple(ioperands), tuple(iblocks[x] for x in isuccs)))
                continue
            ins, y = inner
            ib = Block()
            made = []
            for (ik, ioperands, _s, _i) in ins:
                iop = mk(ik, None)[0]
                ib.add_op(iop)
                made.append((iop, tuple(ioperands)))
            if k == "PR":
                term = TestTermOp.create()
                ib.add_op(term)
                op = TestPureOp.create(result_types=[i1], regions=[Region(ib)])
                extra = [(term, ())]
            else:
                # the condition (and every other operand) is wired in the second pass
                term = scf.YieldOp.create()
                ib.add_op(term)
                extra = [(term, tuple(y))]
                if k == "IF1":
                    eterm = scf.YieldOp.create()
                    op = scf.IfOp.create(result_types=[i1], regions=[Region(ib), Region(Block([eterm]))])
                    extra.append((eterm, tuple(operands)))
                else:
                    op = scf.IfOp.create(regions=[Region(ib), Region()])
            p.ops.append(op)
            p.values.extend(op.results)
            b.add_op(op)
            pending.append((op, tuple(operands), ()))
            for iop, ioperands in made:
                p.ops.append(iop)
                p.values.extend(iop.results)
                pending.append((iop, ioperands, ()))
            for t, toperands in extra:
                p.ops.append(t)
                pending.append((t, toperands, ()))
    for op, operands, succs in pending:
        if operands:
            op.operands = [p.values[v] for v in operands]
        if succs:
            op.successors = [blocks[s] if isinstance(s, int) else s for s in succs]
    if container == "graph":
        p.module = ModuleOp(Region(blocks))
        p.region = p.module.body
    elif container == "ngraph":
        inner_module = ModuleOp(Region(blocks))
        p.region = inner_module.body
        p.module = ModuleOp([inner_module])
    else:
        p.region = Region(blocks)
        p.module = ModuleOp([TestOp(regions=[p.region])])
    p.opblock = [o.parent for o in p.ops]
    return p


def run_entry(entry: str, p: Prog) -> None:
    from xdsl.context import Context
    from xdsl.pattern_rewriter import GreedyRewritePatternApplier, PatternRewriterListener, PatternRewriteWalker
    from xdsl.transforms import dead_code_elimination as D

    if entry == "dce-pass":
        D.DeadCodeElimination().apply(Context(), p.module)
    elif entry == "region_dce":
        D.region_dce(p.region, PatternRewriterListener())
    elif entry == "dce-fn":
        D.dce(p.module)
    elif entry == "greedy":
        PatternRewriteWalker(GreedyRewritePatternApplier([]), apply_recursively=True).rewrite_module(p.module)
    elif entry == "greedy-once":
        PatternRewriteWalker(GreedyRewritePatternApplier([]), apply_recursively=False).rewrite_module(p.module)
    elif entry == "canonicalize":
        from xdsl.transforms.canonicalize import CanonicalizePass

        CanonicalizePass().apply(Context(), p.module)
    else:
        raise KeyError(entry)


# ------------------------------------------------------------------------------------------------
def show(desc: tuple) -> str:
    """generic text of the program (for witnesses)"""
    try:
        return str(build(desc).module)
    except Exception as e:  # noqa: BLE001
        return f"<unprintable: {type(e).__name__}>"


def check_program(st: Stats, desc: tuple, entries: tuple[str, ...] = ENTRIES) -> None:
    from mc.irinv import irinv

    ref = reference(desc)
    recs, live, optional, rem, users = ref["recs"], ref["live"], ref["optional"], ref["rem"], ref["users"]
    reach, lenient, ireach, ctx_ok = ref["reach"], ref["lenient"], ref["ireach"], ref["ctx_ok"]
    n = len(recs)
    dead = set(range(n)) - live
    nontrivial = bool(dead - optional)
    effectful = [i for i in range(n) if recs[i].cls not in ("pure", "rec", "terminator")]

    def viol(sig: str, what: str, **kw) -> None:
        if sig in st.violations:
            st.violations[sig]["count"] += 1
            return
        w = {"desc": desc, "ops": [f"{i}:{r.kind}" for i, r in enumerate(recs)], "reference_live": sorted(live)}
        w.update(kw)
        w["ir"] = show(desc)
        st.violate(sig, what, w)

    def cls_of(i: int) -> str:
        if recs[i].cls == "rec" and recs[i].nblocks:      # multi-block container
            return "rec-mb-effectful" if rem[i] is False else "rec-mb-unreachable-effect" if i in lenient else "rec-mb"
        return "rec-effectful" if recs[i].cls == "rec" and rem[i] is False else recs[i].cls

    def captured(i: int, seen: set[int], live: set[int]) -> bool:
        """is (reference-dead) op i kept alive only through a use nested in a region op that is itself dead?"""
        seen.add(i)
        for v in recs[i].results:
            for u in users[v]:
                if u in live or u in seen:
                    continue
                if recs[u].parent is not None and recs[u].parent not in live:
                    return True
                if captured(u, seen, live):
                    return True
        return False

    for ei, entry in enumerate(entries):
        p = build(desc)
        if ei == 0:
            try:
                p.module.verify()
                bad_in = irinv([p.module])
            except Exception as e:  # noqa: BLE001
                st.outcomes["invalid-input:" + type(e).__name__] += 1
                return
            if bad_in:
                st.outcomes["invalid-input:irinv"] += 1
                return
            st.states += 1
            st.nontrivial += nontrivial
        index = {id(o): i for i, o in enumerate(p.ops)}
        st.executions += 1
        st.transitions += 1
        try:
            run_entry(entry, p)
        except Exception as e:  # noqa: BLE001
            viol(f"C13|{entry}|raises|{type(e).__name__}", f"{entry} raised {type(e).__name__}: {str(e)[:200]}", entry=entry)
            continue
        order = []
        foreign = 0
        for o in p.module.walk():
            i = index.get(id(o))
            if i is None:
                if o is not p.module and o is not p.region.parent:
                    foreign += 1
                continue
            order.append(i)
        surv = set(order)
        removed = set(range(n)) - surv
        nblocks = len(p.region.blocks) if p.region.parent is not None else -1
        if foreign:
            st.bump("foreign_ops_after_" + entry, foreign)
        # (1) soundness: removed => reference-dead
        st.evaluations += 1
        bad = sorted(removed & live)
        if bad:
            i = ([x for x in bad if rem[x] is False] or bad)[0]   # blame an op that is live by itself if there is one
            viol(f"C13|{entry}|removed-live-op|{cls_of(i)}",
                 f"{entry} removed op #{i} ({recs[i].kind}, class {recs[i].cls}) which the reference liveness keeps "
                 f"({'never removable' if rem[i] is False else 'it has a live user'})",
                 entry=entry, removed=sorted(removed))
        # (2) completeness (dce pass only)
        if entry == "dce-pass":
            st.evaluations += 2
            # an "either answer accepted" op the pass kept is live from here on: what it (or an op nested in it) uses stays
            kept_optional = frozenset(surv & optional)
            ref2 = reference(desc, kept_optional) if kept_optional else ref
            live2, ctx_ok2 = ref2["live"], ref2["ctx_ok"]
            # ops nested in a leftover dead op are a consequence of their parent being left: blame the outermost ones
            # (ops of an unreachable block of a live multi-block container are left to the block comparison below)
            left = [i for i in sorted(surv - live2 - ref2["optional"]) if ctx_ok2(i)]
            if left:
                plain = [i for i in left if not captured(i, set(), live2)]
                i = (plain or left)[0]
                how = "unused" if plain else "used-only-inside-removed-region"
                viol(f"C13|dce-pass|left-dead-op|{cls_of(i)}|{how}",
                     f"after the dce pass op #{i} ({recs[i].kind}) remains although it is removable and "
                     + ("(transitively) unused" if plain else "its only users sat in the region of an op the pass removed"),
                     entry=entry, left=left)
            expect = [b for bi, b in enumerate(p.blocks) if bi in reach]
            remaining = list(p.region.blocks) if nblocks >= 0 else []
            if nblocks >= 0 and (len(remaining) != len(expect) or any(x is not y for x, y in zip(remaining, expect))):
                kind = "left-unreachable-block" if len(remaining) > len(expect) else "removed-reachable-block"
                viol(f"C13|dce-pass|{kind}",
                     f"after the dce pass the region has {len(remaining)} blocks, {len(expect)} are reachable from the entry",
                     entry=entry, reachable=sorted(reach))
            # the same for the region of every multi-block container that stays
            for i in sorted(ireach):
                if i not in live2 or i not in surv:
                    continue
                st.evaluations += 1
                blk_of: dict[int, Any] = {}
                for c in recs[i].children:
                    blk_of[recs[c].iblock] = p.opblock[c]
                expect_in = [blk_of[bi] for bi in sorted(blk_of) if bi in ireach[i]]
                remaining_in = list(p.ops[i].regions[0].blocks)
                if len(remaining_in) != len(expect_in) or any(x is not y for x, y in zip(remaining_in, expect_in)):
                    kind = "left-unreachable-block" if len(remaining_in) > len(expect_in) else "removed-reachable-block"
                    viol(f"C13|dce-pass|{kind}|nested",
                         f"after the dce pass the region of op #{i} ({recs[i].kind}) has {len(remaining_in)} blocks, "
                         f"{len(expect_in)} are reachable from its entry", entry=entry, reachable=sorted(ireach[i]))
                st.outcomes[f"pass:nested-unreachable-blocks={recs[i].nblocks - len(ireach[i])}"] += 1
            for i in sorted(surv & optional):
                st.outcomes[f"optional-kept:{recs[i].cls}"] += 1
            for i in sorted(removed):
                st.outcomes[f"pass-removed:{recs[i].cls}"] += 1
            for i in sorted(surv):
                st.outcomes[f"pass-kept:{recs[i].cls}"] += 1
            st.outcomes[f"pass:unreachable-blocks={len(p.blocks) - len(reach)}"] += 1
        # fixpoint of the trivially-dead sweeps (apply_recursively=True)
        if entry in ("greedy", "dce-fn"):
            st.evaluations += 1
            for i in order:
                # (a sweep looks at one op at a time and never deletes blocks: a container whose effectful ops all sit in
                # unreachable blocks of its region may stay)
                if rem[i] is True and i not in lenient and not any(u in surv for v in recs[i].results for u in users[v]):
                    viol(f"C13|{entry}|left-trivially-dead|{cls_of(i)}",
                         f"{entry} (apply_recursively) stopped although op #{i} ({recs[i].kind}) is removable and has no use",
                         entry=entry, survivors=sorted(surv))
                    break
        # (3) effectful ops keep their relative order (and their block)
        st.evaluations += 1
        want = [i for i in effectful if i in surv]
        got = [i for i in order if recs[i].cls not in ("pure", "rec", "terminator")]
        if want != got or any(p.ops[i].parent is not p.opblock[i] for i in got):
            viol(f"C13|{entry}|effect-order-changed", f"{entry} changed the order or the block of surviving effectful ops",
                 entry=entry, before=want, after=got)
        # (4) well-formed result (an entry point that removed/created nothing and kept every block left the verified input as it was)
        if removed or foreign or (nblocks >= 0 and nblocks != len(p.blocks)):
            st.evaluations += 1
            try:
                p.module.verify()
            except Exception as e:  # noqa: BLE001
                viol(f"C13|{entry}|result-does-not-verify", f"result of {entry} fails verification: {str(e)[:200]}", entry=entry)
            errs = irinv([p.module])
            if errs:
                viol(f"C13|{entry}|irinv|{errs[0][0]}", f"structural invariant broken after {entry}: {errs[0][1]}", entry=entry)
        st.outcomes[f"{entry}:removed={'0' if not removed else '1+'}"] += 1


# ------------------------------------------------------------------------------------------------
# "mb" family: a RecursiveMemoryEffect container with a MULTI-BLOCK region inside the single block of the cfg container
#
#   ^0(%a : i1):  [D]  <container> ({ ^i0: leaf* term   ^i1: leaf* term   [^i2: leaf* term] })  [user]  test.termop [%r]
#
# shape (how the container's surroundings use it):
#   "plain"    container only                                     (any container kind)
#   "capture"  a pure D in front whose result nested operands may name (any container kind)
#   "unused" | "term-use" | "pure-use" | "unknown-use"            (RC1 only) the result is unused / an operand of the outer
#              terminator / the operand of an unused pure op (dead chain) / the operand of an unknown op
MB_SHAPES0 = ("plain", "capture")
MB_SHAPES1 = ("unused", "term-use", "pure-use", "unknown-use")


def _mb_term_options(terms: tuple[str, ...], nb: int) -> list[tuple[str, tuple[int, ...]]]:
    """(terminator kind, successors): successors are LATER blocks of the body or the block itself, never the entry block
    (an entry block has no predecessors); two successors: every unordered pair of distinct non-entry blocks, and (1, 1)
    when the body has two blocks"""
    later = range(1, nb)
    out: list[tuple[str, tuple[int, ...]]] = []
    for t in terms:
        ns = KINDS[t][3]
        if ns == 0:
            out.append((t, ()))
        elif ns == 1:
            out.extend((t, (a,)) for a in later)
        elif nb == 2:
            out.append((t, (1, 1)))
        else:
            out.extend((t, (a, b)) for a in later for b in later if a < b)
    return out


def _mb_leaf_placements(sp: dict, nb: int) -> Iterator[tuple[tuple[str, ...], ...]]:
    """per block the sequence of leaf kinds: <= max_leaf ops in total; bodies with >= 2 leaf ops draw from leaf2"""
    def place(kinds: tuple[str, ...]) -> Iterator[tuple[tuple[str, ...], ...]]:
        # non-decreasing block assignment keeps the order of the sequence inside each block
        for where in itertools.combinations_with_replacement(range(nb), len(kinds)):
            yield tuple(tuple(k for k, w in zip(kinds, where) if w == b) for b in range(nb))

    for n in range(0, sp["max_leaf"] + 1):
        alpha = sp["leaf"] if n <= 1 else sp.get("leaf2", sp["leaf"])
        for kinds in itertools.product(alpha, repeat=n):
            yield from place(kinds)


def mb_skeletons(sp: dict, shard: int = 0, nshards: int = 1) -> Iterator[tuple]:
    """(shape, container kind, ((leaf kinds, (terminator kind, successors)), ...)); the work is split over shards by
    (container, number of blocks, terminators + successors)"""
    unit = -1
    for cont in sp["containers"]:
        shapes = [x for x in sp["shapes"] if x in (MB_SHAPES1 if KINDS[cont][2] else MB_SHAPES0)]
        for nb in range(sp.get("min_blocks", 1), sp["max_blocks"] + 1):
            topts = _mb_term_options(tuple(sp["terms"][cont[:2]]), nb)
            for terms in itertools.product(topts, repeat=nb):
                unit += 1
                if unit % nshards != shard:
                    continue
                for leaves in _mb_leaf_placements(sp, nb):
                    for shape in shapes:
                        yield (shape, cont, tuple(zip(leaves, terms)))


def mb_expand(skel: tuple) -> Iterator[tuple]:
    """all operand wirings of one mb skeleton.  A nested operand may name %a, the captured D, an earlier result of its own
    block, and every result of a body block that strictly dominates its block (unreachable block: of any other block)"""
    shape, cont, body = skel
    nb = len(body)
    nv = 1                                   # %a
    outer_vis = [0]
    if shape == "capture":
        outer_vis.append(nv)
        nv += 1
    cres = list(range(nv, nv + KINDS[cont][2]))
    nv += len(cres)
    res: list[list[list[int]]] = []          # per body block, per op (leaf ops then the terminator)
    for (leaves, (t, _s)) in body:
        rr = []
        for k in leaves + (t,):
            rr.append(list(range(nv, nv + KINDS[k][2])))
            nv += KINDS[k][2]
        res.append(rr)
    succs = [tuple(s) for (_l, (_t, s)) in body]
    reach = _reach(succs)
    slots: list[list[int]] = []
    for b, (leaves, (t, _s)) in enumerate(body):
        vis = list(outer_vis)
        for d in range(nb):
            if d != b and (b not in reach or (d in reach and b not in _reach(succs, removed=d))):
                vis.extend(v for r in res[d] for v in r)
        for oi, k in enumerate(leaves + (t,)):
            for _ in range(KINDS[k][1]):
                slots.append(list(vis))
            vis.extend(res[b][oi])
    for choice in itertools.product(*slots):
        it = iter(choice)
        blocks = []
        for (leaves, (t, s)) in body:
            ops = [(k, tuple(next(it) for _ in range(KINDS[k][1])), (), None) for k in leaves]
            ops.append((t, tuple(next(it) for _ in range(KINDS[t][1])), tuple(s), None))
            blocks.append(tuple(ops))
        outer: list[tuple] = []
        if shape == "capture":
            outer.append(("D", (), (), None))
        outer.append((cont, (), (), ("mb", tuple(blocks))))
        if shape == "pure-use":
            outer.append(("P", (cres[0],), (), None))
        elif shape == "unknown-use":
            outer.append(("U", (cres[0],), (), None))
        outer.append(("T1", (cres[0],), (), None) if shape == "term-use" else ("T0", (), (), None))
        yield ("cfg", ((1, tuple(outer)),))


# ------------------------------------------------------------------------------------------------
def spaces(quick: bool) -> list[dict]:
    full = ("D", "P", "R", "A", "M", "W", "W0", "U", "U0", "S", "F", "G", "IF0", "IF1", "PR")
    eff = ("D", "P", "R", "A", "W", "U", "U0", "G", "IF0", "IF1", "PR")
    eff9 = ("D", "P", "R", "A", "W", "U", "IF0", "IF1", "PR")
    inner = ("D", "P", "R", "A", "W", "U")
    cfg = ("D", "P", "W", "U")
    out = [
        # every kind of the table, alone and in pairs
        dict(name="kinds-cfg", container="cfg", leaf=full, inner_leaf=inner, max_inner=1, max_blocks=1, max_ops=3,
             entry_args=(1,), other_args=(0,), terms=("T0", "T1"), exclude=(eff, 4, 2)),
        dict(name="kinds-graph", container="graph", leaf=full, inner_leaf=inner, max_inner=1, max_ops=2, exclude=(eff, 3, 2)),
        # effect classes x use chains x nested regions, one block
        dict(name="effects-cfg", container="cfg", leaf=eff, inner_leaf=inner, max_inner=2, max_blocks=1, max_ops=4,
             entry_args=(1,), other_args=(0,), terms=("T0", "T1")),
        dict(name="effects-graph", container="graph", leaf=eff, inner_leaf=inner, max_inner=2, max_ops=3),
        # CFG shapes: unreachable blocks, uses from unreachable blocks, cycles through block arguments
        # (greedy-once, the first sweep of greedy, is left to the one-block spaces)
        dict(name="cfg", container="cfg", leaf=cfg, inner_leaf=(), max_inner=0, max_blocks=3, max_ops=4,
             entry_args=(0,), other_args=(0, 1), terms=TERMS,
             entries=("dce-pass", "region_dce", "dce-fn", "greedy", "canonicalize")),
        # the same effect/use-chain programs inside a NESTED builtin.module (graph region below the root: forward
        # references and use cycles that need several liveness sweeps of a nested region)
        dict(name="effects-ngraph", container="ngraph", leaf=eff, inner_leaf=inner, max_inner=2, max_ops=3),
        # control flow through UNREGISTERED terminators ("foo.br" with 0..2 successors), mixed with registered ones
        dict(name="cfg-unreg", container="cfg", leaf=cfg, inner_leaf=(), max_inner=0, max_blocks=3, max_ops=4,
             entry_args=(0,), other_args=(0, 1), terms=("T0", "XT0", "B0", "XB0", "XC"), ordered_succ=False,
             require_term=XTERMS, entries=("dce-pass", "dce-fn", "greedy", "canonicalize")),
    ]
    # ---- RecursiveMemoryEffect containers with MULTI-BLOCK regions (family "mb"): omp.parallel with cf.* / omp.terminator /
    # test.termop terminators and the harness op c13.rec with c13.pterm (Pure) / test.termop terminators; effect classes in the
    # entry block vs later blocks, pure vs unknown terminators, reachable vs unreachable later blocks, result used / unused.
    # canonicalize is left out for omp.parallel: the cf.* canonicalization patterns rewrite its terminators.
    omp_entries = ("dce-pass", "dce-fn", "greedy")
    rec_entries = ("dce-pass", "dce-fn", "greedy", "canonicalize")
    if quick:
        mbt = {"OP": ("OT", "SW1", "SW2", "BR", "T0"), "RC": ("PT0", "PT1", "PT2", "T0", "B0")}
        leaf1 = ("D", "R", "A", "M", "W0", "U0")
        leaf2 = ("D", "P", "W0", "U0")
        rc = dict(family="mb", containers=("RC0", "RC1"), shapes=("capture",) + MB_SHAPES1, terms=mbt, leaf=leaf1, leaf2=leaf2,
                  entries=rec_entries, shards=48)
        om = dict(family="mb", containers=("OP",), shapes=MB_SHAPES0, terms=mbt, leaf=leaf1, leaf2=leaf2, entries=omp_entries, shards=48)
        out += [
            dict(om, name="mb-omp-2", min_blocks=1, max_blocks=2, max_leaf=2),
            dict(om, name="mb-omp-3", min_blocks=3, max_blocks=3, max_leaf=1, shapes=("plain",)),
            dict(rc, name="mb-rec-2", min_blocks=1, max_blocks=2, max_leaf=2),
            dict(rc, name="mb-rec-3", min_blocks=3, max_blocks=3, max_leaf=1),
        ]
    else:
        mbt = {"OP": ("OT", "SW1", "SW2", "BR", "CBR", "T0"), "RC": ("PT0", "PT1", "PT2", "T0", "B0", "C")}
        leaf1 = ("D", "P", "R", "A", "M", "W", "W0", "U", "U0")
        leaf2 = ("D", "P", "W0", "U0")
        leaf2r = ("D", "P", "R", "A", "W0", "U0")
        rc = dict(family="mb", containers=("RC0", "RC1"), shapes=MB_SHAPES0 + MB_SHAPES1, terms=mbt, leaf=leaf1, leaf2=leaf2r,
                  entries=rec_entries)
        om = dict(family="mb", containers=("OP",), shapes=MB_SHAPES0, terms=mbt, leaf=leaf1, leaf2=leaf2, entries=omp_entries)
        out += [
            dict(om, name="mb-omp-2", min_blocks=1, max_blocks=2, max_leaf=2, leaf2=leaf1),
            dict(om, name="mb-omp-3", min_blocks=3, max_blocks=3, max_leaf=2, leaf2=("D", "W0", "U0"), shapes=("plain",)),
            dict(om, name="mb-omp-3-capture", min_blocks=3, max_blocks=3, max_leaf=1, shapes=("capture",)),
            dict(rc, name="mb-rec-2", min_blocks=1, max_blocks=2, max_leaf=2),
            dict(rc, name="mb-rec-3", min_blocks=3, max_blocks=3, max_leaf=1),
        ]
    if not quick:
        # the larger spaces skip the two entry points that add least: greedy-once is the first sweep of greedy, region_dce is
        # what the pass calls (both still run on every program of the spaces above)
        big = ("dce-pass", "dce-fn", "greedy", "canonicalize")
        out += [
            dict(name="effects-cfg-5", container="cfg", leaf=eff9, inner_leaf=inner, max_inner=2, max_blocks=1, max_ops=5,
                 entry_args=(1,), other_args=(0,), terms=("T0", "T1"), exclude=(eff, 4, 2), entries=big),
            dict(name="effects-graph-4", container="graph", leaf=eff9, inner_leaf=inner, max_inner=2, max_ops=4, exclude=(eff, 3, 2),
                 entries=big),
            dict(name="cfg-5", container="cfg", leaf=("D", "P", "W"), inner_leaf=(), max_inner=0, max_blocks=3, max_ops=5,
                 entry_args=(0,), other_args=(0, 1), terms=TERMS, ordered_succ=False, exclude=(cfg, 4, 0), entries=big),
        ]
    return out


def _shard(arg) -> Stats:
    sp, shard, nshards, seed = arg
    st = Stats()
    count = 0
    mb = sp.get("family") == "mb"
    for si, skel in enumerate(mb_skeletons(sp, shard, nshards) if mb else skeletons(sp)):
        if not mb and si % nshards != shard:
            continue
        st.bump("skeletons")
        for desc in (mb_expand(skel) if mb else expand(skel, sp.get("ordered_succ", True))):
            check_program(st, desc, tuple(sp.get("entries", ENTRIES)))
            count += 1
            if (count + seed) % (499 if mb else 2003) == 0:
                st.sample({"space": sp["name"], "desc": desc})
    st.bump("programs:" + sp["name"], count)
    return st


def run(ctx):
    sps = spaces(ctx.quick)
    n = 192
    tasks = [(sp, i, sp.get("shards", n), ctx.seed) for sp in sps for i in range(sp.get("shards", n))]
    for _, st in pmap(_shard, tasks):
        ctx.merge(st)
    ctx.bounds = {"spaces": [{k: (list(v) if isinstance(v, tuple) else v) for k, v in sp.items()} for sp in sps],
                  "entries": list(ENTRIES)}
    ctx.rule = ("every program of each listed space: skeleton (block-argument counts, op kinds, nested bodies) x all successor "
                "assignments x all operand wirings the generator's SSA-dominance rule admits (graph container: every value of the "
                "block); each program is rebuilt and run through every entry point; states = programs, transitions = entry-point "
                "runs; family 'mb' spaces: (use shape, container kind, per nested block its leaf kinds + terminator kind + successors) "
                "x all dominance-correct operand wirings, see mb_skeletons/mb_expand (successors of nested terminators: non-entry "
                "blocks only; two successors: unordered pairs of distinct blocks, (1,1) in two-block bodies; bodies with >= 2 leaf "
                "ops draw them from leaf2); non-trivial = the reference liveness finds at least one removable dead op.  'Program results are unchanged' "
                "is implied by (1) removed subset-of reference-dead + (3) surviving effectful ops keep order/block, because in this "
                "alphabet an op influences the result only through its effects or through a use chain ending in an effectful op/terminator")
    ctx.assumptions = [
        "ground-truth effect table in props/c13.py (pure/read/alloc-of-own-result removable when unused; write/unknown/symbol/terminator never; "
        "scf.if removable iff all nested non-terminators are; memref.alloc: either answer accepted)",
        "multi-block RecursiveMemoryEffect containers (omp.parallel, harness c13.rec): removable iff every op incl. the terminators of "
        "every block reachable from the entry of their region is harmless; cf.switch / omp.terminator / scf.yield / c13.pterm are Pure, "
        "cf.br / cf.cond_br / test.termop have unknown effects (table HARMLESS_TERMS); effects in unreachable nested blocks are not observable",
        "successor operands of terminators count as uses (region_dce does not touch block arguments)",
        "an unregistered op that ends a block and carries successors is a branch: its successors are reachable (MLIR's reading of unknown ops)",
        "xDSL's verifier does not check dominance; the generator only emits dominance-correct programs (MLIR rule for unreachable blocks)",
    ]


def replay(rep) -> bool:
    def tup(x):
        return tuple(tup(y) for y in x) if isinstance(x, list) else x

    st = Stats()
    w = rep["witness"]
    # a witness names the entry point that misbehaved; the other entry points are not part of it
    check_program(st, tup(w["desc"]), (w["entry"],) if w.get("entry") in ENTRIES else ENTRIES)
    return rep["signature"] not in st.violations
