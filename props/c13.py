"""C13 — dead-code elimination removes only unobservable code.

Bounded-exhaustive enumeration of small programs over an alphabet of REAL operations whose effect
class is fixed in a harness-side ground-truth table (never computed with xDSL's trait helpers):

  pure (test.pureop)                      removable when unused
  read (test.op_with_memread)             removable when unused
  alloc-own (harness op c13.alloc_own whose only effect is ALLOC of its own result;
             no op of /repo declares that)  removable when unused
  alloc-anon (memref.alloc: ALLOC effect that names no value)   either answer accepted
  write (test.op_with_memwrite)           never removable
  unknown (test.op, no MemoryEffect trait) never removable
  symbol (test.op_with_symbol, func.func declaration, shard.grid which is also Pure) never removable
  terminator (test.termop with 0..2 successors, scf.yield) never removable
  unregistered-terminator ("foo.br", a builtin UnregisteredOp with 0..2 successors ending a block) never
             removable (unknown effects) and its successors ARE control-flow edges
  rec (scf.if, RecursiveMemoryEffect)     removable iff every nested non-terminator op is removable
  pure op with a region (test.pureop holding pure/read/alloc ops) removable when unused

Programs: a region with <= 3 blocks inside `builtin.module { test.op { ... } }` ("cfg" container, SSA
dominance enforced by the generator because xDSL's verifier does not check it; a use inside an
unreachable block may name any value of another block, as in MLIR) or the single graph block of
builtin.module itself ("graph" container: forward/self references, i.e. dead use cycles), or the graph
block of a builtin.module nested in the top-level module ("ngraph": a graph region BELOW the root).  All
successor assignments and all operand wirings (incl. dead cycles through block arguments,
uses from unreachable blocks, values captured by nested regions) are enumerated.

Entry points: the `dce` pass, region_dce(region) with a listener, dce(module), the trivial-dead path of
GreedyRewritePatternApplier with no patterns (recursive and single forward sweep) and the
`canonicalize` pass (no pattern of the alphabet can fire: scf.if only folds arith.constant conditions).

Oracle: reference liveness computed on the DESCRIPTION (pure data): least fixpoint of
  live(op) := context(op) and (non-removable(op) or some result has a live user)
with context = "in a block reachable from its region's entry" for ops of the region under test and
"parent op is live" for nested ops.  Terminator operands (successor operands) are ordinary uses:
region_dce never touches block arguments, so a value that only feeds a dead block-argument cycle
counts as live and nothing is asserted about it.

Assertions: (1) every op an entry point removes is reference-dead [C13|<entry>|removed-live-op|<class>];
(2) after the dce PASS no reference-dead op of a reachable block remains
[C13|dce-pass|left-dead-op|<class>|unused or ...|used-only-inside-removed-region: the op's (transitive) users sat in
the region of an op the pass removed] and exactly the reachable blocks remain [C13|dce-pass|left-unreachable-block];
for the recursive trivially-dead sweeps (greedy, dce()) no removable op without uses remains at their fixpoint
[C13|<entry>|left-trivially-dead|<class>]; (3) surviving effectful ops keep order and block
[C13|<entry>|effect-order-changed]; (4) the result verifies and mc.irinv is clean (checked whenever the entry point
removed or created something).  <class> is the ground-truth class ("rec-effectful" = scf.if holding a non-removable op).
"""
from __future__ import annotations

import itertools
from typing import Any, Iterator

from mc.pool import pmap
from mc.stats import Stats

# ------------------------------------------------------------------------------------------------
# ground truth: class -> removable when every result is unused (None: either answer is accepted)
REMOVABLE: dict[str, bool | None] = {
    "pure": True, "read": True, "alloc-own": True, "alloc-anon": None,
    "write": False, "unknown": False, "symbol": False, "terminator": False,
    # an op of an unloaded dialect that ends a block: unknown effects, and its successors ARE control-flow edges
    "unregistered-terminator": False,
    # "rec" is derived from the nested ops
}

# kind -> (class, n_operands, n_results, n_successors, inner)    inner: None | "if" | "pure-region"
KINDS: dict[str, tuple[str, int, int, int, str | None]] = {
    "D": ("pure", 0, 1, 0, None),         # test.pureop            () -> i1
    "P": ("pure", 1, 1, 0, None),         # test.pureop            (v) -> i1
    "R": ("read", 1, 1, 0, None),         # test.op_with_memread   (v) -> i1
    "A": ("alloc-own", 0, 1, 0, None),    # c13.alloc_own          () -> i1
    "M": ("alloc-anon", 0, 0, 0, None),   # memref.alloc           () -> memref<1xi1>, result never used
    "W": ("write", 1, 1, 0, None),        # test.op_with_memwrite  (v) -> i1
    "W0": ("write", 0, 0, 0, None),       # test.op_with_memwrite  () -> ()
    "U": ("unknown", 1, 0, 0, None),      # test.op                (v) -> ()
    "U0": ("unknown", 0, 1, 0, None),     # test.op                () -> i1
    "S": ("symbol", 0, 0, 0, None),       # test.op_with_symbol
    "F": ("symbol", 0, 0, 0, None),       # func.func private declaration
    "G": ("symbol", 0, 0, 0, None),       # shard.grid: SymbolOpInterface AND Pure -> only the symbol test protects it
    "IF0": ("rec", 1, 0, 0, "if"),        # scf.if %c { inner }           (no results)
    "IF1": ("rec", 1, 1, 0, "if"),        # scf.if %c -> i1 { inner; yield %x } else { yield %c }
    "PR": ("pure", 0, 1, 0, "pure-region"),  # test.pureop () -> i1 ({ inner; test.termop })
    "T0": ("terminator", 0, 0, 0, None),  # test.termop
    "T1": ("terminator", 1, 0, 0, None),  # test.termop (v)
    "B0": ("terminator", 0, 0, 1, None),  # test.termop [^b]
    "B1": ("terminator", 1, 0, 1, None),  # test.termop (v) [^b]
    "C": ("terminator", 1, 0, 2, None),   # test.termop (v) [^a, ^b]
    "XT0": ("unregistered-terminator", 0, 0, 0, None),  # "foo.br"() : () -> ()            (builtin UnregisteredOp)
    "XB0": ("unregistered-terminator", 0, 0, 1, None),  # "foo.br"() [^b]
    "XC": ("unregistered-terminator", 1, 0, 2, None),   # "foo.br"(v) [^a, ^b]
}
TERMS = ("T0", "T1", "B0", "B1", "C")
XTERMS = ("XT0", "XB0", "XC")
PURE_INNER = ("D", "P", "R", "A")      # what a test.pureop region may hold (the op declares itself Pure)

GRAPHS = ("graph", "ngraph")   # "ngraph": the graph block of a builtin.module NESTED in the top-level module

ENTRIES = ("dce-pass", "region_dce", "dce-fn", "greedy", "greedy-once", "canonicalize")


# ------------------------------------------------------------------------------------------------
# descriptions
#   program := (container, blocks)               container: "cfg" | "graph"
#   block   := (n_args, (op, ...))
#   op      := (kind, operands, successors, inner)
#   inner   := None | ((op, ...), yield_operands)   nested single block; its terminator is implicit
# values are numbered in definition order: block args, then per op its results, then its nested values.

def _skel_ops(leaf: tuple[str, ...], inner_leaf: tuple[str, ...], budget: int, max_inner: int) -> Iterator[tuple[tuple, int]]:
    """sequences of leaf op skeletons (kind, inner kinds | None) costing <= budget ops"""
    yield (), 0
    if budget <= 0:
        return
    for k in leaf:
        inner = KINDS[k][4]
        if inner is None:
            firsts = [((k, None), 1)]
        else:
            alpha = tuple(x for x in inner_leaf if inner == "if" or x in PURE_INNER)
            firsts = []
            for n in range(0, min(max_inner, budget - 1) + 1):
                for combo in itertools.product(alpha, repeat=n):
                    firsts.append(((k, combo), 1 + n))
        for first, cost in firsts:
            for rest, used in _skel_ops(leaf, inner_leaf, budget - cost, max_inner):
                yield (first,) + rest, cost + used


def skeletons(sp: dict) -> Iterator[tuple]:
    """(container, ((n_args, leaf op skeletons, terminator kind | None), ...)); skeletons that already belong to the
    space summarised by sp["exclude"] = (leaf kinds, max_ops, max_inner) (same container/args/terminators) are skipped,
    so that the spaces of one run are disjoint"""
    excl = sp.get("exclude")
    need = sp.get("require_term")     # only skeletons with at least one of these terminator kinds
    for sk in _skeletons(sp):
        if need is not None and not any(t in need for (_na, _ops, t) in sk[1]):
            continue
        if excl is not None:
            leaf, max_ops, max_inner = excl
            n = 0
            inside = True
            for (_na, ops, t) in sk[1]:
                n += 1 if t is not None else 0
                for (k, inner) in ops:
                    n += 1 + len(inner or ())
                    if k not in leaf or len(inner or ()) > max_inner:
                        inside = False
            if inside and n <= max_ops:
                continue
        yield sk


def _skeletons(sp: dict) -> Iterator[tuple]:
    leaf, inner_leaf = tuple(sp["leaf"]), tuple(sp.get("inner_leaf", ()))
    max_inner = sp.get("max_inner", 0)
    if sp["container"] in GRAPHS:
        for ops, _used in _skel_ops(leaf, inner_leaf, sp["max_ops"], max_inner):
            if ops:
                yield (sp["container"], ((0, ops, None),))
        return

    def blocks(nb: int, budget: int, first: bool) -> Iterator[tuple]:
        if nb == 0:
            yield ()
            return
        arg_opts = sp["entry_args"] if first else sp["other_args"]
        for ops, used in _skel_ops(leaf, inner_leaf, budget - nb, max_inner):   # keep 1 op per block for terminators
            for t in sp["terms"]:
                for rest in blocks(nb - 1, budget - used - 1, False):
                    for na in arg_opts:
                        yield ((na, ops, t),) + rest

    for nb in range(1, sp["max_blocks"] + 1):
        for bl in blocks(nb, sp["max_ops"], True):
            yield ("cfg", bl)


def _reach(succs: list[tuple[int, ...]], removed: int | None = None) -> set[int]:
    if removed == 0:
        return set()
    seen, todo = {0}, [0]
    while todo:
        x = todo.pop()
        for s in succs[x]:
            if s != removed and s not in seen:
                seen.add(s)
                todo.append(s)
    return seen


def expand(skel: tuple, ordered_succ: bool = True) -> Iterator[tuple]:
    """all successor assignments and all operand wirings of one skeleton (ordered_succ=False: two-successor
    terminators only with successors (a, b), a <= b)"""
    container, blks = skel
    nb = len(blks)
    graph = container in GRAPHS
    # ---- number the values (depends on the skeleton only)
    nv = 0
    bargs: list[list[int]] = []
    top_res: list[list[list[int]]] = []      # per block, per top-level op: result value ids
    inner_res: list[list[list[list[int]]]] = []  # per block, per op, per inner op
    for (na, ops, _t) in blks:
        bargs.append(list(range(nv, nv + na)))
        nv += na
        tr, ir = [], []
        for (k, inner) in ops:
            n = KINDS[k][2]
            tr.append(list(range(nv, nv + n)))
            nv += n
            ii = []
            for ik in inner or ():
                n2 = KINDS[ik][2]
                ii.append(list(range(nv, nv + n2)))
                nv += n2
            ir.append(ii)
        top_res.append(tr)
        inner_res.append(ir)
    block_vals = [bargs[b] + [v for r in top_res[b] for v in r] for b in range(nb)]

    succ_slots = [[c for c in itertools.product(range(nb), repeat=KINDS[t][3]) if ordered_succ or list(c) == sorted(c)]
                  if t is not None else [()] for (_na, _ops, t) in blks]
    for succs in itertools.product(*succ_slots):
        if graph:
            reach = {0}
        else:
            reach = _reach(list(succs))
        # values visible from other blocks
        outer: list[list[int]] = []
        for b in range(nb):
            vis: list[int] = []
            for d in range(nb):
                if d == b:
                    continue
                if b not in reach or (d in reach and b not in _reach(list(succs), removed=d)):
                    vis.extend(block_vals[d])
            outer.append(vis)
        slots: list[list[int]] = []
        for b, (na, ops, t) in enumerate(blks):
            before = list(bargs[b])
            for oi, (k, inner) in enumerate(ops):
                here = (block_vals[b] if graph else before) + outer[b]
                for _ in range(KINDS[k][1]):
                    slots.append(here)
                if inner is not None:
                    # nested values: visible at the parent (own result excluded) + earlier nested results
                    base = [v for v in here if v not in top_res[b][oi]]
                    acc = list(base)
                    for ii, ik in enumerate(inner):
                        for _ in range(KINDS[ik][1]):
                            slots.append(list(acc))
                        acc.extend(inner_res[b][oi][ii])
                    if k == "IF1":
                        slots.append(list(acc))     # operand of the then-yield
                before.extend(top_res[b][oi])
            if t is not None:
                for _ in range(KINDS[t][1]):
                    slots.append(before + outer[b])
        if any(not s for s in slots):
            continue
        for choice in itertools.product(*slots):
            it = iter(choice)
            out = []
            for b, (na, ops, t) in enumerate(blks):
                oo = []
                for (k, inner) in ops:
                    operands = tuple(next(it) for _ in range(KINDS[k][1]))
                    if inner is None:
                        oo.append((k, operands, (), None))
                    else:
                        ins = tuple((ik, tuple(next(it) for _ in range(KINDS[ik][1])), (), None) for ik in inner)
                        y = (next(it),) if k == "IF1" else ()
                        oo.append((k, operands, (), (ins, y)))
                if t is not None:
                    oo.append((t, tuple(next(it) for _ in range(KINDS[t][1])), succs[b], None))
                out.append((na, tuple(oo)))
            yield (container, tuple(out))


# ------------------------------------------------------------------------------------------------
# reference analysis on the description
class Rec:
    __slots__ = ("kind", "cls", "parent", "block", "operands", "results", "children", "succs")

    def __init__(self, kind, cls, parent, block, operands, results, succs=()):
        self.kind, self.cls, self.parent, self.block = kind, cls, parent, block
        self.operands, self.results, self.succs = operands, results, succs
        self.children: list[int] = []


def analyse(desc: tuple) -> tuple[list[Rec], int]:
    """op records in BUILD ORDER (block order; op; its nested ops; its implicit terminator(s))"""
    _container, blks = desc
    recs: list[Rec] = []
    nv = 0
    for b, (na, ops) in enumerate(blks):
        nv += na
        for (k, operands, succs, inner) in ops:
            cls, _no, nr, _ns, _inn = KINDS[k]
            me = len(recs)
            recs.append(Rec(k, cls, None, b, tuple(operands), tuple(range(nv, nv + nr)), tuple(succs)))
            nv += nr
            if inner is not None:
                ins, y = inner
                for (ik, ioperands, _s, _i) in ins:
                    icls, _a, inr, _b, _c = KINDS[ik]
                    recs[me].children.append(len(recs))
                    recs.append(Rec(ik, icls, me, None, tuple(ioperands), tuple(range(nv, nv + inr))))
                    nv += inr
                # implicit terminator of the nested block
                recs[me].children.append(len(recs))
                recs.append(Rec("yield", "terminator", me, None, tuple(y), ()))
                if k == "IF1":   # else { scf.yield %cond }
                    recs[me].children.append(len(recs))
                    recs.append(Rec("yield", "terminator", me, None, tuple(operands), ()))
    return recs, nv


def static_removable(recs: list[Rec], i: int) -> bool | None:
    """ground truth: may op i go away when none of its results is used?"""
    r = recs[i]
    if r.cls == "rec":
        return all(static_removable(recs, c) is True for c in r.children if recs[c].cls != "terminator")
    return REMOVABLE[r.cls]


def reference(desc: tuple) -> dict[str, Any]:
    container, blks = desc
    recs, nv = analyse(desc)
    if container in GRAPHS:
        reach = {0}
    else:
        succs = [tuple(blk[1][-1][2]) if blk[1] else () for blk in blks]
        reach = _reach(succs)
    users: dict[int, list[int]] = {v: [] for v in range(nv)}
    for i, r in enumerate(recs):
        for v in r.operands:
            users[v].append(i)
    rem = [static_removable(recs, i) for i in range(len(recs))]
    live: set[int] = set()
    changed = True
    while changed:
        changed = False
        for i, r in enumerate(recs):
            if i in live:
                continue
            ctx_ok = (r.block in reach) if r.parent is None else (r.parent in live)
            if not ctx_ok:
                continue
            if rem[i] is False or any(u in live for v in r.results for u in users[v]):
                live.add(i)
                changed = True
    optional = {i for i, r in enumerate(recs) if rem[i] is None and i not in live
                and ((r.block in reach) if r.parent is None else (r.parent in live))}
    return {"recs": recs, "reach": reach, "live": live, "optional": optional, "rem": rem, "users": users}


# ------------------------------------------------------------------------------------------------
# real IR
_REAL: dict[str, Any] = {}


def _real() -> dict[str, Any]:
    if _REAL:
        return _REAL
    from xdsl.dialects.builtin import DenseArrayBase, MemRefType, UnregisteredOp, i1, i64
    from xdsl.irdl import IRDLOperation, irdl_op_definition, result_def, traits_def
    from xdsl.traits import EffectInstance, MemoryEffect, MemoryEffectKind

    class AllocOwnResultEffect(MemoryEffect):
        """the only effect is the allocation of the op's own result"""

        @classmethod
        def get_effects(cls, op):
            return {EffectInstance(MemoryEffectKind.ALLOC, op.results[0])}

    @irdl_op_definition
    class AllocOwnOp(IRDLOperation):
        name = "c13.alloc_own"
        res = result_def()
        traits = traits_def(AllocOwnResultEffect())

    _REAL["AllocOwnOp"] = AllocOwnOp
    _REAL["i1"] = i1
    _REAL["memref"] = MemRefType(i1, [1])
    _REAL["shape"] = DenseArrayBase.from_list(i64, [2])
    _REAL["foo.br"] = UnregisteredOp.with_name("foo.br")
    return _REAL


class Prog:
    def __init__(self) -> None:
        self.module = None
        self.region = None          # region under test
        self.ops: list[Any] = []    # build order == analyse() order
        self.blocks: list[Any] = []  # blocks of the region under test
        self.values: list[Any] = []
        self.opblock: list[Any] = []  # parent Block of every op at build time


def build(desc: tuple) -> Prog:
    from xdsl.dialects import func, memref, scf, shard
    from xdsl.dialects.builtin import ModuleOp, StringAttr
    from xdsl.dialects.test import TestOp, TestPureOp, TestReadOp, TestSymbolOp, TestTermOp, TestWriteOp
    from xdsl.ir import Block, Region

    R = _real()
    i1 = R["i1"]
    container, blks = desc
    p = Prog()
    pending: list[tuple[Any, tuple, tuple]] = []
    nsym = [0]

    def mk(k: str, inner) -> list[Any]:
        """create op of kind k (operands wired later); returns [op, nested ops..., implicit terminators...]"""
        cls, _no, nr, _ns, _inn = KINDS[k]
        rt = [i1] * nr
        # Operation.create is the plain constructor (no IRDL argument processing): same op, built faster
        if k in ("D", "P"):
            return [TestPureOp.create(result_types=rt)]
        if k == "R":
            return [TestReadOp.create(result_types=rt)]
        if k == "A":
            return [R["AllocOwnOp"].create(result_types=rt)]
        if k == "M":
            return [memref.AllocOp([], [], R["memref"])]
        if k in ("W", "W0"):
            return [TestWriteOp.create(result_types=rt)]
        if k in ("U", "U0"):
            return [TestOp.create(result_types=rt)]
        if k == "S":
            nsym[0] += 1
            return [TestSymbolOp(properties={"sym_name": StringAttr(f"s{nsym[0]}")})]
        if k == "F":
            nsym[0] += 1
            return [func.FuncOp.external(f"f{nsym[0]}", [], [])]
        if k == "G":
            nsym[0] += 1
            return [shard.GridOp.create(properties={"sym_name": StringAttr(f"g{nsym[0]}"), "shape": R["shape"]})]
        if k in TERMS:
            return [TestTermOp.create()]
        if k in XTERMS:
            return [R["foo.br"].create()]
        raise KeyError(k)

    blocks = [Block(arg_types=[i1] * na) for (na, _ops) in blks]
    p.blocks = blocks
    for b, (na, ops) in zip(blocks, blks):
        p.values.extend(b.args)
        for (k, operands, succs, inner) in ops:
            if inner is None:
                op = mk(k, None)[0]
                p.ops.append(op)
                p.values.extend(op.results[:KINDS[k][2]])
                b.add_op(op)
                pending.append((op, tuple(operands), tuple(succs)))
                continue
            ins, y = inner
            ib = Block()
            made = []
            for (ik, ioperands, _s, _i) in ins:
                iop = mk(ik, None)[0]
                ib.add_op(iop)
                made.append((iop, tuple(ioperands)))
            if k == "PR":
                term = TestTermOp.create()
                ib.add_op(term)
                op = TestPureOp.create(result_types=[i1], regions=[Region(ib)])
                extra = [(term, ())]
            else:
                # the condition (and every other operand) is wired in the second pass
                term = scf.YieldOp.create()
                ib.add_op(term)
                extra = [(term, tuple(y))]
                if k == "IF1":
                    eterm = scf.YieldOp.create()
                    op = scf.IfOp.create(result_types=[i1], regions=[Region(ib), Region(Block([eterm]))])
                    extra.append((eterm, tuple(operands)))
                else:
                    op = scf.IfOp.create(regions=[Region(ib), Region()])
            p.ops.append(op)
            p.values.extend(op.results)
            b.add_op(op)
            pending.append((op, tuple(operands), ()))
            for iop, ioperands in made:
                p.ops.append(iop)
                p.values.extend(iop.results)
                pending.append((iop, ioperands, ()))
            for t, toperands in extra:
                p.ops.append(t)
                pending.append((t, toperands, ()))
    for op, operands, succs in pending:
        if operands:
            op.operands = [p.values[v] for v in operands]
        if succs:
            op.successors = [blocks[s] for s in succs]
    if container == "graph":
        p.module = ModuleOp(Region(blocks))
        p.region = p.module.body
    elif container == "ngraph":
        inner_module = ModuleOp(Region(blocks))
        p.region = inner_module.body
        p.module = ModuleOp([inner_module])
    else:
        p.region = Region(blocks)
        p.module = ModuleOp([TestOp(regions=[p.region])])
    p.opblock = [o.parent for o in p.ops]
    return p


def run_entry(entry: str, p: Prog) -> None:
    from xdsl.context import Context
    from xdsl.pattern_rewriter import GreedyRewritePatternApplier, PatternRewriterListener, PatternRewriteWalker
    from xdsl.transforms import dead_code_elimination as D

    if entry == "dce-pass":
        D.DeadCodeElimination().apply(Context(), p.module)
    elif entry == "region_dce":
        D.region_dce(p.region, PatternRewriterListener())
    elif entry == "dce-fn":
        D.dce(p.module)
    elif entry == "greedy":
        PatternRewriteWalker(GreedyRewritePatternApplier([]), apply_recursively=True).rewrite_module(p.module)
    elif entry == "greedy-once":
        PatternRewriteWalker(GreedyRewritePatternApplier([]), apply_recursively=False).rewrite_module(p.module)
    elif entry == "canonicalize":
        from xdsl.transforms.canonicalize import CanonicalizePass

        CanonicalizePass().apply(Context(), p.module)
    else:
        raise KeyError(entry)


# ------------------------------------------------------------------------------------------------
def show(desc: tuple) -> str:
    """generic text of the program (for witnesses)"""
    try:
        return str(build(desc).module)
    except Exception as e:  # noqa: BLE001
        return f"<unprintable: {type(e).__name__}>"


def check_program(st: Stats, desc: tuple, entries: tuple[str, ...] = ENTRIES) -> None:
    from mc.irinv import irinv

    ref = reference(desc)
    recs, live, optional, rem, users = ref["recs"], ref["live"], ref["optional"], ref["rem"], ref["users"]
    reach = ref["reach"]
    n = len(recs)
    dead = set(range(n)) - live
    nontrivial = bool(dead - optional)
    effectful = [i for i in range(n) if recs[i].cls not in ("pure", "rec", "terminator")]

    def viol(sig: str, what: str, **kw) -> None:
        if sig in st.violations:
            st.violations[sig]["count"] += 1
            return
        w = {"desc": desc, "ops": [f"{i}:{r.kind}" for i, r in enumerate(recs)], "reference_live": sorted(live)}
        w.update(kw)
        w["ir"] = show(desc)
        st.violate(sig, what, w)

    def cls_of(i: int) -> str:
        return "rec-effectful" if recs[i].cls == "rec" and rem[i] is False else recs[i].cls

    def captured(i: int, seen: set[int]) -> bool:
        """is (reference-dead) op i kept alive only through a use nested in a region op that is itself dead?"""
        seen.add(i)
        for v in recs[i].results:
            for u in users[v]:
                if u in live or u in seen:
                    continue
                if recs[u].parent is not None and recs[u].parent not in live:
                    return True
                if captured(u, seen):
                    return True
        return False

    for ei, entry in enumerate(entries):
        p = build(desc)
        if ei == 0:
            try:
                p.module.verify()
                bad_in = irinv([p.module])
            except Exception as e:  # noqa: BLE001
                st.outcomes["invalid-input:" + type(e).__name__] += 1
                return
            if bad_in:
                st.outcomes["invalid-input:irinv"] += 1
                return
            st.states += 1
            st.nontrivial += nontrivial
        index = {id(o): i for i, o in enumerate(p.ops)}
        st.executions += 1
        st.transitions += 1
        try:
            run_entry(entry, p)
        except Exception as e:  # noqa: BLE001
            viol(f"C13|{entry}|raises|{type(e).__name__}", f"{entry} raised {type(e).__name__}: {str(e)[:200]}", entry=entry)
            continue
        order = []
        foreign = 0
        for o in p.module.walk():
            i = index.get(id(o))
            if i is None:
                if o is not p.module and o is not p.region.parent:
                    foreign += 1
                continue
            order.append(i)
        surv = set(order)
        removed = set(range(n)) - surv
        nblocks = len(p.region.blocks) if p.region.parent is not None else -1
        if foreign:
            st.bump("foreign_ops_after_" + entry, foreign)
        # (1) soundness: removed => reference-dead
        st.evaluations += 1
        bad = sorted(removed & live)
        if bad:
            i = ([x for x in bad if rem[x] is False] or bad)[0]   # blame an op that is live by itself if there is one
            viol(f"C13|{entry}|removed-live-op|{cls_of(i)}",
                 f"{entry} removed op #{i} ({recs[i].kind}, class {recs[i].cls}) which the reference liveness keeps "
                 f"({'never removable' if rem[i] is False else 'it has a live user'})",
                 entry=entry, removed=sorted(removed))
        # (2) completeness (dce pass only)
        if entry == "dce-pass":
            st.evaluations += 2
            # ops nested in a leftover dead op are a consequence of their parent being left: blame the outermost ones
            left = [i for i in sorted((surv & dead) - optional)
                    if _top_block(recs, i) in reach and (recs[i].parent is None or recs[i].parent in live)]
            if left:
                plain = [i for i in left if not captured(i, set())]
                i = (plain or left)[0]
                how = "unused" if plain else "used-only-inside-removed-region"
                viol(f"C13|dce-pass|left-dead-op|{cls_of(i)}|{how}",
                     f"after the dce pass op #{i} ({recs[i].kind}) remains although it is removable and "
                     + ("(transitively) unused" if plain else "its only users sat in the region of an op the pass removed"),
                     entry=entry, left=left)
            expect = [b for bi, b in enumerate(p.blocks) if bi in reach]
            remaining = list(p.region.blocks) if nblocks >= 0 else []
            if nblocks >= 0 and (len(remaining) != len(expect) or any(x is not y for x, y in zip(remaining, expect))):
                kind = "left-unreachable-block" if len(remaining) > len(expect) else "removed-reachable-block"
                viol(f"C13|dce-pass|{kind}",
                     f"after the dce pass the region has {len(remaining)} blocks, {len(expect)} are reachable from the entry",
                     entry=entry, reachable=sorted(reach))
            for i in sorted(surv & optional):
                st.outcomes[f"optional-kept:{recs[i].cls}"] += 1
            for i in sorted(removed):
                st.outcomes[f"pass-removed:{recs[i].cls}"] += 1
            for i in sorted(surv):
                st.outcomes[f"pass-kept:{recs[i].cls}"] += 1
            st.outcomes[f"pass:unreachable-blocks={len(p.blocks) - len(reach)}"] += 1
        # fixpoint of the trivially-dead sweeps (apply_recursively=True)
        if entry in ("greedy", "dce-fn"):
            st.evaluations += 1
            for i in order:
                if rem[i] is True and not any(u in surv for v in recs[i].results for u in users[v]):
                    viol(f"C13|{entry}|left-trivially-dead|{cls_of(i)}",
                         f"{entry} (apply_recursively) stopped although op #{i} ({recs[i].kind}) is removable and has no use",
                         entry=entry, survivors=sorted(surv))
                    break
        # (3) effectful ops keep their relative order (and their block)
        st.evaluations += 1
        want = [i for i in effectful if i in surv]
        got = [i for i in order if recs[i].cls not in ("pure", "rec", "terminator")]
        if want != got or any(p.ops[i].parent is not p.opblock[i] for i in got):
            viol(f"C13|{entry}|effect-order-changed", f"{entry} changed the order or the block of surviving effectful ops",
                 entry=entry, before=want, after=got)
        # (4) well-formed result (an entry point that removed/created nothing and kept every block left the verified input as it was)
        if removed or foreign or (nblocks >= 0 and nblocks != len(p.blocks)):
            st.evaluations += 1
            try:
                p.module.verify()
            except Exception as e:  # noqa: BLE001
                viol(f"C13|{entry}|result-does-not-verify", f"result of {entry} fails verification: {str(e)[:200]}", entry=entry)
            errs = irinv([p.module])
            if errs:
                viol(f"C13|{entry}|irinv|{errs[0][0]}", f"structural invariant broken after {entry}: {errs[0][1]}", entry=entry)
        st.outcomes[f"{entry}:removed={'0' if not removed else '1+'}"] += 1


def _top_block(recs: list[Rec], i: int) -> int:
    while recs[i].parent is not None:
        i = recs[i].parent
    return recs[i].block


# ------------------------------------------------------------------------------------------------
def spaces(quick: bool) -> list[dict]:
    full = ("D", "P", "R", "A", "M", "W", "W0", "U", "U0", "S", "F", "G", "IF0", "IF1", "PR")
    eff = ("D", "P", "R", "A", "W", "U", "U0", "G", "IF0", "IF1", "PR")
    eff9 = ("D", "P", "R", "A", "W", "U", "IF0", "IF1", "PR")
    inner = ("D", "P", "R", "A", "W", "U")
    cfg = ("D", "P", "W", "U")
    out = [
        # every kind of the table, alone and in pairs
        dict(name="kinds-cfg", container="cfg", leaf=full, inner_leaf=inner, max_inner=1, max_blocks=1, max_ops=3,
             entry_args=(1,), other_args=(0,), terms=("T0", "T1"), exclude=(eff, 4, 2)),
        dict(name="kinds-graph", container="graph", leaf=full, inner_leaf=inner, max_inner=1, max_ops=2, exclude=(eff, 3, 2)),
        # effect classes x use chains x nested regions, one block
        dict(name="effects-cfg", container="cfg", leaf=eff, inner_leaf=inner, max_inner=2, max_blocks=1, max_ops=4,
             entry_args=(1,), other_args=(0,), terms=("T0", "T1")),
        dict(name="effects-graph", container="graph", leaf=eff, inner_leaf=inner, max_inner=2, max_ops=3),
        # CFG shapes: unreachable blocks, uses from unreachable blocks, cycles through block arguments
        # (greedy-once, the first sweep of greedy, is left to the one-block spaces)
        dict(name="cfg", container="cfg", leaf=cfg, inner_leaf=(), max_inner=0, max_blocks=3, max_ops=4,
             entry_args=(0,), other_args=(0, 1), terms=TERMS,
             entries=("dce-pass", "region_dce", "dce-fn", "greedy", "canonicalize")),
        # the same effect/use-chain programs inside a NESTED builtin.module (graph region below the root: forward
        # references and use cycles that need several liveness sweeps of a nested region)
        dict(name="effects-ngraph", container="ngraph", leaf=eff, inner_leaf=inner, max_inner=2, max_ops=3),
        # control flow through UNREGISTERED terminators ("foo.br" with 0..2 successors), mixed with registered ones
        dict(name="cfg-unreg", container="cfg", leaf=cfg, inner_leaf=(), max_inner=0, max_blocks=3, max_ops=4,
             entry_args=(0,), other_args=(0, 1), terms=("T0", "XT0", "B0", "XB0", "XC"), ordered_succ=False,
             require_term=XTERMS, entries=("dce-pass", "dce-fn", "greedy", "canonicalize")),
    ]
    if not quick:
        # the larger spaces skip the two entry points that add least: greedy-once is the first sweep of greedy, region_dce is
        # what the pass calls (both still run on every program of the spaces above)
        big = ("dce-pass", "dce-fn", "greedy", "canonicalize")
        out += [
            dict(name="effects-cfg-5", container="cfg", leaf=eff9, inner_leaf=inner, max_inner=2, max_blocks=1, max_ops=5,
                 entry_args=(1,), other_args=(0,), terms=("T0", "T1"), exclude=(eff, 4, 2), entries=big),
            dict(name="effects-graph-4", container="graph", leaf=eff9, inner_leaf=inner, max_inner=2, max_ops=4, exclude=(eff, 3, 2),
                 entries=big),
            dict(name="cfg-5", container="cfg", leaf=("D", "P", "W"), inner_leaf=(), max_inner=0, max_blocks=3, max_ops=5,
                 entry_args=(0,), other_args=(0, 1), terms=TERMS, ordered_succ=False, exclude=(cfg, 4, 0), entries=big),
        ]
    return out


def _shard(arg) -> Stats:
    sp, shard, nshards, seed = arg
    st = Stats()
    count = 0
    for si, skel in enumerate(skeletons(sp)):
        if si % nshards != shard:
            continue
        st.bump("skeletons")
        for desc in expand(skel, sp.get("ordered_succ", True)):
            check_program(st, desc, tuple(sp.get("entries", ENTRIES)))
            count += 1
            if (count + seed) % 2003 == 0:
                st.sample({"space": sp["name"], "desc": desc})
    st.bump("programs:" + sp["name"], count)
    return st


def run(ctx):
    sps = spaces(ctx.quick)
    n = 192
    tasks = [(sp, i, n, ctx.seed) for sp in sps for i in range(n)]
    for _, st in pmap(_shard, tasks):
        ctx.merge(st)
    ctx.bounds = {"spaces": [{k: (list(v) if isinstance(v, tuple) else v) for k, v in sp.items()} for sp in sps],
                  "entries": list(ENTRIES)}
    ctx.rule = ("every program of each listed space: skeleton (block-argument counts, op kinds, nested bodies) x all successor "
                "assignments x all operand wirings the generator's SSA-dominance rule admits (graph container: every value of the "
                "block); each program is rebuilt and run through every entry point; states = programs, transitions = entry-point "
                "runs; non-trivial = the reference liveness finds at least one removable dead op.  'Program results are unchanged' "
                "is implied by (1) removed subset-of reference-dead + (3) surviving effectful ops keep order/block, because in this "
                "alphabet an op influences the result only through its effects or through a use chain ending in an effectful op/terminator")
    ctx.assumptions = [
        "ground-truth effect table in props/c13.py (pure/read/alloc-of-own-result removable when unused; write/unknown/symbol/terminator never; "
        "scf.if removable iff all nested non-terminators are; memref.alloc: either answer accepted)",
        "successor operands of terminators count as uses (region_dce does not touch block arguments)",
        "an unregistered op that ends a block and carries successors is a branch: its successors are reachable (MLIR's reading of unknown ops)",
        "xDSL's verifier does not check dominance; the generator only emits dominance-correct programs (MLIR rule for unreachable blocks)",
    ]


def replay(rep) -> bool:
    def tup(x):
        return tuple(tup(y) for y in x) if isinstance(x, list) else x

    st = Stats()
    w = rep["witness"]
    check_program(st, tup(w["desc"]))
    return rep["signature"] not in st.violations
