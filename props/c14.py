"""C14 -- canonicalize, constant folding and CSE preserve program results.

Bounded-exhaustive: a generator tree of small func/arith (+ cf / scf) programs is enumerated completely;
every program is run through each of the real passes

    canonicalize, constant-fold-interp, test-constant-folding, test-specialised-constant-folding, cse,
    and the pipeline canonicalize,cse,canonicalize

(classes from xdsl.transforms.get_all_passes(), applied to a clone with a real Context), and the program
before / after the pass is executed by the independent reference semantics `mc.refsem` on every input
vector of a boundary input grid.  Oracle, for every input on which the ORIGINAL program is defined (refsem
result not POISON / UB / ambiguous):   results and effect log after == before, bit-exactly (any NaN ==
any NaN, as refsem.results_equal); the transformed module must verify; a pass that raises on a verified
program is a violation ("a pass that cannot fold an operation leaves it in place instead of failing");
a pass output that is POISON where the input program was defined is a violation.

Generator tree (program = one func.func @f, <= 2 arguments; constants are not counted as ops)
  single   every listed arith op x type x operand pattern (arg,arg) (x,x) (arg,const) (const,arg)
           (const,const') (k,k) with constants from the boundary set of the type
  chain    2-op chains: the second op consumes the first result together with an arg / const / the result
           itself (thorough: also 3-op chains over a reduced op set)
  pair     two ops over the same operands, both results returned (what CSE may or may not merge: same op,
           other predicate / overflow flag / result type / operand order, constants that differ in type or
           sign of zero, opaque test.op producers)
  dead     an unused op next to a returned argument
  cfg      a fixed family of cf.cond_br / cf.switch / scf.if / scf.for / scf.while / scf.execute_region shapes around
           such ops (constant and variable conditions, identical branches, identical successors, opaque
           test.op effects inside branches)
  cfggen   the GENERATED cf CFG family of mc/cfgfam.py (see its docstring for the exact grammar): every forward-edge
           CFG of 3..5 blocks -- entry block ending in cf.br / cf.cond_br / cf.switch (default + 1 or 2 cases), middle
           blocks with 0..2 block arguments that are either pass-through blocks (ONLY a cf.br, forwarding each of their
           arguments 0/1/2 times, or %a) or use blocks (a small computation over their arguments), one exit block --
           x every assignment of %a / %b to the entry's successor operands (the same successor may be targeted twice
           with different operands) x 0/1/2 extra uses of every pass-through block argument by the use blocks that
           block dominates x selector variants (function argument, constant hitting each case / the default).
           Run through canonicalize (thorough: also cse and the pipeline) and executed on the family's own input box:
           condition both ways / every switch case value and two selectors that take the default, x 3 x 3 data
           values.  Rows and bounds of both tiers: cfggen_plan().
  top      straight-line arith ops directly in the module body feeding an opaque "test.op" (the only place
           test-specialised-constant-folding looks at); compared through the effect log.

Signatures
  wrong values      C14|<pass>|<op>[|<predicate>]|<operand pattern>|<wrong-result|wrong-effects|introduces-poison|does-not-verify|use-not-dominated|use-of-erased-value>
                    (use-of-erased-value: an op of the pass output uses a value whose defining op / block is no longer
                    part of the module -- checked structurally before the verifier and the executions)
  pass raised       C14|<pass>|raises|<ExceptionClass>|<op>      (<op> = the op the rewrite pattern was applied to)
For multi-op programs the blamed <op> is found by re-running the pass on every contiguous window of the
program, smallest first, with the results of earlier ops turned into fresh arguments and -- when that does
not reproduce the failure -- into the constants they evaluate to on the failing input (a wrong fold of op B
that needs op A to have been folded first is op B's (const,const) finding): a chain re-finds the single-op
signature when one op alone already fails and is reported as "opA->opB" only when it takes both.  A failure
of the pipeline that one of its passes shows on its own (on the program or on the blamed window) is recorded
under that pass.  Control-flow templates are labelled <construct>|<template variant>; programs of the generated cf family
<entry terminator>|generated-cfg:<selector kind>[:repeated-successor][:to-pass-through][:pass-through-arg-used-in-dominated-block]
(the shape class of the CFG, no counts or operands).
"""
from __future__ import annotations

import itertools

from mc import cfgfam as F
from mc import refsem as R
from mc.pool import pmap
from mc.stats import Stats

POISON = R.POISON
FUEL = 3000
PASSES = ("canonicalize", "constant-fold-interp", "test-constant-folding", "test-specialised-constant-folding", "cse",
          "canonicalize,cse,canonicalize")

INT_TYPES = ("i1", "i8", "i32", "i64", "index")
FLOAT_TYPES = ("f32", "f64")
IBIN = ("addi", "subi", "muli", "andi", "ori", "xori", "shli", "shrsi", "shrui", "divsi", "divui", "remsi", "remui",
        "floordivsi", "ceildivsi", "ceildivui", "minsi", "minui", "maxsi", "maxui")
IBIN3 = ("addi", "subi", "muli", "andi", "ori", "xori", "shli", "shrui", "divui")  # reduced op set of the quick 2-op chains
IBIN4 = ("addi", "subi", "muli", "andi", "ori", "xori", "shrui")  # op set of the 3-op chains
FBIN = ("addf", "subf", "mulf", "divf", "minimumf", "maximumf")
CMPI = ("eq", "ne", "slt", "sle", "sgt", "sge", "ult", "ule", "ugt", "uge")
CMPF = ("false", "oeq", "ogt", "oge", "olt", "ole", "one", "ord", "ueq", "ugt", "uge", "ult", "ule", "une", "uno", "true")
FLAGGED = ("addi", "subi", "muli", "shli")
EXT_PAIRS = (("i1", "i8"), ("i1", "i32"), ("i8", "i32"), ("i8", "i64"), ("i32", "i64"))
IDX_PAIRS = ("i8", "i32", "i64")


# ======================================================================================
# types, constants, inputs
# ======================================================================================
def twidth(t: str) -> int:
    return 64 if t == "index" else int(t[1:])


def is_float(t: str) -> bool:
    return t in FLOAT_TYPES


def fbits(t: str, x: float) -> int:
    return R.float_to_bits(R.FLOAT_FORMATS[t], x)


def int_consts(t: str, level: int) -> list[int]:
    """boundary constants (signed spelling).  level 0: tiny, 1: small, 2: the full boundary set"""
    w = twidth(t)
    if w == 1:
        return [0, -1]
    lo, hi = -(1 << (w - 1)), (1 << (w - 1)) - 1
    if level < 0:
        return [0, -1]
    if level == 0:
        return [0, 1, -1]
    if level == 1:
        return [0, 1, -1, lo, hi, w - 1]
    return [0, 1, -1, 2, lo, hi, w, w - 1, 1 << (w - 2)]


def float_consts(t: str, level: int) -> list[int]:
    """boundary constants as bit patterns"""
    fmt = R.FLOAT_FORMATS[t]
    z, nz, one, inf, nan = 0, fmt.sign_bit, fbits(t, 1.0), fmt.inf, fmt.qnan
    if level < 0:
        return [z, nan]
    if level == 0:
        return [z, nz, one, fbits(t, -1.0), inf, nan]  # 1 and -1: (1 + x) - 1 exposes any reassociation
    if level == 1:
        return [z, nz, one, fbits(t, -1.0), inf, nan, fbits(t, 0.1)]
    big = [fmt.max_finite, fmt.max_finite | fmt.sign_bit]  # overflow of the type in both directions
    if t == "f32":
        big += [fbits(t, 3.0e38), fbits(t, -3.0e38)]
    return [z, nz, one, fbits(t, -1.0), fbits(t, 2.0), inf, inf | fmt.sign_bit, nan, fbits(t, 0.1), fbits(t, 3.0)] + big


def consts(t: str, level: int) -> list[int]:
    return float_consts(t, level) if is_float(t) else int_consts(t, level)


def lit(t: str, c: int) -> str:
    """the literal text of constant c of type t"""
    if is_float(t):
        return f"0x{c:0{twidth_f(t) // 4}X}"
    if t == "i1":
        return "true" if c & 1 else "false"
    return str(c)


def twidth_f(t: str) -> int:
    return R.FLOAT_FORMATS[t].width


def input_values(t: str, big: bool, exhaustive8: bool = False) -> list[int]:
    """the boundary input grid of one argument (bit patterns)"""
    if is_float(t):
        fmt = R.FLOAT_FORMATS[t]
        vals = [0, fmt.sign_bit, fbits(t, 1.0), fbits(t, -1.0), fbits(t, 2.0), fbits(t, -2.0), fmt.inf, fmt.inf | fmt.sign_bit,
                fmt.qnan, fbits(t, 0.1), fmt.max_finite, 1, fbits(t, 3.0), fbits(t, 0.5)]
        if big:
            vals += [fmt.max_finite | fmt.sign_bit, fbits(t, 1.0) + 1, fbits(t, 1e-3), 1 | fmt.sign_bit, fmt.qnan | fmt.sign_bit,
                     fbits(t, 7.0)]
        return vals
    w = twidth(t)
    m = (1 << w) - 1
    if w == 1:
        return [0, 1]
    if w == 8 and exhaustive8:
        return list(range(256))
    lo, hi = 1 << (w - 1), (1 << (w - 1)) - 1
    vals = [0, 1, m, 2, lo, hi, w, w - 1, 1 << (w - 2), m - 1]
    if big:
        vals += [lo + 1, hi - 1, 3, 5, m - 2, w + 1, int("01" * 32, 2) & m, int("10" * 32, 2) & m]
    return vals


# ======================================================================================
# straight-line program records
#   ("sl", top, args, consts, ops, rets)
#     args   tuple of type strings                      -> %a0 %a1 ...
#     consts tuple of (type, value)                     -> %k0 %k1 ...   (arith.constant, not counted as ops)
#     ops    tuple of (name, variant, operand refs, result type | None)   -> %r0 %r1 ...
#     rets   tuple of refs
#   text templates:  ("text", top, args, text, construct, variant)
# ======================================================================================
def ref_type(rec, ref: str) -> str:
    k, i = ref[0], int(ref[1:])
    if k == "a":
        return rec[2][i]
    if k == "k":
        return rec[3][i][0]
    return rec[4][i][3]


def op_kind(name: str) -> str:
    n = name.split(".", 1)[1] if name.startswith("arith.") else name
    if n in IBIN:
        return "ibin"
    if n in FBIN:
        return "fbin"
    if n in ("cmpi", "cmpf", "select", "negf"):
        return n
    if n in ("extsi", "extui", "trunci", "index_cast"):
        return "cast"
    if name == "test.op":
        return "opaque"
    raise ValueError(name)


def render_op(rec, i: int) -> str:
    name, var, opr, rt = rec[4][i]
    o = ", ".join("%" + x for x in opr)
    k = op_kind(name)
    if k == "ibin":
        return f"%r{i} = {name} {o}{' overflow<' + var + '>' if var else ''} : {rt}"
    if k == "fbin":
        return f"%r{i} = {name} {o} : {rt}"
    if k == "cmpi":
        return f"%r{i} = arith.cmpi {CMPI[var]}, {o} : {ref_type(rec, opr[0])}"
    if k == "cmpf":
        return f"%r{i} = arith.cmpf {CMPF[var]}, {o} : {ref_type(rec, opr[0])}"
    if k == "select":
        return f"%r{i} = arith.select {o} : {rt}"
    if k == "cast":
        return f"%r{i} = {name} {o} : {ref_type(rec, opr[0])} to {rt}"
    if k == "negf":
        return f"%r{i} = arith.negf {o} : {rt}"
    tys = ", ".join(ref_type(rec, x) for x in opr)
    if rt is None:
        return f'"test.op"({o}) : ({tys}) -> ()'
    return f'%r{i} = "test.op"({o}) : ({tys}) -> {rt}'


def render(rec) -> str:
    if rec[0] == "text":
        return rec[3]
    if rec[0] == "cfggen":
        return F.render(rec[3])
    _, top, args, cs, ops, rets = rec
    body = [f"%k{i} = arith.constant {lit(t, c)}" + ("" if t == "i1" else f" : {t}") for i, (t, c) in enumerate(cs)]
    body += [render_op(rec, i) for i in range(len(ops))]
    if top:
        return "builtin.module {\n" + "".join(f"  {l}\n" for l in body) + "}"
    sig = ", ".join(f"%a{i}: {t}" for i, t in enumerate(args))
    rts = [ref_type(rec, r) for r in rets]
    out = "" if not rts else f" -> {rts[0]}" if len(rts) == 1 else " -> (" + ", ".join(rts) + ")"
    body.append("func.return" + ("" if not rets else " " + ", ".join("%" + r for r in rets) + " : " + ", ".join(rts)))
    return "builtin.module {\n  func.func @f(" + sig + ")" + out + " {\n" + "".join(f"    {l}\n" for l in body) + "  }\n}"


def op_label(op) -> str:
    name, var = op[0], op[1]
    k = op_kind(name)
    if k == "cmpi":
        return f"{name}|{CMPI[var]}"
    if k == "cmpf":
        return f"{name}|{CMPF[var]}"
    return name


def op_pattern(op) -> str:
    """operand pattern of one op: arg / const / res per operand, x,x when both value operands are the same value"""
    kinds = {"a": "arg", "k": "const", "r": "res"}
    opr = op[2]
    if not opr:
        return "()"
    if op_kind(op[0]) == "select":
        rest = "x,x" if opr[1] == opr[2] else f"{kinds[opr[1][0]]},{kinds[opr[2][0]]}"
        return f"({kinds[opr[0][0]]}?{rest})"
    if len(opr) == 2 and opr[0] == opr[1]:
        return "(x,x)"
    return "(" + ",".join(kinds[x[0]] for x in opr) + ")"


def window(rec, start: int, size: int, values: dict | None = None):
    """the sub-program made of ops[start:start+size]; results of earlier ops become fresh arguments, or -- when
    `values` maps them to bit patterns -- constants of that value"""
    _, top, args, cs, ops, rets = rec
    args = list(args)
    ren: dict[str, str] = {}
    new_ops = []
    new_cs: list = []
    kmap: dict[str, str] = {}

    def m(ref: str) -> str:
        if ref[0] == "a":
            return ref
        if ref[0] == "k":
            if ref not in kmap:
                new_cs.append(cs[int(ref[1:])])
                kmap[ref] = "k" + str(len(new_cs) - 1)
            return kmap[ref]
        j = int(ref[1:])
        if j >= start:
            return "r" + str(j - start)
        if ref not in ren:
            t = ops[j][3]
            if values is not None:
                v = values[ref]
                new_cs.append((t, v if is_float(t) else R.sview(v, twidth(t))))
                ren[ref] = "k" + str(len(new_cs) - 1)
            else:
                args.append(t)
                ren[ref] = "a" + str(len(args) - 1)
        return ren[ref]

    for name, var, opr, rt in ops[start:start + size]:
        new_ops.append((name, var, tuple(m(x) for x in opr), rt))
    keep = [r for r in rets if r[0] == "r" and start <= int(r[1:]) < start + size]
    last = [f"r{j}" for j in range(start + size - 1, start - 1, -1) if ops[j][3] is not None][:1]
    new_rets = tuple(m(r) for r in (keep or last))
    return ("sl", top, tuple(args), tuple(new_cs), tuple(new_ops), new_rets)


def earlier_values(rec, start: int, at_args) -> dict | None:
    """reference values of the results of ops[:start] on the input at_args (None when one is poison / opaque)"""
    _, top, args, cs, ops, rets = rec
    if top or at_args is None or len(at_args) != len(args):
        return None
    out = {}
    for j in range(start):
        if ops[j][3] is None or op_kind(ops[j][0]) == "opaque":
            return None
        try:
            P = Prog(("sl", False, args, cs, ops[:j + 1], (f"r{j}",)))
            r, _ = evaluate(P.mod, False, at_args)
        except Exception:  # noqa: BLE001
            return None
        if r is POISON:
            return None
        out[f"r{j}"] = r[0][1]
    return out


# ======================================================================================
# xDSL access
# ======================================================================================
_X: dict = {}


def X() -> dict:
    if _X:
        return _X
    from xdsl.context import Context
    from xdsl.dialects import arith, builtin, cf, func, scf, test
    from xdsl.ir import Operation
    from xdsl.parser import Parser
    from xdsl.transforms import get_all_passes

    from mc.canon import canon

    ctx = Context()
    for d in (builtin.Builtin, arith.Arith, func.Func, cf.Cf, scf.Scf, test.Test):
        ctx.load_dialect(d)
    allp = get_all_passes()
    passes = {}
    for p in PASSES:
        for n in p.split(","):
            if n not in passes:
                passes[n] = allp[n]()
    _X.update(ctx=ctx, Parser=Parser, passes=passes, canon=canon, Operation=Operation)
    return _X


class Prog:
    def __init__(self, rec):
        x = X()
        self.rec = rec
        self.top = rec[1]
        self.arg_types = tuple(rec[2])
        self.text = render(rec)
        self.mod = x["Parser"](x["ctx"], self.text).parse_module()
        self.mod.verify()
        self.key = x["canon"]([self.mod])
        self._before: dict = {}

    def inputs(self, big: bool) -> list[tuple]:
        if self.rec[0] == "cfggen":
            return F.inputs(self.rec[3])  # the family's own input box (same in both tiers)
        ex8 = big and len(self.arg_types) == 1
        return list(itertools.product(*[input_values(t, big, ex8) for t in self.arg_types]))

    def before(self, big: bool):
        """[(args, results, log)] for the inputs on which the original program is defined, #excluded"""
        if big not in self._before:
            out, excl = [], 0
            for a in self.inputs(big):
                r, log = evaluate(self.mod, self.top, a)
                if r is POISON:
                    excl += 1
                else:
                    out.append((a, r, log))
            self._before[big] = (out, excl)
        return self._before[big]


def evaluate(mod, top: bool, args) -> tuple:
    """reference semantics of a program: (results | POISON, effect log)"""
    if not top:
        try:
            return R.run_func(mod, list(args), "f", fuel=FUEL)
        except R.OutOfFuel:
            return POISON, []  # a loop longer than the step budget: the input is excluded like an undefined one
    m = R.Machine(fuel=FUEL)
    try:
        m.run_region(mod.body, [])
    except R.UndefinedBehaviour:
        return POISON, m.log
    if m.ambiguous:
        return POISON, m.log
    return (), m.log


def logs_equal(l1, l2) -> bool:
    if len(l1) != len(l2):
        return False
    for e1, e2 in zip(l1, l2):
        if e1[:2] != e2[:2] or len(e1) != len(e2):
            return False
        for p1, p2 in zip(e1[2:], e2[2:]):
            if isinstance(p1, tuple) and isinstance(p2, tuple) and len(p1) == len(p2) and all(
                    isinstance(v, tuple) and len(v) == 2 for v in p1 + p2):
                if not all(t1 == t2 and R.values_equal(t1, v1, v2) for (t1, v1), (t2, v2) in zip(p1, p2)):
                    return False
            elif p1 != p2:
                return False
    return True


def traceback_op(e: BaseException) -> str | None:
    """the op a rewrite pattern was working on when the pass raised (labelling of text programs only)"""
    Operation = X()["Operation"]
    tb = e.__traceback__
    found = None
    inner = None
    while tb is not None:
        f = tb.tb_frame
        for var in ("op", "rewrite_op"):
            o = f.f_locals.get(var)
            if isinstance(o, Operation) and o.name not in ("builtin.module", "func.func"):
                if found is None and f.f_code.co_name == "match_and_rewrite":
                    found = o.name
                inner = o.name
        tb = tb.tb_next
    return found or inner


def undominated_use(mod) -> str | None:
    """structural check (independent of execution, and of xDSL's verifier which has no dominance check): an
    operand defined by an op must be defined in a block that encloses the use, before the (ancestor of the)
    use in that block; uses inside multi-block regions of a definition in another block of the same region
    are left to the executions.  Returns a description of the first offending use."""
    for op in mod.walk():
        for i, v in enumerate(op.operands):
            d = getattr(v, "op", None)
            if d is None or d.name == "builtin.module":
                continue  # block argument
            dblock = d.parent_block()
            cur = op
            hit = None
            while cur is not None:
                b = cur.parent_block()
                if b is dblock:
                    hit = cur
                    break
                if b is not None and dblock is not None and b.parent_region() is dblock.parent_region():
                    hit = "cfg"
                    break
                cur = cur.parent_op()
            if hit == "cfg":
                continue
            if hit is None:
                return f"operand {i} of {op.name} is defined by {d.name} in a region that does not enclose the use"
            o = d
            while o is not None and o is not hit:
                o = o.next_op
            if o is None or d is hit:
                return f"operand {i} of {op.name} is used before its definition by {d.name}"
    return None


def erased_use(mod) -> str | None:
    """structural check, before anything is executed: every operand of every op of the module must be a value whose
    definition (op or block) is still part of the module -- a rewrite that removes a block / op and leaves a user
    behind fails here.  Returns a description of the first offending use."""
    for op in mod.walk():
        for i, v in enumerate(op.operands):
            if type(v).__name__ == "ErasedSSAValue":
                return f"operand {i} of {op.name} is an erased value"
            owner = v.owner
            hops = 0
            while owner is not None and owner is not mod and hops < 64:
                owner = owner.parent_op() if hasattr(owner, "parent_op") else None
                hops += 1
            if owner is not mod:
                kind = "block argument of a block" if type(v).__name__ == "BlockArgument" else f"result of {getattr(v.owner, 'name', '?')}"
                return f"operand {i} of {op.name} is a {kind} that is no longer in the module"
    return None


def run_pass(P: Prog, pass_name: str, big: bool, st: Stats | None = None) -> tuple[str, dict]:
    """-> (verdict, detail); verdict in unchanged / same / no-defined-input / raises|<Exc> / use-of-erased-value /
    does-not-verify / wrong-result / wrong-effects / introduces-poison / use-not-dominated / oracle-unsupported"""
    x = X()
    m = P.mod.clone()
    try:
        for n in pass_name.split(","):
            x["passes"][n]().apply(x["ctx"], m)
    except Exception as e:  # noqa: BLE001 - any exception escaping the pass is the observation
        msg = str(e).strip().splitlines()[0][:160] if str(e).strip() else ""
        return f"raises|{type(e).__name__}", {"exception": f"{type(e).__name__}: {msg}", "tb_op": traceback_op(e)}
    if x["canon"]([m]) == P.key:
        return "unchanged", {}
    try:
        after_text = str(m)
    except Exception as e:  # noqa: BLE001 - the printer gave up on the pass output; the checks below say why
        after_text = f"<unprintable: {type(e).__name__}>"
    gone = erased_use(m)
    if gone is not None:
        return "use-of-erased-value", {"after": after_text, "error": gone}
    try:
        m.verify()
    except Exception as e:  # noqa: BLE001
        return "does-not-verify", {"after": after_text, "verify_error": str(e).strip().splitlines()[0][:160]}
    bad_use = undominated_use(m)
    if bad_use is not None:
        return "use-not-dominated", {"after": after_text, "error": bad_use}
    defined, _ = P.before(big)
    if not defined:
        return "no-defined-input", {}
    for a, rb, lb in defined:
        if st is not None:
            st.evaluations += 1
        try:
            ra, la = evaluate(m, P.top, a)
        except R.Unsupported as e:
            return "oracle-unsupported", {"after": after_text, "error": str(e)[:160]}
        except R.RefsemError as e:
            # the reference machine met an operand whose definition was never executed on this path
            return "use-not-dominated", {"after": after_text, "args": list(a), "error": str(e)[:160]}
        if ra is POISON:
            return "introduces-poison", {"after": after_text, "args": list(a), "expected": _res_json(rb), "got": "POISON"}
        if not R.results_equal(rb, ra):
            return "wrong-result", {"after": after_text, "args": list(a), "expected": _res_json(rb), "got": _res_json(ra)}
        if not logs_equal(lb, la):
            return "wrong-effects", {"after": after_text, "args": list(a), "expected_log": repr(lb)[:300], "got_log": repr(la)[:300]}
    return "same", {}


def _res_json(r):
    return [[t, (hex(v) if isinstance(v, int) else repr(v))] for t, v in r]


BAD = ("raises", "use-of-erased-value", "does-not-verify", "wrong-result", "wrong-effects", "introduces-poison", "use-not-dominated")


def is_bad(verdict: str) -> bool:
    return verdict.split("|")[0] in BAD


def blame(rec, pass_name: str, verdict: str, big: bool, max_size: int | None = None, at_args=None):
    """(op label, operand pattern) of the smallest contiguous window of a straight-line program that shows
    the same failure kind under the same pass (None when max_size is given and no such window exists).
    A window is tried with the results of earlier ops as fresh arguments and, when the failing input is known,
    as the constants they evaluate to (a fold of the second op that needs the first to have been folded)."""
    ops = rec[4]
    n = len(ops)
    for size in range(1, n if max_size is None else min(n, max_size + 1)):
        for start in range(0, n - size + 1):
            if all(op_kind(o[0]) == "opaque" for o in ops[start:start + size]):
                continue
            variants = [None]
            if start > 0 and (vals := earlier_values(rec, start, at_args)) is not None:
                variants.append(vals)
            for vals in variants:
                try:
                    w = window(rec, start, size, vals)
                    v, _ = run_pass(Prog(w), pass_name, False)
                except Exception:  # noqa: BLE001 - a window that is not a valid program cannot be blamed
                    continue
                if v == verdict:
                    return _labels(w[4]) + (w,)  # patterns as the window shows them
    return _labels(ops) + (None,) if max_size is None else None


def _labels(ops) -> tuple[str, str]:
    ops = [o for o in ops if op_kind(o[0]) != "opaque"] or list(ops)
    if len(ops) == 1:
        return op_label(ops[0]), op_pattern(ops[0])
    return "->".join(op_label(o).replace("|", ":") for o in ops), "->".join(op_pattern(o) for o in ops)


def signature(rec, pass_name: str, verdict: str, detail: dict, big: bool) -> str:
    kind = verdict.split("|")[0]
    if kind == "raises" and detail.get("tb_op"):
        # the op the rewrite pattern was applied to when the exception escaped
        return f"C14|{pass_name}|{verdict}|{detail['tb_op']}"
    win = None
    if rec[0] == "text":
        label, pat = rec[4], rec[5]
    elif rec[0] == "cfggen":
        label, pat = F.label(rec[3])
    elif rec[0] == "pair":
        base = ("sl",) + tuple(rec[1:6])
        label, pat, win = blame(base, pass_name, verdict, big, max_size=1, at_args=detail.get("args")) or (rec[6], rec[7], None)
    else:
        label, pat, win = blame(rec, pass_name, verdict, big, at_args=detail.get("args"))
    if win is not None and "," in pass_name:
        # the blamed window fails under one pass of the pipeline on its own: that pass's finding
        for n in dict.fromkeys(pass_name.split(",")):
            try:
                if run_pass(Prog(win), n, False)[0] == verdict:
                    pass_name = n
                    break
            except Exception:  # noqa: BLE001
                pass
    if kind == "raises":
        return f"C14|{pass_name}|{verdict}|{label.split('|')[0]}"
    return f"C14|{pass_name}|{label}|{pat}|{kind}"


def check_program(st: Stats, rec, big: bool, passes=PASSES, sample: bool = False) -> None:
    """one program through every pass"""
    base = rec if rec[0] != "pair" else ("sl",) + tuple(rec[1:6])
    try:
        P = Prog(base)
    except Exception as e:  # noqa: BLE001 - the dialect does not accept this combination: not a program
        st.bump("generated_programs_rejected_by_parser_or_verifier")
        st.outcomes[f"rejected:{type(e).__name__}"] += 1
        return
    st.states += 1
    changed = False
    verdicts: dict[str, str] = {}
    for p in passes:
        st.transitions += 1
        st.executions += 1
        verdict, detail = run_pass(P, p, big, st)
        verdicts[p] = verdict
        st.outcomes[f"{p}:{verdict.split('|')[0]}"] += 1
        if verdict in ("same", "wrong-result", "wrong-effects", "introduces-poison", "use-not-dominated"):
            changed = True
        if verdict == "oracle-unsupported":
            st.cap(f"refsem cannot execute the output of {p}: {detail.get('error')}")
        if not is_bad(verdict):
            continue
        if "," in p:
            # a pipeline failure that one of its passes shows on its own is that pass's finding, not a new one
            for n in dict.fromkeys(p.split(",")):
                if n not in verdicts:
                    verdicts[n] = run_pass(P, n, big)[0]
            if any(verdicts[n] == verdict for n in p.split(",")):
                st.bump("pipeline_failures_already_shown_by_a_single_pass")
                continue
        sig = signature(rec, p, verdict, detail, big)
        if sig in st.violations:
            st.violations[sig]["count"] += 1
            continue
        what = {"raises": f"{p} raised {detail.get('exception')} on a verified program",
                "does-not-verify": f"the output of {p} does not verify: {detail.get('verify_error')}",
                "use-of-erased-value": f"after {p} an op uses a value whose definition was removed: {detail.get('error')}",
                "wrong-result": f"after {p} the program returns {detail.get('got')} on input {detail.get('args')}, MLIR semantics of the original give {detail.get('expected')}",
                "wrong-effects": f"after {p} the effect log differs on input {detail.get('args')}",
                "use-not-dominated": f"after {p} a value is used where its definition does not dominate it: {detail.get('error')}",
                "introduces-poison": f"after {p} the program is poison / UB on input {detail.get('args')} where the original is defined",
                }[verdict.split("|")[0]]
        st.violate(sig, what, {"program": P.text, "rec": _rec_json(rec), "pass": p, "verdict": verdict, "big": big, **detail})
    if changed:
        st.nontrivial += 1
    if sample:
        st.sample({"program": P.text, "inputs": len(P.inputs(big))})


def _rec_json(rec):
    return _to_list(rec)


def _to_list(x):
    if isinstance(x, (tuple, list)):
        return [_to_list(y) for y in x]
    return x


def _to_tuple(x):
    if isinstance(x, list):
        return tuple(_to_tuple(y) for y in x)
    return x


# ======================================================================================
# generator tree
# ======================================================================================
def SL(args, cs, ops, rets, top=False):
    return ("sl", top, tuple(args), tuple(cs), tuple(ops), tuple(rets))


def binary_sigs(t: str) -> list[tuple]:
    """(name, variant, operand types, result type) of every two-operand op on type t"""
    if is_float(t):
        return [(f"arith.{n}", None, (t, t), t) for n in FBIN] + [("arith.cmpf", p, (t, t), "i1") for p in range(16)]
    return [(f"arith.{n}", None, (t, t), t) for n in IBIN] + [("arith.cmpi", p, (t, t), "i1") for p in range(10)]


def gen_single_binary(sig, level: int):
    name, var, (t, _), rt = sig
    cs = consts(t, level)
    yield SL((t, t), (), [(name, var, ("a0", "a1"), rt)], ("r0",))
    yield SL((t,), (), [(name, var, ("a0", "a0"), rt)], ("r0",))
    for c in cs:
        yield SL((t,), ((t, c),), [(name, var, ("a0", "k0"), rt)], ("r0",))
        yield SL((t,), ((t, c),), [(name, var, ("k0", "a0"), rt)], ("r0",))
        yield SL((), ((t, c),), [(name, var, ("k0", "k0"), rt)], ("r0",))
        for d in cs:
            yield SL((), ((t, c), (t, d)), [(name, var, ("k0", "k1"), rt)], ("r0",))


def gen_single_select(t: str, level: int):
    cs = consts(t, level)
    for cond in ("arg", 0, 1):
        if cond == "arg":
            a, k, c, base = ["i1"], [], "a0", 1
        else:
            a, k, c, base = [], [("i1", cond)], "k0", 0
        nk = len(k)

        def mk(extra_args, extra_consts, x, y):
            return SL(a + extra_args, k + extra_consts, [("arith.select", None, (c, x, y), t)], ("r0",))
        a0, a1 = f"a{base}", f"a{base + 1}"
        k0, k1 = f"k{nk}", f"k{nk + 1}"
        if base + 2 <= 2 or cond != "arg":
            yield mk([t, t], [], a0, a1)
        yield mk([t], [], a0, a0)
        for cv in cs:
            yield mk([t], [(t, cv)], a0, k0)
            yield mk([t], [(t, cv)], k0, a0)
            yield mk([], [(t, cv)], k0, k0)
            for dv in cs:
                yield mk([], [(t, cv), (t, dv)], k0, k1)
    # the one 3-argument shape the family needs: variable condition, two different arguments
    yield SL(("i1", t, t), (), [("arith.select", None, ("a0", "a1", "a2"), t)], ("r0",))


def cast_sigs() -> list[tuple]:
    out = []
    for s, d in EXT_PAIRS:
        out += [("arith.extsi", None, (s,), d), ("arith.extui", None, (s,), d), ("arith.trunci", None, (d,), s)]
    for s in IDX_PAIRS:
        out += [("arith.index_cast", None, (s,), "index"), ("arith.index_cast", None, ("index",), s)]
    return out


def gen_single_unary(sig, level: int):
    name, var, (s,), d = sig
    yield SL((s,), (), [(name, var, ("a0",), d)], ("r0",))
    for c in consts(s, level):
        yield SL((), ((s, c),), [(name, var, ("k0",), d)], ("r0",))


def gen_constants(level: int):
    for t in INT_TYPES + FLOAT_TYPES:
        for c in consts(t, level):
            yield SL((), ((t, c),), [], ("k0",))


def fill_slots(rec_args: list, slot_types, fixed: dict, res_refs: list, level: int, max_args: int = 2, prior_ks=()):
    """all ways to fill the free operand slots of an op: an argument (the first one of that type this op does not
    use yet, a fresh one while fewer than max_args exist, or -- for x,x shapes -- one it already uses), a
    constant of the boundary set `level`, or an earlier result of the slot's type.
    yields (args, new consts [(t, c)], operands with constants written as ('K', j))"""
    n = len(slot_types)

    def rec(i: int, args: list, ks: list, cur: list, used_args: list):
        if i == n:
            yield list(args), list(ks), list(cur)
            return
        if i in fixed:
            yield from rec(i + 1, args, ks, cur + [fixed[i]], used_args)
            return
        t = slot_types[i]
        cands = [f"a{j}" for j, at in enumerate(args) if at == t]
        unused = [c for c in cands if c not in used_args]
        if unused:
            yield from rec(i + 1, args, ks, cur + [unused[0]], used_args + [unused[0]])
        elif len(args) < max_args:
            c = f"a{len(args)}"
            yield from rec(i + 1, args + [t], ks, cur + [c], used_args + [c])
        used = [c for c in cands if c in used_args]
        if used:
            yield from rec(i + 1, args, ks, cur + [used[0]], used_args)
        for cv in consts(t, level):
            yield from rec(i + 1, args, ks + [(t, cv)], cur + [("K", len(ks))], used_args)
        for r, rt in list(res_refs) + list(prior_ks):  # an earlier result, or the very constant an earlier op used
            if rt == t:
                yield from rec(i + 1, args, ks, cur + [r], used_args)

    yield from rec(0, list(rec_args), [], [], [])


def first_ops(sig, level: int, all_const_level: int | None):
    """(args, consts, op) for the first op of a chain: operands from arguments and constants; shapes whose
    operands are all constants use the (smaller) constant set all_const_level, None = no such shapes"""
    name, var, sts, rt = sig
    level = -1 if name == "arith.select" else level  # a select in a chain only moves values: two constants per slot
    for args, ks, cur in fill_slots([], sts, {}, [], level):
        opr = tuple(f"k{x[1]}" if isinstance(x, tuple) else x for x in cur)
        if all(o[0] == "k" for o in opr):
            if all_const_level is None or any(c not in consts(t, all_const_level) for t, c in ks):
                continue
        yield args, ks, (name, var, opr, rt)


def next_ops(sig, args, ks, res_refs, consume: str, level: int):
    """every way to append an op with signature sig that consumes the result `consume` in some slot"""
    name, var, sts, rt = sig
    level = -1 if name == "arith.select" else level
    ctype = dict(res_refs)[consume]
    seen = set()
    for p, t in enumerate(sts):
        if t != ctype:
            continue
        prior = [(f"k{j}", kt) for j, (kt, _) in enumerate(ks)]
        for a2, k2, cur in fill_slots(args, sts, {p: consume}, res_refs, level, prior_ks=prior):
            opr = tuple(f"k{len(ks) + x[1]}" if isinstance(x, tuple) else x for x in cur)
            key = (tuple(a2), tuple(k2), opr)
            if key in seen:
                continue
            seen.add(key)
            yield a2, list(ks) + k2, (name, var, opr, rt)


def other_sigs(t: str) -> list[tuple]:
    """non-binary ops that can sit in a chain over base type t"""
    if is_float(t):
        return [("arith.negf", None, (t,), t), ("arith.select", None, ("i1", t, t), t)]
    out = [("arith.select", None, ("i1", t, t), t)]
    if t != "i1":
        out += [(f"arith.{n}", None, ("i1", "i1"), "i1") for n in ("xori", "andi", "ori")]
        out += [("arith.cmpi", p, ("i1", "i1"), "i1") for p in (0, 1)]
        out += [("arith.select", None, ("i1", "i1", "i1"), "i1")]
    out += [s for s in cast_sigs() if t in s[2] or s[3] == t]
    return out


def chain_plan(quick: bool) -> list[tuple]:
    """[(base type, first-op signature, second-op signatures, constant level, all-constant first-op level | None)]"""
    plan = []
    if quick:
        t = "i8"
        red = [(f"arith.{n}", None, (t, t), t) for n in IBIN3]
        cmps = [s for s in binary_sigs(t) if s[0] == "arith.cmpi"]
        oth = other_sigs(t)
        for s in red:
            plan.append((t, s, red, 0, None))
        for s in cmps:
            plan.append((t, s, oth, 0, None))
        t = "f32"
        arith_f = [(f"arith.{n}", None, (t, t), t) for n in ("addf", "subf", "mulf", "divf")] + [("arith.negf", None, (t,), t)]
        for s in arith_f:
            plan.append((t, s, arith_f, 0, None))
        for s in [s for s in binary_sigs(t) if s[0] == "arith.cmpf"]:
            plan.append((t, s, [("arith.select", None, ("i1", t, t), t)], 0, None))
        return plan
    for t in INT_TYPES + FLOAT_TYPES:
        if t in ("i8", "f32"):  # everything, the small constant set, all-constant first ops
            sigs = binary_sigs(t) + other_sigs(t)
            for s in sigs:
                plan.append((t, s, sigs, 1, 0))
        else:                   # two-operand ops (+ negf) only, the tiny constant set
            sigs = binary_sigs(t) + ([("arith.negf", None, (t,), t)] if is_float(t) else [])
            for s in sigs:
                plan.append((t, s, sigs, 0, None))
    return plan


def gen_chain2(entry):
    t, sigA, sigsB, level, acl = entry
    for args, ks, opA in first_ops(sigA, level, acl):
        res = [("r0", opA[3])]
        for sigB in sigsB:
            for a2, k2, opB in next_ops(sigB, args, ks, res, "r0", level):
                yield SL(a2, k2, [opA, opB], ("r1",))


def gen_chain3(sigA, sigB, sigsC, level: int):
    for args, ks, opA in first_ops(sigA, level, None):
        r0 = [("r0", opA[3])]
        for a2, k2, opB in next_ops(sigB, args, ks, r0, "r0", level):
            r01 = r0 + [("r1", opB[3])]
            for sigC in sigsC:
                for a3, k3, opC in next_ops(sigC, a2, k2, r01, "r1", level):
                    yield SL(a3, k3, [opA, opB, opC], ("r2",))


def PAIR(args, cs, ops, rets, label: str, differ: str):
    return ("pair", False, tuple(args), tuple(cs), tuple(ops), tuple(rets), label, "differ:" + differ)


def gen_pairs(t: str, level: int):
    """two ops over the same operands, both returned: what CSE may (identical) or must not (anything differs) merge"""
    sigs = binary_sigs(t)
    for (n1, v1, _, r1), (n2, v2, _, r2) in itertools.product(sigs, sigs):
        if (n1 in ("arith.cmpi", "arith.cmpf")) != (n2 in ("arith.cmpi", "arith.cmpf")):
            continue
        differ = "none" if (n1, v1) == (n2, v2) else "predicate" if n1 == n2 else "op-name"
        lab = f"{n1}+{n2}"
        yield PAIR((t, t), (), [(n1, v1, ("a0", "a1"), r1), (n2, v2, ("a0", "a1"), r2)], ("r0", "r1"), lab, differ)
        if differ == "none":
            yield PAIR((t, t), (), [(n1, v1, ("a0", "a1"), r1), (n2, v2, ("a1", "a0"), r2)], ("r0", "r1"), lab, "operand-order")
            for c in consts(t, 0):
                yield PAIR((t,), ((t, c), (t, c)), [(n1, v1, ("a0", "k0"), r1), (n2, v2, ("a0", "k1"), r2)], ("r0", "r1"), lab,
                           "none-equal-constants")
    if not is_float(t):
        for n in FLAGGED:
            for f1, f2 in itertools.product((None, "nsw", "nuw"), repeat=2):
                if f1 != f2:
                    yield PAIR((t, t), (), [(f"arith.{n}", f1, ("a0", "a1"), t), (f"arith.{n}", f2, ("a0", "a1"), t)], ("r0", "r1"),
                               f"arith.{n}+arith.{n}", "overflow-flags")
    cs = consts(t, level)
    for c, d in itertools.product(cs, cs):
        yield PAIR((), ((t, c), (t, d)), [], ("k0", "k1"), "arith.constant+arith.constant", "none" if c == d else "value")
    # opaque producers must stay two
    yield PAIR((t,), (), [("test.op", None, ("a0",), t), ("test.op", None, ("a0",), t)], ("r0", "r1"), "test.op+test.op", "none")


def gen_pairs_cross():
    for (s, d1), (s2, d2) in itertools.product(EXT_PAIRS, EXT_PAIRS):
        if s != s2:
            continue
        for n1, n2 in itertools.product(("arith.extsi", "arith.extui"), repeat=2):
            differ = "none" if (n1, d1) == (n2, d2) else "result-type" if n1 == n2 else "op-name"
            yield PAIR((s,), (), [(n1, None, ("a0",), d1), (n2, None, ("a0",), d2)], ("r0", "r1"), f"{n1}+{n2}", differ)
    # constants of different types with the same literal
    for t1, t2 in itertools.combinations(INT_TYPES[1:], 2):
        for c in (0, 1, -1):
            yield PAIR((), ((t1, c), (t2, c)), [], ("k0", "k1"), "arith.constant+arith.constant", "type")
    for c32, c64 in zip(float_consts("f32", 0), float_consts("f64", 0)):
        yield PAIR((), (("f32", c32), ("f64", c64)), [], ("k0", "k1"), "arith.constant+arith.constant", "type")


def gen_dead(t: str):
    for name, var, sts, rt in binary_sigs(t):
        yield SL((t, t), (), [(name, var, ("a0", "a1"), rt)], ("a0",))
        for c in consts(t, 0):
            yield SL((t,), ((t, c),), [(name, var, ("a0", "k0"), rt)], ("a0",))
            yield SL((t,), ((t, c), (t, c)), [(name, var, ("k1", "k0"), rt)], ("a0",))


def gen_top(t: str, level: int):
    """ops directly in the module body, result consumed by an opaque op"""
    cs = consts(t, level)
    names = IBIN if t == "i8" else ("addi", "subi", "muli", "divui")
    for n in names:
        for c, d in itertools.product(cs, cs):
            yield SL((), ((t, c), (t, d)), [(f"arith.{n}", None, ("k0", "k1"), t), ("test.op", None, ("r0",), None)], (), top=True)
        for c in cs:
            yield SL((), ((t, c),), [("test.op", None, (), t), (f"arith.{n}", None, ("r0", "k0"), t), ("test.op", None, ("r1",), None)],
                     (), top=True)
            yield SL((), ((t, c),), [("test.op", None, (), t), (f"arith.{n}", None, ("k0", "r0"), t), ("test.op", None, ("r1",), None)],
                     (), top=True)
    # a chain of two additions of constants: the second fold works on the constant the first created
    for c, d, e in itertools.product(consts(t, 0), repeat=3):
        yield SL((), ((t, c), (t, d), (t, e)),
                 [("arith.addi", None, ("k0", "k1"), t), ("arith.addi", None, ("r0", "k2"), t), ("test.op", None, ("r1",), None)], (), top=True)


# ---- control-flow shapes (text templates) --------------------------------------------------------
def _T(args, text: str, construct: str, variant: str):
    return ("text", False, tuple(args), "builtin.module {\n" + text.strip("\n") + "\n}", construct, variant)


def gen_cfg(t: str):
    """fixed family of cf / scf shapes over base integer type t; inner ops take arguments (and benign constants)
    so that only the control-flow rewrites are exercised here"""
    one = "true" if t == "i1" else "1"
    ty = "" if t == "i1" else f" : {t}"
    inner = [("arith.addi %a, %b", "arith.subi %a, %b"), ("arith.addi %a, %b", "arith.addi %a, %b"),
             ("arith.muli %a, %k", "arith.xori %b, %k"), ("arith.andi %a, %a", "arith.ori %b, %b")]
    conds = [("arg", "", "%c: i1, "), ("true", "    %c = arith.constant true\n", ""), ("false", "    %c = arith.constant false\n", "")]
    for cname, cdef, carg in conds:
        cargs = (["i1"] if carg else []) + [t, t]
        for x, y in inner:
            same = "identical-branches" if x == y else "different-branches"
            yield _T(cargs, f"""
  func.func @f({carg}%a: {t}, %b: {t}) -> {t} {{
{cdef}    %k = arith.constant {one}{ty}
    cf.cond_br %c, ^t, ^e
  ^t:
    %x = {x} : {t}
    cf.br ^m(%x : {t})
  ^e:
    %y = {y} : {t}
    cf.br ^m(%y : {t})
  ^m(%r: {t}):
    func.return %r : {t}
  }}""", "cf.cond_br", f"diamond:{cname}-cond:{same}")
            yield _T(cargs, f"""
  func.func @f({carg}%a: {t}, %b: {t}) -> {t} {{
{cdef}    %k = arith.constant {one}{ty}
    %r = scf.if %c -> ({t}) {{
      %x = {x} : {t}
      scf.yield %x : {t}
    }} else {{
      %y = {y} : {t}
      scf.yield %y : {t}
    }}
    func.return %r : {t}
  }}""", "scf.if", f"yielding:{cname}-cond:{same}")
            yield _T(cargs, f"""
  func.func @f({carg}%a: {t}, %b: {t}) -> ({t}, {t}) {{
{cdef}    %k = arith.constant {one}{ty}
    %r = scf.if %c -> ({t}) {{
      %x = {x} : {t}
      scf.yield %x : {t}
    }} else {{
      %y = {y} : {t}
      scf.yield %y : {t}
    }}
    %s = scf.if %c -> ({t}) {{
      %x = {x} : {t}
      scf.yield %x : {t}
    }} else {{
      %y = {y} : {t}
      scf.yield %y : {t}
    }}
    func.return %r, %s : {t}, {t}
  }}""", "scf.if", f"two-equal-ifs:{cname}-cond:{same}")
            yield _T(cargs, f"""
  func.func @f({carg}%a: {t}, %b: {t}) -> {t} {{
{cdef}    %k = arith.constant {one}{ty}
    %x = {x} : {t}
    %y = {y} : {t}
    cf.cond_br %c, ^m(%x : {t}), ^m(%y : {t})
  ^m(%r: {t}):
    func.return %r : {t}
  }}""", "cf.cond_br", f"same-successor:{cname}-cond:{same}")
        # the same pure expression in both branches (and before the if): CSE may reuse the outer value, never the
        # value of the other branch
        yield _T(cargs, f"""
  func.func @f({carg}%a: {t}, %b: {t}) -> {t} {{
{cdef}    %r = scf.if %c -> ({t}) {{
      %x = arith.muli %a, %b : {t}
      %x2 = arith.addi %x, %a : {t}
      scf.yield %x2 : {t}
    }} else {{
      %y = arith.muli %a, %b : {t}
      %y2 = arith.subi %y, %b : {t}
      scf.yield %y2 : {t}
    }}
    func.return %r : {t}
  }}""", "scf.if", f"same-expression-in-both-branches:{cname}-cond")
        yield _T(cargs, f"""
  func.func @f({carg}%a: {t}, %b: {t}) -> ({t}, {t}) {{
{cdef}    %o = arith.muli %a, %b : {t}
    %r = scf.if %c -> ({t}) {{
      %x = arith.muli %a, %b : {t}
      %x2 = arith.xori %x, %a : {t}
      scf.yield %x2 : {t}
    }} else {{
      %y = arith.muli %a, %b : {t}
      %y2 = arith.xori %y, %a : {t}
      scf.yield %y2 : {t}
    }}
    func.return %r, %o : {t}, {t}
  }}""", "scf.if", f"same-expression-outside-and-in-both-branches:{cname}-cond")
        # pass-through blocks
        yield _T(cargs, f"""
  func.func @f({carg}%a: {t}, %b: {t}) -> {t} {{
{cdef}    cf.cond_br %c, ^p, ^q
  ^p:
    cf.br ^m(%a : {t})
  ^q:
    cf.br ^m(%b : {t})
  ^m(%r: {t}):
    func.return %r : {t}
  }}""", "cf.cond_br", f"pass-through:{cname}-cond")
        # the condition is used inside the branches (truth propagation)
        yield _T(cargs, f"""
  func.func @f({carg}%a: {t}, %b: {t}) -> {t} {{
{cdef}    cf.cond_br %c, ^t, ^e
  ^t:
    %x = arith.select %c, %a, %b : {t}
    func.return %x : {t}
  ^e:
    %y = arith.select %c, %a, %b : {t}
    func.return %y : {t}
  }}""", "cf.cond_br", f"cond-used-in-branches:{cname}-cond")
        yield _T(cargs, f"""
  func.func @f({carg}%a: {t}, %b: {t}) -> {t} {{
{cdef}    cf.cond_br %c, ^t, ^t
  ^t:
    %x = arith.select %c, %a, %b : {t}
    func.return %x : {t}
  }}""", "cf.cond_br", f"same-block-cond-used:{cname}-cond")
        yield _T(cargs, f"""
  func.func @f({carg}%a: {t}, %b: {t}) -> {t} {{
{cdef}    cf.cond_br %c, ^t, ^e
  ^t:
    %x = arith.select %c, %a, %b : {t}
    cf.br ^e
  ^e:
    %y = arith.select %c, %b, %a : {t}
    func.return %y : {t}
  }}""", "cf.cond_br", f"fallthrough-cond-used:{cname}-cond")
        # effects inside branches
        yield _T(cargs, f"""
  func.func @f({carg}%a: {t}, %b: {t}) -> {t} {{
{cdef}    scf.if %c {{
      "test.op"(%a) : ({t}) -> ()
    }}
    scf.if %c {{
      "test.op"(%b) : ({t}) -> ()
    }} else {{
      "test.op"(%a, %b) : ({t}, {t}) -> ()
    }}
    func.return %a : {t}
  }}""", "scf.if", f"effects:{cname}-cond")
        yield _T(cargs, f"""
  func.func @f({carg}%a: {t}, %b: {t}) -> {t} {{
{cdef}    cf.cond_br %c, ^t, ^e
  ^t:
    "test.op"(%a) : ({t}) -> ()
    cf.br ^m
  ^e:
    "test.op"(%b) : ({t}) -> ()
    cf.br ^m
  ^m:
    "test.op"() : () -> ()
    func.return %a : {t}
  }}""", "cf.cond_br", f"effects:{cname}-cond")
        # an op that is UB only in the branch not taken / guarded by the condition
        if t != "i1":
            for dv in ("divui", "divsi", "remui", "remsi", "floordivsi", "ceildivsi", "ceildivui"):
                yield _T(cargs, f"""
  func.func @f({carg}%a: {t}, %b: {t}) -> {t} {{
{cdef}    %z = arith.constant 0 : {t}
    %o = arith.constant 1 : {t}
    %r = scf.if %c -> ({t}) {{
      %x = arith.{dv} %o, %z : {t}
      scf.yield %x : {t}
    }} else {{
      scf.yield %a : {t}
    }}
    func.return %r : {t}
  }}""", "scf.if", f"guarded-{dv}-by-zero:{cname}-cond")
    # execute_region
    yield _T([t, t], f"""
  func.func @f(%a: {t}, %b: {t}) -> {t} {{
    %r = scf.execute_region -> ({t}) {{
      %x = arith.addi %a, %b : {t}
      scf.yield %x : {t}
    }}
    func.return %r : {t}
  }}""", "scf.execute_region", "single-block")
    # switches
    if t not in ("i1", "index"):
        for fname, fdef, farg in (("arg", "", f"%f: {t}, "), ("const0", f"    %f = arith.constant 0 : {t}\n", ""),
                                  ("const1", f"    %f = arith.constant 1 : {t}\n", ""),
                                  ("const-1", f"    %f = arith.constant -1 : {t}\n", ""), ("const7", f"    %f = arith.constant 7 : {t}\n", "")):
            fargs = ([t] if farg else []) + [t, t]
            yield _T(fargs, f"""
  func.func @f({farg}%a: {t}, %b: {t}) -> {t} {{
{fdef}    cf.switch %f : {t}, [
      default: ^d(%a : {t}),
      0: ^d(%b : {t}),
      1: ^x,
      -1: ^d(%a : {t})
    ]
  ^d(%r: {t}):
    func.return %r : {t}
  ^x:
    %s = arith.subi %a, %b : {t}
    func.return %s : {t}
  }}""", "cf.switch", f"cases:{fname}-flag")
            yield _T(fargs, f"""
  func.func @f({farg}%a: {t}, %b: {t}) -> {t} {{
{fdef}    cf.switch %f : {t}, [
      default: ^p,
      0: ^q,
      1: ^p
    ]
  ^p:
    cf.br ^m(%a : {t})
  ^q:
    cf.br ^m(%b : {t})
  ^m(%r: {t}):
    func.return %r : {t}
  }}""", "cf.switch", f"pass-through:{fname}-flag")
            yield _T(fargs, f"""
  func.func @f({farg}%a: {t}, %b: {t}) -> {t} {{
{fdef}    cf.switch %f : {t}, [
      default: ^d,
      0: ^n,
      1: ^d
    ]
  ^n:
    cf.switch %f : {t}, [
      default: ^d,
      0: ^y,
      1: ^d
    ]
  ^y:
    func.return %b : {t}
  ^d:
    func.return %a : {t}
  }}""", "cf.switch", f"nested-same-flag:{fname}-flag")


def gen_while():
    """scf.while: the before and the after region compute the same pure expression"""
    for t in ("i8", "index"):
        for lim in (0, 1, 3):
            yield _T([t, t], f"""
  func.func @f(%a: {t}, %b: {t}) -> {t} {{
    %lim = arith.constant {lim} : {t}
    %one = arith.constant 1 : {t}
    %zero = arith.constant 0 : {t}
    %r:2 = scf.while (%i = %zero, %acc = %a) : ({t}, {t}) -> ({t}, {t}) {{
      %e = arith.muli %acc, %b : {t}
      %c = arith.cmpi ult, %i, %lim : {t}
      scf.condition(%c) %i, %e : {t}, {t}
    }} do {{
    ^bb0(%j: {t}, %v: {t}):
      %e2 = arith.muli %v, %b : {t}
      %j1 = arith.addi %j, %one : {t}
      scf.yield %j1, %e2 : {t}, {t}
    }}
    func.return %r#1 : {t}
  }}""", "scf.while", "same-expression-in-both-regions")
            yield _T([t, t], f"""
  func.func @f(%a: {t}, %b: {t}) -> {t} {{
    %lim = arith.constant {lim} : {t}
    %one = arith.constant 1 : {t}
    %zero = arith.constant 0 : {t}
    %r:2 = scf.while (%i = %zero, %acc = %a) : ({t}, {t}) -> ({t}, {t}) {{
      %e = arith.muli %a, %b : {t}
      %s = arith.addi %acc, %e : {t}
      %c = arith.cmpi ult, %i, %lim : {t}
      scf.condition(%c) %i, %s : {t}, {t}
    }} do {{
    ^bb0(%j: {t}, %v: {t}):
      %e2 = arith.muli %a, %b : {t}
      %s2 = arith.xori %v, %e2 : {t}
      %j1 = arith.addi %j, %one : {t}
      scf.yield %j1, %s2 : {t}, {t}
    }}
    func.return %r#1 : {t}
  }}""", "scf.while", "same-outer-expression-in-both-regions")


def gen_loops():
    """scf.for with constant bounds (trivial-loop removal, constant hoisting)"""
    for t in ("index", "i8"):
        w = twidth(t)
        lo, hi = -(1 << (w - 1)), (1 << (w - 1)) - 1
        tyspec = "" if t == "index" else f" : {t}"
        bounds = [0, 1, 2, -1, lo, hi]
        for lb, ub, step in itertools.product(bounds, bounds, (1, 2, 3, hi)):
            yield _T([t], f"""
  func.func @f(%a: {t}) -> ({t}, {t}) {{
    %lb = arith.constant {lb} : {t}
    %ub = arith.constant {ub} : {t}
    %st = arith.constant {step} : {t}
    %r:2 = scf.for %i = %lb to %ub step %st iter_args(%acc = %a, %n = %lb) -> ({t}, {t}){tyspec} {{
      %one = arith.constant 1 : {t}
      %s = arith.addi %acc, %i : {t}
      %m = arith.addi %n, %one : {t}
      scf.yield %s, %m : {t}, {t}
    }}
    func.return %r#0, %r#1 : {t}, {t}
  }}""", "scf.for", "constant-bounds")
        for ub in (0, 1, 2, 3):
            yield _T([t, t], f"""
  func.func @f(%a: {t}, %lb: {t}) -> {t} {{
    %ub = arith.constant {ub} : {t}
    %st = arith.constant 1 : {t}
    %r = scf.for %i = %lb to %ub step %st iter_args(%acc = %a) -> ({t}){tyspec} {{
      %k = arith.constant 3 : {t}
      %s = arith.muli %acc, %k : {t}
      "test.op"(%i) : ({t}) -> ()
      scf.yield %s : {t}
    }}
    func.return %r : {t}
  }}""", "scf.for", "variable-lower-bound")


# ======================================================================================
# task enumeration
# ======================================================================================
def tasks_for(quick: bool) -> list[tuple]:
    tasks: list[tuple] = []
    for t in INT_TYPES + FLOAT_TYPES:
        for i in range(len(binary_sigs(t))):
            tasks.append(("single-binary", t, i))
        tasks.append(("single-select", t))
        tasks.append(("pairs", t))
        tasks.append(("dead", t))
    tasks.append(("single-unary",))
    tasks.append(("constants",))
    tasks.append(("pairs-cross",))
    for t in INT_TYPES:
        tasks.append(("cfg", t))
    tasks.append(("while",))
    tasks.append(("loops", 0))
    tasks.append(("loops", 1))
    for t in INT_TYPES:
        tasks.append(("top", t))
    for n, tkind, max_args, max_extras, sels, shards in cfggen_plan(quick):
        for k in range(shards):
            tasks.append(("cfggen", n, tkind, max_args, max_extras, sels, k, shards))
    for i in range(len(chain_plan(quick))):
        tasks.append(("chain2", i))
    if not quick:
        for i in range(len(IBIN4)):
            for j in range(len(IBIN4)):
                tasks.append(("chain3", "i8", i, j))
    return tasks


def cfggen_plan(quick: bool) -> list[tuple]:
    """[(blocks n, entry terminator, max total block arguments, max extra uses per use block, selector variants, shards)]
    of the generated cf CFG family (mc/cfgfam.py); every row is enumerated completely"""
    if quick:
        return [(3, "br", 3, 2, ("none",), 1), (3, "cond", 3, 2, ("arg",), 2), (3, "sw1", 2, 2, ("arg",), 1),
                (3, "sw2", 2, 2, ("arg",), 2), (3, "cond", 2, 2, ("c1", "c0"), 1),
                (4, "br", 2, 2, ("none",), 1), (4, "cond", 2, 2, ("arg",), 6), (4, "sw1", 2, 2, ("arg",), 6)]
    return [(3, tk, 3, 2, F.SELS[tk], 16 if tk == "sw2" else 4) for tk in F.TKINDS] + [
        (4, "br", 3, 2, ("none",), 4), (4, "cond", 3, 2, ("arg",), 16), (4, "cond", 2, 2, ("c1", "c0"), 8),
        (4, "sw1", 3, 2, ("arg",), 16), (4, "sw1", 2, 2, ("c0", "c7"), 8), (4, "sw2", 2, 2, ("arg", "c-1"), 32),
        (5, "br", 2, 2, ("none",), 4), (5, "cond", 2, 2, ("arg",), 24), (5, "sw1", 2, 2, ("arg",), 24)]


def gen_cfggen(n: int, tkind: str, max_args: int, max_extras: int, sels, k: int, shards: int):
    for spec in F.programs(n, tkind, max_args, max_extras, sels=tuple(sels), shard=(k, shards)):
        yield ("cfggen", False, F.arg_types(spec), spec)


CFGGEN_PASSES = ("canonicalize", "cse", "canonicalize,cse,canonicalize")


def programs_of(task: tuple, quick: bool):
    fam = task[0]
    full = 2
    if fam == "cfggen":
        return gen_cfggen(*task[1:])
    if fam == "single-binary":
        return gen_single_binary(binary_sigs(task[1])[task[2]], full)
    if fam == "single-select":
        return gen_single_select(task[1], 1 if not quick or task[1] == "i1" else 0)
    if fam == "single-unary":
        return itertools.chain.from_iterable(gen_single_unary(s, full) for s in cast_sigs() + [("arith.negf", None, (f,), f) for f in FLOAT_TYPES])
    if fam == "constants":
        return gen_constants(full)
    if fam == "pairs":
        return gen_pairs(task[1], 1 if quick else 2)
    if fam == "pairs-cross":
        return gen_pairs_cross()
    if fam == "dead":
        return gen_dead(task[1])
    if fam == "cfg":
        return gen_cfg(task[1])
    if fam == "while":
        return gen_while()
    if fam == "loops":
        return itertools.islice(gen_loops(), task[1], None, 2)
    if fam == "top":
        return gen_top(task[1], 1 if quick else 2)
    if fam == "chain2":
        return gen_chain2(chain_plan(quick)[task[1]])
    if fam == "chain3":
        sigs = [(f"arith.{n}", None, (task[1], task[1]), task[1]) for n in IBIN4]
        return gen_chain3(sigs[task[2]], sigs[task[3]], sigs, -1)
    raise ValueError(fam)


def _shard(arg) -> Stats:
    task, quick, seed = arg
    st = Stats()
    fam = task[0]
    big = not quick and fam not in ("chain2", "chain3")  # the chains keep the quick input grid in both tiers
    k = 0
    for rec in programs_of(task, quick):
        k += 1
        if fam == "cfggen":  # control flow only: the constant-folding passes have nothing to do here
            check_program(st, rec, big, passes=CFGGEN_PASSES[:1] if quick else CFGGEN_PASSES, sample=(k + seed) % 997 == 1)
        else:
            check_program(st, rec, big, sample=(k + seed) % 997 == 1)
        st.outcomes[f"family:{fam}"] += 1
    st.bump(f"programs_{fam}", k)
    return st


def run(ctx):
    quick = ctx.quick
    tasks = [(t, quick, ctx.seed) for t in tasks_for(quick)]
    for _, st in pmap(_shard, tasks):
        ctx.merge(st)
    ctx.bounds = {
        "passes": list(PASSES),
        "types": list(INT_TYPES + FLOAT_TYPES),
        "ops": {"int_binary": list(IBIN), "cmpi_predicates": 10, "float_binary": list(FBIN), "cmpf_predicates": 16,
                "other": ["select", "extsi", "extui", "trunci", "index_cast", "negf", "constant"]},
        "max_arguments": "2 (3 for the one select(arg, arg, arg) shape and for cfg templates with a variable condition)",
        "single_op": "all operand patterns (arg,arg) (x,x) (arg,const) (const,arg) (const,const') (k,k); constants: full boundary set "
                     "(ints 0 1 -1 2 min max w w-1 2^(w-2); floats +-0 +-1 2 +-inf NaN 0.1 3 +-max, f32 also +-3.0e38)",
        "chains": ("2-op chains: i8 over " + str(list(IBIN3)) + " x the same, and select / casts / i1 ops after each cmpi predicate; "
                   "f32 over addf subf mulf divf negf x the same, select after each cmpf predicate; constants {0,1,-1} / "
                   "{+0,-0,1,-1,inf,NaN} (select slots {0,-1} / {+0,NaN})" if quick else
                   "2-op chains: i8 and f32 over every listed op x every listed op with constants {0,1,-1,min,max,w-1} / "
                   "{+0,-0,1,-1,inf,NaN,0.1} and all-constant first ops over {0,1,-1} / {+0,-0,1,-1,inf,NaN}; i1 i32 i64 index f64 over "
                   f"the two-operand ops (+negf) with constants {{0,1,-1}} / {{+0,-0,1,-1,inf,NaN}}; 3-op chains over {list(IBIN4)} "
                   "on i8 with constants {0,-1}; chains use the quick input grid"),
        "inputs_per_argument": {"i1": 2, "i8/i32/i64/index": len(input_values("i32", not quick)),
                                "i8 (single-argument programs, thorough)": 256 if not quick else len(input_values("i8", False)),
                                "f32/f64": len(input_values("f32", not quick))},
        "index_width": 64,
        "generated_cf_cfgs": {
            "grammar": "mc/cfgfam.py: forward-edge CFGs, entry br / cond_br / switch(default + 1..2 cases), middle blocks pass-through "
                       "(only cf.br) or use (computation), 0..2 block arguments each, single exit block, successor operands of the "
                       "entry from {%a, %b}, of a pass-through block from its own arguments and %a; every pass-through block "
                       "argument gets 0/1/2 extra uses in every use block it dominates",
            "rows": [{"blocks": n, "entry": tk, "max_total_block_arguments": a, "max_extra_uses_per_block": e, "selectors": list(sels)}
                     for n, tk, a, e, sels, _ in cfggen_plan(quick)],
            "passes": list(CFGGEN_PASSES[:1] if quick else CFGGEN_PASSES),
            "input_box": {"cond": list(F.SEL_VALUES["cond"]), "switch1": list(F.SEL_VALUES["sw1"]), "switch2": list(F.SEL_VALUES["sw2"]),
                          "a": list(F.A_VALUES), "b": list(F.B_VALUES)},
        },
    }
    ctx.rule = ("generator tree: family -> op signature -> operand pattern -> constants; states = programs accepted by the xDSL "
                "verifier, transitions = executions = (program, pass) applications of the real pass classes, evaluations = "
                "(program, pass, input) comparisons of refsem(before) with refsem(after) on inputs where before is defined; "
                "a program is non-trivial when at least one pass changed its IR (canonical form differs) and the changed "
                "IR was compared with the original on at least one defined input; the generated cf CFG family is enumerated "
                "row by row (blocks, entry terminator, block-argument budget) -> CFG structure (argument counts, block kinds, "
                "branch targets; unreachable blocks and CFGs without a pass-through block are not programs of the family) -> "
                "successor operands x extra uses x selector variant, every combination once")
    ctx.assumptions = ["mc/refsem.py implements the MLIR semantics (self test: python -m mc.refsem)",
                       "index is 64 bits wide",
                       "fast-math / reassociation flags are not generated (refsem gives them strict IEEE semantics)",
                       "a pass output whose canonical form (mc.canon) equals the input's is the same program",
                       "inputs on which the original program is POISON / UB / ambiguous are excluded"]


def replay(rep) -> bool:
    w = rep["witness"]
    rec = _to_tuple(w["rec"])
    st = Stats()
    check_program(st, rec, bool(w.get("big", False)), passes=(w["pass"],))
    return rep["signature"] not in st.violations
