"""C15 -- the interpreter computes MLIR semantics for arithmetic and control flow.

Exhaustive comparison of xDSL's `Interpreter` (ArithFunctions / ScfFunctions / CfFunctions / FuncFunctions)
with the independent reference semantics `mc.refsem`:

* every op implementation REGISTERED in ArithFunctions (enumerated programmatically; an impl without a
  driver here is reported as uncovered and caps the run): all operand tuples for the narrow widths
  (i1..i4 quick, i1..i8 thorough), boundary squares/cubes for the wider widths and index, a float
  boundary set squared for f32 / f64, every cmpi / cmpf predicate;
* all 2-op chains over the registered integer binary ops (+ cmpi after an op, cmpi after cmpi against a
  constant) on i3 (all inputs) and i8 (boundary cube), run as real `func.func`s through `call_op`;
* a HISTORY dimension: every ordered pair (and three triples) of interpreter configurations index_bitwidth in
  {32, 64}: fresh Interpreter objects created one after the other in ONE process (each sequence in its own freshly
  forked worker), each running every registered arith op that involves `index` on the boundary values and
  compared with refsem at ITS OWN index width; a failure that only appears after another configuration ran gets
  the suffix @index_bitwidth=<w>-after-<earlier widths>;
* small scf / cf / func programs (for-sum, if, while, cond_br diamond, cond_br / switch whose successors are the SAME block with
  different or equal operand lists, cf loops, calls with an effect log)
  on all small inputs.  Programs that use an op with no registered implementation are skipped and
  listed (an unimplemented op is "uncovered", not a wrong result).

How values are fed: the interpreter represents iN / index values as Python ints.  `arith.constant`
yields `IntegerAttr.value.data`, which xDSL normalises to the SIGNED form (i3 7 -> -1, i1 true -> -1);
every `to_signed`-based op returns the signed form too, so operands are fed in signed form.  The one other
representative the interpreter itself produces for correct results is Python `True` (== 1) from
arith.cmpi / arith.cmpf, so i1 operands are fed as 0, -1 AND 1.  For the widths 2..UFORM_UPTO (i2, i3) every
negative bit pattern is ALSO fed in its unsigned form (i3: 4..7) -- the other representative of xDSL's documented signless
range, which a caller of Interpreter.call_op may pass as a function argument and which every op must read as the same bit
pattern (C15-m8: shrsi without to_signed).  Values outside the signless range only arise inside multi-op programs (from
earlier defective results) and are never invented by the harness.

What is asserted for an integer result r of width w (property: "integer results wrap to the type width
and stay in the type's range"): r is a Python int, r mod 2^w equals the reference bit pattern
("wrong-result" otherwise), and -(2^(w-1)) <= r < 2^w, xDSL's documented signless range
(xdsl/utils/comparisons.py: signless_value_range) ("out-of-range" otherwise).  The strict signed form is
NOT required.  Floats: the returned Python float must be a value of the result type (for f32: survive a
round trip through struct 'f' -- "not-rounded" when only that fails) with the reference bit pattern
(any NaN == any NaN).  Inputs on which the reference is POISON / UB / ambiguous are excluded and
counted; an exception on a defined input is a violation ("raises|<type>").

Signatures: C15|<op>|<predicate or type class>|<failure kind>[@<operand form>], where the operand
form suffix says that an operand was not in signed canonical form ("unsigned-form": in the signless
range, e.g. True for i1 or 6 for i3; "out-of-range": outside it, produced by an earlier defective op).
In programs the FIRST op whose result diverges from the reference is blamed, so chains re-find the
single-op signatures and add only the genuinely new ones.
"""
from __future__ import annotations

import itertools
import struct

from mc import refsem as R
from mc.pool import pmap
from mc.stats import Stats

INDEX_W = 64
UFORM_UPTO = 3  # widths 2..UFORM_UPTO are fed in BOTH signless representatives (signed and unsigned form)
POISON = R.POISON


# ======================================================================================
# xDSL access (lazy, cached per process)
# ======================================================================================
_X: dict = {}


def X() -> dict:
    if _X:
        return _X
    from xdsl.context import Context
    from xdsl.dialects import arith, builtin, cf, func, scf, test
    from xdsl.dialects.builtin import (Float32Type, Float64Type, FloatAttr, IndexType, IntegerAttr, IntegerType,
                                       ModuleOp)
    from xdsl.interpreter import Interpreter, InterpreterFunctions, impl_external, register_impls
    from xdsl.interpreters.arith import ArithFunctions
    from xdsl.interpreters.cf import CfFunctions
    from xdsl.interpreters.func import FuncFunctions
    from xdsl.interpreters.scf import ScfFunctions
    from xdsl.parser import Parser
    from xdsl.traits import IsTerminator

    ctx = Context()
    for d in (arith.Arith, scf.Scf, cf.Cf, func.Func, builtin.Builtin, test.Test):
        ctx.load_dialect(d)

    ext_log: list = []

    @register_impls
    class ExtFunctions(InterpreterFunctions):
        @impl_external("ext")
        def run_ext(self, interpreter, op, args):
            ext_log.append(("call", "ext", tuple(int(a) & 0xFF for a in args)))
            return (_ext_model(int(args[0]) & 0xFF, signed=True),)

    fclasses = (ArithFunctions, ScfFunctions, CfFunctions, FuncFunctions)
    impls: dict[str, dict[str, type]] = {}
    for fc in fclasses:
        d = {}
        for op_type, _ in fc._impls():  # the registry filled by @register_impls
            d[op_type.name] = op_type
        for op_type, _ in fc._callable_impls():
            d[op_type.name] = op_type
        impls[fc.__name__] = d

    def new_interp(module=None, listeners=()):
        it = Interpreter(module if module is not None else ModuleOp([]), index_bitwidth=INDEX_W, listeners=tuple(listeners))
        for fc in fclasses:
            it.register_implementations(fc())
        it.register_implementations(ExtFunctions())
        return it

    def ty(s: str):
        if s == "index":
            return IndexType()
        if s == "f32":
            return Float32Type()
        if s == "f64":
            return Float64Type()
        assert s[0] == "i", s
        return IntegerType(int(s[1:]))

    _X.update(ctx=ctx, arith=arith, test=test, Parser=Parser, Interpreter=Interpreter, impls=impls,
              new_interp=new_interp, ty=ty, IntegerAttr=IntegerAttr, FloatAttr=FloatAttr, ext_log=ext_log,
              IsTerminator=IsTerminator, all_impl_names=set().union(*[set(d) for d in impls.values()]))
    return _X


def _ext_model(x: int, signed: bool = False) -> int:
    """the external function @ext(i8) -> i8 used by the call programs: 3x+1 mod 256"""
    r = (3 * x + 1) & 0xFF
    return r - 256 if signed and r >= 128 else r


# ======================================================================================
# input sets
# ======================================================================================
def twidth(s: str) -> int | None:
    if s == "index":
        return INDEX_W
    if s[0] == "i":
        return int(s[1:])
    return None


def sform(bits: int, w: int) -> int:
    """the signed Python int xDSL uses for a bit pattern (what arith.constant produces)"""
    bits &= (1 << w) - 1
    return bits - (1 << w) if bits >> (w - 1) else bits


def boundary_ints(w: int, big: bool) -> list[int]:
    """signed-form boundary values of width w (w >= 5)"""
    top = 1 << (w - 1)
    pat5 = int("01" * (w // 2 + 1), 2) & ((1 << w) - 1)
    vals = [0, 1, -1, -top, top - 1, -top + 1, top - 2, 2, -2, 1 << (w - 2), -(1 << (w - 2)), w - 1, w,
            sform(pat5, w), sform(pat5 << 1, w)]
    if big:
        vals += [3, -3, 7, w + 1, w - 2, 1 << (w // 2), -(1 << (w // 2)), (1 << (w // 2)) - 1, (top - 1) // 3, -w]
    out = []
    for v in vals:
        v = sform(v, w)
        if v not in out:
            out.append(v)
    return out


def int_feed(s: str, exhaustive_upto: int, big: bool) -> list[tuple[int, int]]:
    """[(python value fed to xDSL, reference bit pattern)] for an integer / index type"""
    w = twidth(s)
    m = (1 << w) - 1
    if w <= exhaustive_upto:
        vals = [sform(b, w) for b in range(1 << w)]
        if w == 1:
            vals.append(1)  # Python True == 1: what arith.cmpi returns for "true"
        elif w <= UFORM_UPTO:
            # the other representative of xDSL's documented signless range (utils/comparisons.py): the UNSIGNED form of the
            # negative bit patterns, which callers of Interpreter.call_op may pass for function arguments (C15-m8)
            vals += list(range(1 << (w - 1), 1 << w))
    else:
        vals = boundary_ints(w, big)
    return [(v, v & m) for v in vals]


def float_patterns(fmt: R.FloatFormat, big: bool) -> list[int]:
    mb, bias = fmt.mbits, fmt.bias
    one = bias << mb
    pos = [0, 1, 2, fmt.man_mask, 1 << mb, (1 << mb) + 1, one, one + 1, one - 1, one + (1 << mb),  # 0 minsub .. 1 1+ulp 1-ulp 2
           fmt.max_finite, fmt.max_finite - 1, fmt.inf,
           R.float_to_bits(fmt, 0.1), R.float_to_bits(fmt, 0.2), R.float_to_bits(fmt, 0.5), R.float_to_bits(fmt, 3.0),
           (bias + mb + 1) << mb, ((bias + mb + 1) << mb) + 1,  # 2^(p): 16777216 for f32, and its successor
           (bias + mb) << mb | fmt.man_mask]  # 2^p - 1, the largest odd integer
    if big:
        pos += [3, (1 << mb) - 2, one + 2, one + fmt.man_mask, R.float_to_bits(fmt, 1e-3), R.float_to_bits(fmt, 1.5),
                R.float_to_bits(fmt, 1e10), (bias + (fmt.emax // 2) + 1) << mb, (bias - fmt.emax // 2) << mb,
                R.float_to_bits(fmt, 7.0), R.float_to_bits(fmt, 1.0 / 3.0)]
    out = []
    for p in pos:
        for q in (p, p | fmt.sign_bit):
            if q not in out:
                out.append(q)
    out.append(fmt.qnan)
    return out


def float_feed(s: str, big: bool) -> list[tuple[float, int]]:
    fmt = R.FLOAT_FORMATS[s]
    return [(R.bits_to_float(fmt, p), p) for p in float_patterns(fmt, big)]


def feed(s: str, exhaustive_upto: int, big: bool) -> list[tuple]:
    return float_feed(s, big) if s in R.FLOAT_FORMATS else int_feed(s, exhaustive_upto, big)


# ======================================================================================
# judging one op execution
# ======================================================================================
def operand_form(op, py_args) -> str:
    worst = 0
    for o, v in zip(op.operands, py_args):
        w = R.int_width(o.type, INDEX_W)
        if w is None or not isinstance(v, int):
            continue
        half = 1 << (w - 1)
        if -half <= v < half:
            continue
        worst = max(worst, 1 if 0 <= v < (1 << w) else 2)
    return ("", "@unsigned-form-operand", "@out-of-range-operand")[worst]


def variant_of(op) -> str:
    """predicate / type class part of a signature"""
    n = op.name
    if n == "arith.cmpi":
        return R.CMPI_PREDICATES.get(int(op.properties["predicate"].value.data), "?")
    if n == "arith.cmpf":
        return R.CMPF_PREDICATES.get(int(op.properties["predicate"].value.data), "?") + ":" + R.type_str(op.operands[0].type)
    if n == "arith.index_cast" or n == "arith.index_castui":
        return "to-index" if op.results[0].type.name == "index" else "from-index"
    ts = [R.type_str(v.type) for v in list(op.operands) + list(op.results)]
    fl = [t for t in ts if t in R.FLOAT_FORMATS]
    if fl:
        return "->".join(dict.fromkeys(fl))
    return "-"


def judge_values(types, got, ref) -> tuple[str, str] | None:
    """compare xDSL result values with reference values; -> (failure kind, detail) or None"""
    if len(got) != len(ref):
        return ("wrong-result-count", f"{len(got)} results, {len(ref)} expected")
    for i, (t, g, r) in enumerate(zip(types, got, ref)):
        w = R.int_width(t, INDEX_W)
        if w is not None:
            if not isinstance(g, int):
                return ("not-an-int", f"result {i} is {type(g).__name__} {g!r}")
            if (g & ((1 << w) - 1)) != r:
                return ("wrong-result", f"result {i} = {g} (bits {g & ((1 << w) - 1):#x}), MLIR semantics give bits {r:#x} (signed {R.sview(r, w)})")
            if not -(1 << (w - 1)) <= g < (1 << w):
                return ("out-of-range", f"result {i} = {g} has the right low {w} bits but lies outside the signless range of {R.type_str(t)}")
            continue
        fmt = R.float_format(t)
        if fmt is None:
            return ("unsupported-type", str(t))
        if not isinstance(g, float):
            return ("not-a-float", f"result {i} is {type(g).__name__} {g!r}")
        if g != g:
            if not R.is_nan(fmt, r):
                return ("wrong-result", f"result {i} is NaN, expected {R.bits_to_float(fmt, r)!r}")
            continue
        gb = R.float_to_bits(fmt, g)  # rounds; exact iff g is a value of the type
        exact = (not R.is_nan(fmt, gb)) and R.bits_to_float(fmt, gb) == g
        if not exact:
            if gb == r:
                return ("not-rounded", f"result {i} = {g!r} is not a {fmt.name} value (correctly rounded it would be {R.bits_to_float(fmt, r)!r})")
            return ("wrong-result", f"result {i} = {g!r} is not a {fmt.name} value and does not round to the expected {R.bits_to_float(fmt, r)!r}")
        if gb != r:
            exp = "NaN" if R.is_nan(fmt, r) else repr(R.bits_to_float(fmt, r))
            return ("wrong-result", f"result {i} = {g!r} (bits {gb:#x}), IEEE-754 gives {exp} (bits {r:#x})")
    return None


def py_json(v):
    if isinstance(v, float):
        return {"f64bits": struct.unpack("<Q", struct.pack("<d", v))[0], "repr": repr(v)}
    if isinstance(v, bool):
        return int(v)
    return v


def py_unjson(v):
    if isinstance(v, dict):
        return struct.unpack("<d", struct.pack("<Q", v["f64bits"]))[0]
    return v


def exc_name(e: BaseException) -> str:
    return type(e).__name__


def is_nontrivial(op, ref_args, ref_res) -> bool:
    """the signed and unsigned views differ for some operand/result, or a float operand/result is not a
    normal number, i.e. the places the property says ordinary tests do not reach"""
    for v, bits in itertools.chain(zip(op.operands, ref_args), zip(op.results, ref_res)):
        if not isinstance(bits, int):
            continue
        w = R.int_width(v.type, INDEX_W)
        if w is not None:
            if bits >> (w - 1):
                return True
            continue
        fmt = R.float_format(v.type)
        if fmt is not None:
            e = bits & fmt.exp_mask
            if e == 0 or e == fmt.exp_mask:
                return True
    return False


# ======================================================================================
# single-op drivers
# ======================================================================================
IBIN = ("addi", "subi", "muli", "andi", "ori", "xori", "shli", "shrsi", "shrui", "divsi", "divui", "remsi", "remui",
        "floordivsi", "ceildivsi", "ceildivui", "minsi", "minui", "maxsi", "maxui")
CATEGORY = {**{"arith." + n: "ibin" for n in IBIN},
            **{"arith." + n: "ibin" for n in ("addui_extended", "mului_extended", "mulsi_extended")},
            "arith.cmpi": "cmpi", "arith.select": "select", "arith.extsi": "iext", "arith.extui": "iext",
            "arith.trunci": "itrunc", "arith.index_cast": "icast", "arith.index_castui": "icast",
            **{"arith." + n: "fbin" for n in ("addf", "subf", "mulf", "divf", "minimumf", "maximumf", "minnumf", "maxnumf")},
            "arith.negf": "fun", "arith.cmpf": "cmpf", "arith.sitofp": "itof", "arith.uitofp": "itof",
            "arith.fptosi": "ftoi", "arith.fptoui": "ftoi", "arith.extf": "fext", "arith.truncf": "ftrunc",
            "arith.bitcast": "bitcast", "arith.constant": "const"}
FLOATS = ("f32", "f64")
EXT_PAIRS = (("i1", "i3"), ("i1", "i8"), ("i2", "i4"), ("i3", "i4"), ("i3", "i8"), ("i4", "i64"), ("i8", "i16"), ("i8", "i64"),
             ("i16", "i32"), ("i32", "i64"))


def int_types(exh: int) -> list[str]:
    out = [f"i{w}" for w in range(1, exh + 1)]
    for w in (8, 16, 32, 64):
        if w > exh:
            out.append(f"i{w}")
    out.append("index")
    return out


def plan(name: str, exh: int) -> list[tuple] | None:
    """[(variant argument, operand types, target type)] for a registered op, None when no driver exists"""
    cat = CATEGORY.get(name)
    its = int_types(exh)
    if cat == "ibin":
        return [(None, (t, t), None) for t in its]
    if cat == "cmpi":
        return [(p, (t, t), None) for p in range(10) for t in its]
    if cat == "select":
        return [(None, ("i1", t, t), None) for t in its + list(FLOATS)]
    if cat == "iext":
        return [(None, (a,), b) for a, b in EXT_PAIRS]
    if cat == "itrunc":
        return [(None, (b,), a) for a, b in EXT_PAIRS]
    if cat == "icast":
        return [(None, (t,), "index") for t in its if t != "index"] + [(None, ("index",), t) for t in its if t != "index"]
    if cat == "fbin":
        return [(None, (f, f), None) for f in FLOATS]
    if cat == "fun":
        return [(None, (f,), None) for f in FLOATS]
    if cat == "cmpf":
        return [(p, (f, f), None) for p in range(16) for f in FLOATS]
    if cat == "itof":
        return [(None, (t,), f) for t in ("i1", "i3", "i8", "i32", "i64") for f in FLOATS]
    if cat == "ftoi":
        return [(None, (f,), t) for t in ("i1", "i3", "i8", "i32", "i64") for f in FLOATS]
    if cat == "fext":
        return [(None, ("f32",), "f64")]
    if cat == "ftrunc":
        return [(None, ("f64",), "f32")]
    if cat == "bitcast":
        return [(None, ("i32",), "f32"), (None, ("f32",), "i32"), (None, ("i64",), "f64"), (None, ("f64",), "i64")]
    if cat == "const":
        return [(None, (), t) for t in its + list(FLOATS)]
    return None


def build_op(name: str, varg, in_types, target):
    x = X()
    cls = x["impls"]["ArithFunctions"].get(name) or {o.name: o for o in x["arith"].Arith.operations}[name]
    ty = x["ty"]
    vals = x["test"].TestOp(result_types=[ty(t) for t in in_types]).results
    cat = CATEGORY[name]
    if cat in ("cmpi", "cmpf"):
        return cls(vals[0], vals[1], varg)
    if target is not None:
        return cls(vals[0], ty(target))
    return cls(*vals)


def run_one(st: Stats, interp, mach, op, variant: str, py_args: tuple, ref_args: list, wit: dict, sample: bool,
            sig_suffix: str = "") -> None:
    mach.ambiguous = None
    try:
        ref = mach.eval_op(op, ref_args)
    except R.UndefinedBehaviour:
        ref = None
    if ref is None or mach.ambiguous or any(r is POISON for r in ref):
        st.bump("excluded_poison_or_ub")
        st.outcomes[f"{op.name}:excluded-poison"] += 1
        return
    st.executions += 1
    st.transitions += 1
    st.evaluations += max(1, len(ref))
    bad = None
    try:
        got = interp.run_op(op, py_args)
        bad = judge_values([r.type for r in op.results], got, ref)
    except Exception as e:  # noqa: BLE001
        got = None
        bad = (f"raises|{exc_name(e)}", f"raised {exc_name(e)}: {str(e).splitlines()[0][:120] if str(e) else ''}")
    if is_nontrivial(op, ref_args, ref):
        st.nontrivial += 1
    if sample:
        st.sample({**wit, "args": [py_json(a) for a in py_args], "result": [py_json(g) for g in got] if got is not None else None})
    if bad is None:
        st.outcomes[f"{op.name}:agrees"] += 1
        return
    st.outcomes[f"{op.name}:{bad[0].split('|')[0]}"] += 1
    sig = f"C15|{op.name}|{variant}|{bad[0]}{operand_form(op, py_args)}{sig_suffix}"
    if sig in st.violations:
        st.violations[sig]["count"] += 1
        return
    tys = [R.type_str(o.type) for o in op.operands]
    st.violate(sig, f"{op.name} {variant} on ({', '.join(f'{a!r} : {t}' for a, t in zip(py_args, tys))}): {bad[1]}",
               {**wit, "args": [py_json(a) for a in py_args], "got": [py_json(g) for g in got] if got is not None else None,
                "expected_bits": list(ref), "detail": bad[1]})


def _single(task) -> Stats:
    _, name, varg, in_types, target, exh, big, seed = task
    x = X()
    st = Stats()
    interp = x["new_interp"]()
    mach = R.Machine(index_width=INDEX_W)
    wit = {"kind": "single", "op": name, "varg": varg, "in_types": list(in_types), "target": target}
    if CATEGORY[name] == "const":
        _const(st, interp, mach, target, exh, big, seed, wit)
        return st
    op = build_op(name, varg, in_types, target)
    variant = variant_of(op)
    feeds = [feed(t, exh, big) for t in in_types]
    k = 0
    for combo in itertools.product(*feeds):
        k += 1
        st.states += 1
        run_one(st, interp, mach, op, variant, tuple(c[0] for c in combo), [c[1] for c in combo], wit,
                (k + seed) % 1499 == 0)
    return st


def _const(st: Stats, interp, mach, target: str, exh: int, big: bool, seed: int, wit: dict, sig_suffix: str = "") -> None:
    x = X()
    t = x["ty"](target)
    if target in R.FLOAT_FORMATS:
        cands = [v for v, _ in float_feed(target, big)] + [0.1, 1.0 / 3.0, 16777217.0, 1e300, -1e-320]
    else:
        w = twidth(target)
        cands = []
        for v, bits in int_feed(target, exh, big):
            cands.extend([v, bits])  # signed and unsigned spelling of the same pattern
    seen = []
    for v in cands:
        if any(v is s or (v == s and repr(v) == repr(s)) for s in seen):
            continue
        seen.append(v)
        try:
            attr = x["FloatAttr"](v, t) if isinstance(v, float) else x["IntegerAttr"](v, t)
            op = x["arith"].ConstantOp(attr)
        except Exception:  # noqa: BLE001 - the attribute constructor refuses the value: not an interpreter matter
            st.bump("constant_attr_rejected")
            continue
        st.states += 1
        run_one(st, interp, mach, op, "-", (), [], {**wit, "value": py_json(v)}, False, sig_suffix)


# ======================================================================================
# history dimension: interpreters with different index_bitwidth created one after the other in ONE process
# ======================================================================================
HIST_SEQS = ((32, 32), (32, 64), (64, 32), (64, 64), (32, 64, 32), (64, 32, 64), (64, 64, 32))
_HSEP = "##"


def index_plans(exh: int) -> list[tuple]:
    """every (op, variant argument, operand types, target) of a registered arith impl that involves `index`"""
    out = []
    for name in sorted(X()["impls"]["ArithFunctions"]):
        for varg, in_types, target in plan(name, exh) or ():
            if "index" in in_types or target == "index":
                out.append((name, varg, tuple(in_types), target))
    return out


def _history(task) -> Stats:
    """one sequence of interpreter configurations, run in a process that has not interpreted anything yet (the
    task runs in its own freshly forked worker).  Step k creates a NEW Interpreter(index_bitwidth=seq[k]) and runs
    the whole index op set on the boundary values, compared with refsem at index width seq[k].  Violations are
    returned under provisional keys  <plain sig>##<step>##<width>##<earlier widths>  and classified by run()."""
    global INDEX_W
    _, seq, exh, big, seed = task
    x = X()
    st = Stats()
    saved = INDEX_W
    try:
        for k, w in enumerate(seq):
            INDEX_W = w  # twidth / feed / judge_values / new_interp all read the module global
            interp = x["new_interp"]()
            mach = R.Machine(index_width=w)
            suffix = f"{_HSEP}{k}{_HSEP}{w}{_HSEP}{'-'.join(map(str, seq[:k]))}"
            for name, varg, in_types, target in index_plans(exh):
                wit = {"kind": "history", "seq": list(seq), "step": k, "index_bitwidth": w, "op": name, "varg": varg,
                       "in_types": list(in_types), "target": target, "exh": exh, "big": big}
                if CATEGORY[name] == "const":
                    _const(st, interp, mach, target, exh, big, seed, wit, suffix)
                    continue
                op = build_op(name, varg, in_types, target)
                variant = variant_of(op)
                for combo in itertools.product(*[feed(t, exh, big) for t in in_types]):
                    st.states += 1
                    run_one(st, interp, mach, op, variant, tuple(c[0] for c in combo), [c[1] for c in combo], wit, False, suffix)
            st.outcomes[f"history:index_bitwidth={w}-after-{'-'.join(map(str, seq[:k])) or 'nothing'}"] += 1
    finally:
        INDEX_W = saved
    return st


def classify_history(stats_list: list[Stats]) -> None:
    """rewrite the provisional keys: a failure at a later step that also occurs for the same index width in a
    fresh process (step 0 of a sequence starting with that width) is the ordinary finding; otherwise the result
    depends on the interpreters created earlier -> signature suffix @index_bitwidth=<w>-after-<earlier widths>"""
    fresh: dict[int, set] = {}
    for st in stats_list:
        for key in st.violations:
            plain, k, w, _ = key.split(_HSEP)
            if k == "0":
                fresh.setdefault(int(w), set()).add(plain)
    for st in stats_list:
        new: dict = {}
        for key in sorted(st.violations):
            v = st.violations[key]
            plain, k, w, prev = key.split(_HSEP)
            if k == "0" or plain in fresh.get(int(w), ()):
                sig = plain
            else:  # one signature per (op, variant, direction): the failure kind is incidental here
                others = "-".join(sorted(set(prev.split("-")) - {w})) or w
                sig = "|".join(plain.split("|")[:3]) + f"|depends-on-earlier-interpreter@index_bitwidth={w}-after-{others}"
            if sig != plain:
                v = dict(v, what=v["what"] + f" -- only after interpreters with index_bitwidth {prev} ran in the same process")
            if sig in new:
                new[sig]["count"] += v["count"]
            else:
                new[sig] = v
        st.violations = new


# ======================================================================================
# programs: real func.func modules run through Interpreter.call_op, op-by-op comparison
# ======================================================================================
class _Budget(Exception):
    pass


class Prog:
    """a parsed module + an interpreter with a recording listener"""

    MAX_OPS = 60_000

    def __init__(self, text: str, fname: str = "f"):
        x = X()
        self.text = text
        self.fname = fname
        self.mod = x["Parser"](x["ctx"], text).parse_module()
        self.mod.verify()
        self.fn = None
        self.unimplemented = None
        for op in self.mod.walk():
            if op.name == "func.func" and op.properties["sym_name"].data == fname:
                self.fn = op
            if op.name != "builtin.module" and op.name not in x["all_impl_names"] and self.unimplemented is None:
                self.unimplemented = op.name
        assert self.fn is not None
        self.in_types = list(self.fn.properties["function_type"].inputs.data)
        self.out_types = list(self.fn.properties["function_type"].outputs.data)
        self.interp = None
        prog = self

        class Rec(x["Interpreter"].Listener):
            def will_interpret_op(self, op, args):
                prog.count += 1
                if prog.count > Prog.MAX_OPS:
                    raise _Budget()
                prog.stack.append((op, args))

            def did_interpret_op(self, op, results):
                o, a = prog.stack.pop()
                prog.done.append((o, a, results))

        self.rec = Rec()
        self.reset()

    def reset(self):
        self.count = 0
        self.stack: list = []
        self.done: list = []

    def fresh_interp(self):
        self.interp = X()["new_interp"](self.mod, (self.rec,))


def _ancestors(op) -> list:
    out = []
    p = op
    while p is not None:
        out.append(p)
        p = p.parent_op()
    return out


def _blame_divergence(xs: list, rs: list, k: int):
    """the op sequences differ at index k although every earlier op agreed"""
    prev = xs[k - 1][0] if k > 0 else None
    if prev is not None and prev.successors:
        return prev, "wrong-successor"
    xo = xs[k][0] if k < len(xs) else None
    ro = rs[k][0] if k < len(rs) else None
    if xo is None or ro is None:
        o = xo or ro
        return (o.parent_op() or o), "control-flow-divergence"
    xa, ra = _ancestors(xo), _ancestors(ro)
    if any(a is xo for a in ra):
        return xo, "control-flow-divergence"   # the reference is still inside xo's regions
    if any(a is ro for a in xa):
        return ro, "control-flow-divergence"
    for a in xa[1:]:
        if any(a is b for b in ra):
            return a, "control-flow-divergence"
    return xo, "control-flow-divergence"


def _block_arg_owner(op, xs: list, k: int, xa=None, ra=None):
    """an operand that is a block argument carries a wrong value: blame whoever passed it, i.e. the most recently
    executed terminator that branched to the argument's block (the parent op for a region entry block)"""
    bad_val = None
    if xa is not None:
        for o, g, r in zip(op.operands, xa, ra):
            if judge_values([o.type], (g,), [r]) is not None:
                bad_val = o
                break
    block = getattr(bad_val, "block", None) if bad_val is not None and not hasattr(bad_val, "op") else None
    if block is not None:
        for j in range(k - 1, -1, -1):
            t = xs[j][0]
            if t.successors and any(b is block for b in t.successors):
                return t
        return block.parent_op() or op
    prev = xs[k - 1][0] if k > 0 else None
    if prev is not None and prev.successors:
        return prev
    return op.parent_op() or op


def exec_program(st: Stats, P: Prog, py_args: tuple, label: str, sample: bool = False) -> None:
    x = X()
    st.states += 1
    ref_args = []
    for t, v in zip(P.in_types, py_args):
        w = R.int_width(t, INDEX_W)
        ref_args.append(v & ((1 << w) - 1) if w is not None else R.float_to_bits(R.float_format(t), v))
    rs: list = []
    m = R.Machine(index_width=INDEX_W, module=P.mod, trace=lambda op, a, r: rs.append((op, a, r)), fuel=40_000,
                  externals={"ext": lambda mm, a: [_ext_model(a[0])]})
    try:
        ref_res = m.call(P.fn, list(ref_args))
    except R.UndefinedBehaviour:
        ref_res = None
    except R.OutOfFuel:
        st.bump("excluded_reference_out_of_fuel")
        st.outcomes[f"{label}:excluded-fuel"] += 1
        return
    if ref_res is None or m.ambiguous or any(r is POISON for r in ref_res):
        st.bump("excluded_poison_or_ub")
        st.outcomes[f"{label}:excluded-poison"] += 1
        return
    P.reset()
    if P.interp is None:
        P.fresh_interp()
    x["ext_log"].clear()
    exc = None
    got = None
    try:
        got = P.interp.call_op(P.fname, tuple(py_args))
    except Exception as e:  # noqa: BLE001
        exc = e
        P.interp = None  # scopes are left dangling after an exception
    st.executions += 1
    st.transitions += len(P.done)
    xs = P.done
    nt = False
    bad = None  # (op name, variant, kind+form, detail)
    n = min(len(xs), len(rs))
    for k in range(n):
        xo, xa, xr = xs[k]
        ro, ra, rr = rs[k]
        if xo is not ro:
            b, kind = _blame_divergence(xs, rs, k)
            bad = (b.name, variant_of(b), kind, f"xDSL executed {xo.name} where MLIR semantics execute {ro.name}")
            break
        st.evaluations += 1
        j = judge_values([o.type for o in xo.operands], xa, ra)
        if j is not None and j[0] != "out-of-range":
            b = _block_arg_owner(xo, xs, k, xa, ra)
            bad = (b.name, variant_of(b), "wrong-values-passed", f"operands of the following {xo.name}: {j[1]}")
            break
        if not xo.results:
            continue
        nt = nt or is_nontrivial(xo, ra, rr)
        j = judge_values([r.type for r in xo.results], xr, rr)
        if j is not None:
            bad = (xo.name, variant_of(xo), j[0] + operand_form(xo, xa), f"on operands {tuple(xa)!r}: {j[1]}")
            break
    if bad is None and exc is not None:
        if isinstance(exc, _Budget):
            b = P.stack[-1][0] if P.stack else P.fn
            bad = ((b.parent_op() or b).name, "-", "does-not-terminate", f"more than {Prog.MAX_OPS} ops interpreted; the reference finishes after {len(rs)}")
        else:
            msg = f"raised {exc_name(exc)}: {str(exc).splitlines()[0][:100] if str(exc) else ''}"
            inner = P.stack[-1] if P.stack else None
            prev = xs[n - 1][0] if n == len(xs) and n > 0 else None
            if inner is not None and not inner[0].regions:  # the implementation of a leaf op raised
                b, a = inner
                bad = (b.name, variant_of(b), f"raises|{exc_name(exc)}{operand_form(b, a)}", f"on operands {tuple(a)!r} {msg}")
            elif prev is not None and prev.successors:  # raised between ops, right after a branch: its block arguments
                bad = (prev.name, variant_of(prev), "wrong-values-passed", f"the interpreter {msg} when fetching operands after the branch")
            elif inner is not None:
                bad = (inner[0].name, variant_of(inner[0]), f"raises|{exc_name(exc)}", f"while interpreting its region the interpreter {msg}")
            else:
                bad = ("func.func", "-", f"raises|{exc_name(exc)}", f"call_op {msg}")
    if bad is None and len(xs) != len(rs):
        b, kind = _blame_divergence(xs, rs, n)
        bad = (b.name, variant_of(b), kind, f"xDSL interpreted {len(xs)} ops, MLIR semantics {len(rs)}")
    if bad is None:
        j = judge_values(P.out_types, got, ref_res)
        if j is not None:
            bad = ("func.func", "-", j[0], f"values returned by call_op: {j[1]}")
    if bad is None:
        xlog = list(x["ext_log"])
        rlog = [(e[0], e[1], tuple(v for _, v in e[2])) for e in m.log if e[0] == "call"]
        st.evaluations += 1
        if xlog != rlog:
            bad = ("func.call", "external", "wrong-effect-log", f"external calls {xlog!r}, expected {rlog!r}")
    if nt:
        st.nontrivial += 1
    if sample:
        st.sample({"kind": "program", "label": label, "args": list(py_args), "result": [py_json(g) for g in got] if got else None})
    if bad is None:
        st.outcomes[f"{label}:agrees"] += 1
        return
    st.outcomes[f"{label}:{bad[2].split('|')[0].split('@')[0]}"] += 1
    sig = f"C15|{bad[0]}|{bad[1]}|{bad[2]}"
    if sig in st.violations:
        st.violations[sig]["count"] += 1
        return
    st.violate(sig, f"in a {label} program, {bad[0]} {bad[1]} {bad[3]}",
               {"kind": "program", "label": label, "text": P.text, "func": P.fname, "args": [py_json(a) for a in py_args],
                "blamed_op": bad[0], "detail": bad[3], "returned": [py_json(g) for g in got] if got is not None else None,
                "expected_bits": list(ref_res)})


# ---- chain programs ---------------------------------------------------------------------------
def chain_specs(t: str) -> list[tuple[str, str, int]]:
    """(label, module text, number of arguments) for every 2-op chain over the registered ops, type t"""
    reg = X()["impls"]["ArithFunctions"]
    ibin = [n for n in IBIN if "arith." + n in reg]
    out = []
    for a in ibin:
        for b in ibin:
            for pos, second in (("l", "%x, %c"), ("r", "%c, %x")):
                out.append((f"chain:{t}", f"""builtin.module {{
  func.func @f(%a: {t}, %b: {t}, %c: {t}) -> {t} {{
    %x = arith.{a} %a, %b : {t}
    %y = arith.{b} {second} : {t}
    func.return %y : {t}
  }}
}}""", 3))
    if "arith.cmpi" in reg:
        preds = list(R.CMPI_PREDICATES.values())
        for a in ibin:
            for p in preds:
                for second in ("%x, %c", "%c, %x"):
                    out.append((f"chain-cmpi:{t}", f"""builtin.module {{
  func.func @f(%a: {t}, %b: {t}, %c: {t}) -> i1 {{
    %x = arith.{a} %a, %b : {t}
    %y = arith.cmpi {p}, {second} : {t}
    func.return %y : i1
  }}
}}""", 3))
        for p in preds:
            for q in preds:
                for cst in ("true", "false"):
                    out.append((f"chain-cmpi-cmpi:{t}", f"""builtin.module {{
  func.func @f(%a: {t}, %b: {t}) -> i1 {{
    %k = arith.constant {cst}
    %x = arith.cmpi {p}, %a, %b : {t}
    %y = arith.cmpi {q}, %x, %k : i1
    func.return %y : i1
  }}
}}""", 2))
        if "arith.index_cast" in reg:
            for p in preds:
                out.append((f"chain-cmpi-cast:{t}", f"""builtin.module {{
  func.func @f(%a: {t}, %b: {t}) -> index {{
    %x = arith.cmpi {p}, %a, %b : {t}
    %y = arith.index_cast %x : i1 to index
    func.return %y : index
  }}
}}""", 2))
    return out


def chain_vals(t: str, mode: str) -> list[int]:
    w = twidth(t)
    if mode == "all":
        return [sform(b, w) for b in range(1 << w)]
    if mode == "edge":
        top = 1 << (w - 1)
        return [0, 1, -1, -top, top - 1, 2, w - 1]
    return boundary_ints(w, False)


def _chains(task) -> Stats:
    _, t, lo, hi, mode, seed = task
    st = Stats()
    specs = chain_specs(t)[lo:hi]
    vals = chain_vals(t, mode)
    k = 0
    for label, text, nargs in specs:
        P = Prog(text)
        if P.unimplemented:
            st.bump("programs_skipped_unimplemented_op")
            continue
        st.bump("programs")
        for args in itertools.product(vals, repeat=nargs):
            k += 1
            exec_program(st, P, args, label, (k + seed) % 20011 == 0)
    return st


# ---- control-flow programs ----------------------------------------------------------------------
SMALL = (-3, -2, -1, 0, 1, 2, 3, 4)
I8_EDGE = (-128, -127, -3, -1, 0, 1, 2, 5, 126, 127)


def cf_programs(big: bool) -> list[tuple[str, str, list]]:
    """(label, module text, per-argument value lists)"""
    i8s = list(I8_EDGE) + ([7, 12, -64, 64, 100] if big else [])
    small = list(SMALL) + ([5, 6, -4] if big else [])
    steps = [-1, 0, 1, 2, 3] + ([5, 100] if big else [])
    out = []
    out.append(("scf.for-sum-index", """builtin.module {
  func.func @f(%lb: index, %ub: index, %st: index) -> index {
    %c0 = arith.constant 0 : index
    %r = scf.for %i = %lb to %ub step %st iter_args(%acc = %c0) -> (index) {
      %a = arith.addi %acc, %i : index
      scf.yield %a : index
    }
    func.return %r : index
  }
}""", [small, small, steps]))
    out.append(("scf.for-sum-i8", """builtin.module {
  func.func @f(%lb: i8, %ub: i8, %st: i8) -> (i8, i8) {
    %c0 = arith.constant 0 : i8
    %c1 = arith.constant 1 : i8
    %r:2 = scf.for %i = %lb to %ub step %st iter_args(%acc = %c0, %n = %c0) -> (i8, i8) : i8 {
      %a = arith.addi %acc, %i : i8
      %m = arith.addi %n, %c1 : i8
      scf.yield %a, %m : i8, i8
    }
    func.return %r#0, %r#1 : i8, i8
  }
}""", [i8s, i8s, [1, 2, 3, 100, 127, -1, 0]]))
    out.append(("scf.for-nested-if", """builtin.module {
  func.func @f(%n: index, %k: index) -> index {
    %c0 = arith.constant 0 : index
    %c1 = arith.constant 1 : index
    %r = scf.for %i = %c0 to %n step %c1 iter_args(%acc = %c0) -> (index) {
      %c = arith.cmpi slt, %i, %k : index
      %v = scf.if %c -> (index) {
        %p = arith.muli %i, %i : index
        scf.yield %p : index
      } else {
        %q = arith.subi %acc, %i : index
        scf.yield %q : index
      }
      %a = arith.addi %acc, %v : index
      scf.yield %a : index
    }
    func.return %r : index
  }
}""", [small, small]))
    for pred in ("slt", "ult", "eq", "sge", "uge"):
        out.append((f"scf.if-{pred}", f"""builtin.module {{
  func.func @f(%a: i8, %b: i8) -> i8 {{
    %c = arith.cmpi {pred}, %a, %b : i8
    %r = scf.if %c -> (i8) {{
      %x = arith.subi %b, %a : i8
      scf.yield %x : i8
    }} else {{
      %y = arith.muli %a, %b : i8
      scf.yield %y : i8
    }}
    func.return %r : i8
  }}
}}""", [i8s, i8s]))
    out.append(("scf.if-i1-arg", """builtin.module {
  func.func @f(%c: i1, %a: i8) -> i8 {
    %r = scf.if %c -> (i8) {
      %x = arith.addi %a, %a : i8
      scf.yield %x : i8
    } else {
      scf.yield %a : i8
    }
    func.return %r : i8
  }
}""", [[0, -1], i8s]))
    out.append(("scf.if-cmp-of-cmp", """builtin.module {
  func.func @f(%a: i8, %b: i8) -> i8 {
    %t = arith.constant true
    %c = arith.cmpi slt, %a, %b : i8
    %d = arith.cmpi eq, %c, %t : i1
    %r = scf.if %d -> (i8) {
      scf.yield %a : i8
    } else {
      scf.yield %b : i8
    }
    func.return %r : i8
  }
}""", [i8s, i8s]))
    out.append(("scf.while-countdown", """builtin.module {
  func.func @f(%n: i8) -> (i8, i8) {
    %c0 = arith.constant 0 : i8
    %c1 = arith.constant 1 : i8
    %r:2 = scf.while (%x = %n, %k = %c0) : (i8, i8) -> (i8, i8) {
      %c = arith.cmpi sgt, %x, %c0 : i8
      scf.condition(%c) %x, %k : i8, i8
    } do {
    ^bb0(%y: i8, %j: i8):
      %d = arith.subi %y, %c1 : i8
      %j1 = arith.addi %j, %c1 : i8
      scf.yield %d, %j1 : i8, i8
    }
    func.return %r#0, %r#1 : i8, i8
  }
}""", [i8s]))
    out.append(("cf.cond_br-diamond", """builtin.module {
  func.func @f(%c: i1, %a: i8, %b: i8) -> i8 {
    cf.cond_br %c, ^t(%a : i8), ^e(%b, %a : i8, i8)
  ^t(%x: i8):
    %x2 = arith.addi %x, %x : i8
    cf.br ^m(%x2 : i8)
  ^e(%y: i8, %z: i8):
    %y2 = arith.subi %y, %z : i8
    cf.br ^m(%y2 : i8)
  ^m(%r: i8):
    func.return %r : i8
  }
}""", [[0, -1], i8s, i8s]))
    for pred in ("sgt", "ugt", "ne"):
        out.append((f"cf.loop-{pred}", f"""builtin.module {{
  func.func @f(%n: i8, %lim: i8) -> (i8, i8) {{
    %c0 = arith.constant 0 : i8
    %c1 = arith.constant 1 : i8
    cf.br ^h(%n, %c0 : i8, i8)
  ^h(%x: i8, %acc: i8):
    %c = arith.cmpi {pred}, %x, %lim : i8
    cf.cond_br %c, ^b, ^e(%acc, %x : i8, i8)
  ^b:
    %x1 = arith.subi %x, %c1 : i8
    %a1 = arith.addi %acc, %x : i8
    cf.br ^h(%x1, %a1 : i8, i8)
  ^e(%r: i8, %s: i8):
    func.return %r, %s : i8, i8
  }}
}}""", [i8s, [0, -1, 3, -128, 127]]))
    for what, second in (("different-operands", "%b"), ("same-operands", "%a")):
        out.append((f"cf.cond_br-same-successor-{what}", f"""builtin.module {{
  func.func @f(%c: i1, %a: i8, %b: i8) -> i8 {{
    cf.cond_br %c, ^m(%a : i8), ^m({second} : i8)
  ^m(%r: i8):
    func.return %r : i8
  }}
}}""", [[0, -1], i8s, i8s]))
    out.append(("cf.cond_br-same-successor-computed-condition", """builtin.module {
  func.func @f(%a: i8, %b: i8) -> (i8, i8) {
    %c = arith.cmpi slt, %a, %b : i8
    %d = arith.subi %a, %b : i8
    cf.cond_br %c, ^m(%a, %d : i8, i8), ^m(%d, %b : i8, i8)
  ^m(%r: i8, %s: i8):
    func.return %r, %s : i8, i8
  }
}""", [i8s, i8s]))
    out.append(("cf.cond_br-self-loop-same-successor", """builtin.module {
  func.func @f(%n: i8) -> (i8, i8) {
    %c0 = arith.constant 0 : i8
    %c1 = arith.constant 1 : i8
    cf.br ^h(%n, %c0 : i8, i8)
  ^h(%x: i8, %k: i8):
    %x1 = arith.subi %x, %c1 : i8
    %k1 = arith.addi %k, %c1 : i8
    %c = arith.cmpi sgt, %x1, %c0 : i8
    cf.cond_br %c, ^t(%x1, %k1 : i8, i8), ^t(%c0, %x1 : i8, i8)
  ^t(%y: i8, %j: i8):
    %z = arith.cmpi sgt, %y, %c0 : i8
    cf.cond_br %z, ^h(%y, %j : i8, i8), ^e
  ^e:
    func.return %y, %j : i8, i8
  }
}""", [[-128, -1, 0, 1, 2, 3, 9, 127]]))
    out.append(("cf.switch-duplicate-targets", """builtin.module {
  func.func @f(%a: i8, %b: i8) -> i8 {
    cf.switch %a : i8, [
      default: ^m(%a : i8),
      0: ^m(%b : i8),
      1: ^m(%a : i8),
      -1: ^m(%b : i8)
    ]
  ^m(%r: i8):
    func.return %r : i8
  }
}""", [i8s, i8s]))
    out.append(("cf.switch", """builtin.module {
  func.func @f(%a: i8) -> i8 {
    %c7 = arith.constant 7 : i8
    cf.switch %a : i8, [
      default: ^d(%a : i8),
      -1: ^d(%c7 : i8),
      2: ^x
    ]
  ^d(%r: i8):
    func.return %r : i8
  ^x:
    %c9 = arith.constant 9 : i8
    func.return %c9 : i8
  }
}""", [i8s]))
    out.append(("scf.index_switch", """builtin.module {
  func.func @f(%i: index) -> index {
    %r = scf.index_switch %i -> index
    case 2 {
      %a = arith.constant 20 : index
      scf.yield %a : index
    }
    default {
      scf.yield %i : index
    }
    func.return %r : index
  }
}""", [small]))
    out.append(("func.call-internal", """builtin.module {
  func.func @f(%a: i8, %b: i8) -> (i8, i8) {
    %x:2 = func.call @g(%b, %a) : (i8, i8) -> (i8, i8)
    %y:2 = func.call @g(%x#0, %x#1) : (i8, i8) -> (i8, i8)
    func.return %y#1, %x#0 : i8, i8
  }
  func.func @g(%p: i8, %q: i8) -> (i8, i8) {
    %s = arith.subi %p, %q : i8
    %m = arith.muli %p, %q : i8
    func.return %s, %m : i8, i8
  }
}""", [i8s, i8s]))
    out.append(("func.call-external", """builtin.module {
  func.func private @ext(i8) -> i8
  func.func @f(%a: i8, %c: i1) -> i8 {
    %x = func.call @ext(%a) : (i8) -> i8
    %r = scf.if %c -> (i8) {
      %y = func.call @ext(%x) : (i8) -> i8
      scf.yield %y : i8
    } else {
      scf.yield %x : i8
    }
    %z = func.call @ext(%r) : (i8) -> i8
    func.return %z : i8
  }
}""", [i8s, [0, -1]]))
    out.append(("func.call-recursive", """builtin.module {
  func.func @f(%n: i8) -> i8 {
    %c0 = arith.constant 0 : i8
    %c1 = arith.constant 1 : i8
    %c = arith.cmpi sle, %n, %c0 : i8
    %r = scf.if %c -> (i8) {
      scf.yield %c0 : i8
    } else {
      %m = arith.subi %n, %c1 : i8
      %s = func.call @f(%m) : (i8) -> i8
      %t = arith.addi %s, %n : i8
      scf.yield %t : i8
    }
    func.return %r : i8
  }
}""", [[-128, -1, 0, 1, 2, 5, 12, 30]]))
    # calls into MULTI-BLOCK callees (one interpreter scope per visited block) whose callers use pre-call values afterwards
    out.append(("func.call-recursive-cfg", """builtin.module {
  func.func @f(%n: i8) -> i8 {
    %c0 = arith.constant 0 : i8
    %c1 = arith.constant 1 : i8
    %c = arith.cmpi sle, %n, %c0 : i8
    cf.cond_br %c, ^base, ^rec
  ^base:
    func.return %c1 : i8
  ^rec:
    %m = arith.subi %n, %c1 : i8
    %s = func.call @f(%m) : (i8) -> i8
    %t = arith.muli %s, %n : i8
    cf.br ^exit(%t : i8)
  ^exit(%r: i8):
    %u = arith.addi %r, %m : i8
    func.return %u : i8
  }
}""", [[-128, -1, 0, 1, 2, 3, 5, 9]]))
    out.append(("func.call-cfg-callee", """builtin.module {
  func.func @f(%a: i8, %b: i8) -> i8 {
    %x = arith.addi %a, %b : i8
    %y = func.call @g(%x, %a) : (i8, i8) -> i8
    %z = arith.subi %y, %x : i8
    %w = func.call @g(%z, %b) : (i8, i8) -> i8
    %v = arith.xori %w, %a : i8
    func.return %v : i8
  }
  func.func @g(%p: i8, %q: i8) -> i8 {
    %c = arith.cmpi slt, %p, %q : i8
    cf.cond_br %c, ^l(%p : i8), ^r(%q, %p : i8, i8)
  ^l(%x: i8):
    %d = arith.muli %x, %q : i8
    cf.br ^j(%d : i8)
  ^r(%y: i8, %z: i8):
    %e = arith.subi %y, %z : i8
    cf.br ^j(%e : i8)
  ^j(%o: i8):
    func.return %o : i8
  }
}""", [i8s, i8s]))
    return out


def _cfprog(task) -> Stats:
    _, idx, big, seed = task
    st = Stats()
    label, text, arg_lists = cf_programs(big)[idx]
    P = Prog(text)
    if P.unimplemented:
        st.bump("programs_skipped_unimplemented_op")
        st.extra["skipped_programs"] = [f"{label} (no implementation registered for {P.unimplemented})"]
        st.outcomes[f"{label}:skipped-unimplemented"] += 1
        return st
    st.bump("programs")
    k = 0
    for args in itertools.product(*arg_lists):
        k += 1
        exec_program(st, P, args, label, (k + seed) % 211 == 0)
    return st


# ======================================================================================
# run / replay
# ======================================================================================
def _task(task) -> Stats:
    return {"single": _single, "chains": _chains, "cfprog": _cfprog, "history": _history}[task[0]](task)


def run(ctx):
    x = X()
    q = ctx.quick
    exh = 4 if q else 8          # widths enumerated exhaustively for single ops
    big = not q
    chain_types = [("i3", "all"), ("i8", "edge")] if q else [("i3", "all"), ("i4", "all"), ("i8", "boundary")]
    tasks = []
    uncovered = []
    covered = []
    for name in sorted(x["impls"]["ArithFunctions"]):
        pl = plan(name, exh)
        if pl is None:
            uncovered.append(name)
            continue
        covered.append(name)
        for varg, in_types, target in pl:
            tasks.append(("single", name, varg, tuple(in_types), target, exh, big, ctx.seed))
    for t, mode in chain_types:
        n = len(chain_specs(t))
        step = 12
        for lo in range(0, n, step):
            tasks.append(("chains", t, lo, min(n, lo + step), mode, ctx.seed))
    nprog = len(cf_programs(big))
    for i in range(nprog):
        tasks.append(("cfprog", i, big, ctx.seed))
    # control-flow implementations must each be exercised by at least one program that is not skipped
    used = set()
    for label, text, _ in cf_programs(big):
        P = Prog(text)
        if not P.unimplemented:
            used |= {op.name for op in P.mod.walk()}
    for cls_name in ("ScfFunctions", "CfFunctions", "FuncFunctions"):
        for name in sorted(x["impls"][cls_name]):
            (covered if name in used else uncovered).append(name)
    # history dimension first: every sequence in its own freshly forked worker (procs = number of sequences, so no
    # worker runs two sequences and none has interpreted anything before); this parent never interprets anything.
    hist_tasks = [("history", seq, exh, big, ctx.seed) for seq in HIST_SEQS]
    hist = [st for _, st in pmap(_task, hist_tasks, procs=len(hist_tasks))]
    classify_history(hist)
    for st in hist:
        ctx.merge(st)
    for _, st in pmap(_task, tasks):
        ctx.merge(st)
    for name in uncovered:
        ctx.stats.cap(f"registered interpreter implementation without a driver: {name}")
    ctx.stats.extra["covered_impls"] = sorted(covered)
    ctx.stats.extra["uncovered_impls"] = sorted(uncovered)
    ctx.stats.extra["arith_ops_without_interpreter_impl"] = sorted(
        o.name for o in x["arith"].Arith.operations if o.name not in x["impls"]["ArithFunctions"])
    ctx.bounds = {
        "single_op_exhaustive_widths": f"i1..i{exh} (i1 also fed Python True)",
        "single_op_boundary_widths": [t for t in int_types(exh) if (twidth(t) or 0) > exh],
        "boundary_values_per_wide_type": len(boundary_ints(16, big)),
        "float_values_per_type": len(float_patterns(R.F32, big)),
        "float_types": list(FLOATS),
        "cmpi_predicates": 10, "cmpf_predicates": 16,
        "chains": [f"{t}: {len(chain_vals(t, mode))} values per argument ({mode})" for t, mode in chain_types],
        "chain_programs_per_type": len(chain_specs("i3")),
        "control_flow_programs": nprog,
        "index_width": INDEX_W,
        "index_bitwidth_histories": [list(q) for q in HIST_SEQS],
        "index_ops_per_history_step": len(index_plans(exh)),
    }
    ctx.rule = ("single ops: every registered ArithFunctions impl x every operand tuple of the narrow widths / boundary "
                "tuples of the wide ones / float boundary pairs; programs: every 2-op chain and each control-flow program "
                "x every argument tuple of its input grid; states = (op or program, input) pairs, executions = those on "
                "which the reference is defined (POISON/UB excluded); non-trivial = some operand or result has its sign "
                "bit set (signed and unsigned views differ) or is a zero / subnormal / infinite / NaN float")
    ctx.assumptions = ["mc/refsem.py implements the MLIR semantics (self test: python -m mc.refsem)",
                       "index is 64 bits wide (Interpreter(index_bitwidth=64))",
                       "operands are fed in the signed form arith.constant produces; i1 additionally as Python True",
                       "an op without a registered implementation is out of scope (listed, programs using it skipped)"]


def replay(rep) -> bool:
    w = rep["witness"]
    st = Stats()
    if w["kind"] == "history":
        # the replay process has not interpreted anything yet: re-run the recorded sequence of configurations
        st = _history(("history", tuple(w["seq"]), w["exh"], w["big"], 0))
        head = "|".join(rep["signature"].split("|")[:3]) + "|"
        return not any(k.startswith(head) and k.split(_HSEP)[1] == str(w["step"]) for k in st.violations)
    if w["kind"] == "single":
        x = X()
        interp = x["new_interp"]()
        mach = R.Machine(index_width=INDEX_W)
        if CATEGORY[w["op"]] == "const":
            t = x["ty"](w["target"])
            v = py_unjson(w["value"])
            attr = x["FloatAttr"](v, t) if isinstance(v, float) else x["IntegerAttr"](v, t)
            op = x["arith"].ConstantOp(attr)
            run_one(st, interp, mach, op, "-", (), [], {}, False)
        else:
            op = build_op(w["op"], w["varg"], w["in_types"], w["target"])
            py_args = tuple(py_unjson(a) for a in w["args"])
            ref_args = []
            for t, v in zip(w["in_types"], py_args):
                ref_args.append(R.float_to_bits(R.FLOAT_FORMATS[t], v) if t in R.FLOAT_FORMATS else v & ((1 << twidth(t)) - 1))
            run_one(st, interp, mach, op, variant_of(op), py_args, ref_args, {}, False)
    else:
        P = Prog(w["text"], w.get("func", "f"))
        exec_program(st, P, tuple(py_unjson(a) for a in w["args"]), w.get("label", "program"))
    return rep["signature"] not in st.violations
