"""C16 -- control-flow and loop lowerings preserve program results.

Bounded-exhaustive: every program of a set of small program FAMILIES (generated below as IR text) is run
through each structural pass; the original and the transformed module are both executed by the independent
reference semantics `mc.refsem` on every argument vector of a small grid.  For every vector on which the
ORIGINAL is defined (no poison / immediate UB / ambiguity / fuel exhaustion) the transformed program must
verify, be defined, return the same results, leave the same memory and produce the same ORDERED effect log
(calls to the external `@log`, memory stores).

  pass declines (IR text unchanged)            -> fine, counted
  pass raises                                   -> outcome "reported-failure", counted, NOT a violation
  pass burns > PASS_TIMEOUT_S of CPU time      -> outcome "timeout", counted, NOT a violation
  original defined on no vector of the grid     -> program skipped (no pass is run on it)

Signature:  C16|<pass>|<shape class>|<result|effect-order|effect-count|effect-value|poison-introduced|
                                      does-not-verify|malformed-ir>
The shape class is a coarse structural label of the program family; it is chosen per pass (the feature the
pass looks at comes first), never from run-time values.

symref: refsem does not model `symref`; this module teaches it a dict store through the `unknown_op` hook
(declare = fresh uninitialised cell, fetch of an uninitialised cell = poison, fetch/update of an undeclared
symbol or re-declaration = immediate UB).
"""
from __future__ import annotations

import itertools
import signal

from mc import refsem as R
from mc.pool import pmap
from mc.stats import Stats

ARGV = (-2, -1, 0, 1, 2, 3)            # every scalar argument ranges over this grid
MEM0 = (5, -3, 2, 7)                   # initial contents of the 4-element memref argument
FUEL = 4000
PASS_TIMEOUT_S = 10.0

SCF_PASSES = ("convert-scf-to-cf", "scf-for-loop-range-folding", "scf-for-loop-flatten", "scf-for-loop-unroll",
              "licm", "control-flow-hoist")
AFFINE_PASSES = ("lower-affine",)
SYMREF_PASSES = ("frontend-desymrefy",)
ALL_PASSES = SCF_PASSES + AFFINE_PASSES + SYMREF_PASSES

# per pass: which structural feature names the label (first one present wins); then the default order
_DEFAULT_ORDER = ("nested-for-iv-sum", "nested-for-ivs-unused", "nested-for",
                  "while", "index-switch", "if-guarded-remsi", "if-guarded-floordivsi", "if-guarded-ceildivsi", "if-guarded-divsi", "if-pure", "if-effect", "if",
                  "load-store", "iv-muli-by-nonpositive-const", "iv-muli-by-argument", "iv-muli-by-positive-const", "iv-addi", "invariant-remsi", "invariant-pure", "invariant-effect",
                  "two-iter-args-crossed-yield", "two-iter-args", "iter-arg", "symbolic-bounds", "const-bounds")
_PRIORITY = {
    "scf-for-loop-range-folding": ("iv-muli-by-nonpositive-const", "iv-muli-by-argument", "iv-muli-by-positive-const", "iv-addi"),
    "licm": ("invariant-remsi", "load-store", "invariant-pure", "invariant-effect"),
    "control-flow-hoist": ("if-guarded-remsi", "if-guarded-floordivsi", "if-guarded-ceildivsi", "if-guarded-divsi", "if-pure", "if-effect", "if"),
}


def shape_class(pass_name: str, base: str, feats: frozenset) -> str:
    prio = _PRIORITY.get(pass_name, ())
    if pass_name not in _PRIORITY:
        prio = tuple(sorted(f for f in feats if "-flatten-" in f))      # perfect 2-nests: the shape flatten looks at
    for f in prio + _DEFAULT_ORDER + tuple(sorted(feats)):
        if f in feats:
            if f.startswith(base) or (f in prio and f.startswith("if")) or f.startswith("nested-for"):
                return f                      # e.g. an scf.if inside a loop is the same shape for control-flow-hoist
            return f"{base}-{f}"
    return base


# ======================================================================================
# xDSL side (lazy)
# ======================================================================================
_X = None


def X():
    global _X
    if _X is None:
        from xdsl.context import Context
        from xdsl.dialects import affine, arith, builtin, cf, func, memref, scf, symref, test
        from xdsl.parser import Parser
        from xdsl.transforms import get_all_passes

        ctx = Context()
        for d in (builtin.Builtin, func.Func, arith.Arith, scf.Scf, cf.Cf, memref.MemRef, affine.Affine,
                  symref.Symref, test.Test):
            ctx.load_dialect(d)
        allp = get_all_passes()
        _X = {"ctx": ctx, "Parser": Parser, "passes": {n: allp[n]() for n in ALL_PASSES}}
    return _X


class _Timeout(BaseException):
    pass


def _on_alarm(signum, frame):
    raise _Timeout()


def apply_pass(name: str, module) -> None:
    x = X()
    # CPU-time (not wall-clock) alarm, so that the outcome does not depend on the load of the machine
    old = signal.signal(signal.SIGVTALRM, _on_alarm)
    signal.setitimer(signal.ITIMER_VIRTUAL, PASS_TIMEOUT_S)
    try:
        x["passes"][name]().apply(x["ctx"], module)
    finally:
        signal.setitimer(signal.ITIMER_VIRTUAL, 0)
        signal.signal(signal.SIGVTALRM, old)


# ======================================================================================
# symref semantics for refsem (a dict store on the machine)
# ======================================================================================
_UNSET = object()


def symref_hook(m, op, vals):
    n = op.name
    if not n.startswith("symref."):
        return None
    store = m.__dict__.setdefault("c16_symstore", {})
    if n == "symref.declare":
        name = op.properties["sym_name"].data
        if name in store:
            raise R.UndefinedBehaviour("symbol declared twice")
        store[name] = _UNSET
        return []
    name = op.properties["symbol"].root_reference.data
    if name not in store:
        raise R.UndefinedBehaviour(f"symbol @{name} is not declared")
    if n == "symref.fetch":
        v = store[name]
        return [R.POISON if v is _UNSET else v]
    if n == "symref.update":
        store[name] = vals[0]
        return []
    return None


def run_ref(module, args):
    """-> ("ok", results, log, memory) | ("undef", reason) | ("diverges",) | ("malformed", msg) | ("unsupported", msg)"""
    try:
        o = R.execute(module, list(args), "f", unknown_op=symref_hook, fuel=FUEL)
    except R.OutOfFuel:
        return ("diverges",)
    except R.Unsupported as e:
        return ("unsupported", str(e)[:200])
    except R.RefsemError as e:
        return ("malformed", str(e)[:200])
    if not o.defined:
        return ("undef", o.ub or o.ambiguous or "poison result")
    return ("ok", o.results, o.log, o.memory)


def diff_kind(ref, got) -> str | None:
    """ref is an ("ok", ...) run of the original, got any run of the transformed program"""
    if got[0] in ("undef", "diverges"):
        return "poison-introduced"
    if got[0] == "malformed":
        return "malformed-ir"
    _, r1, l1, m1 = ref
    _, r2, l2, m2 = got
    if l1 != l2:
        if len(l1) != len(l2):
            return "effect-count"
        if sorted(map(repr, l1)) == sorted(map(repr, l2)):
            return "effect-order"
        return "effect-value"
    if not R.results_equal(r1, r2) or m1 != m2:
        return "result"
    return None


_KIND_RANK = {"malformed-ir": 0, "poison-introduced": 1, "effect-count": 2, "effect-order": 3, "effect-value": 4,
              "result": 5}


# ======================================================================================
# program families:  each program is a dict
#   {"text": IR, "args": [domain per argument], "base": str, "feats": frozenset, "passes": tuple}
# ======================================================================================
def _prog(text, args, base, feats, passes):
    return {"text": text, "args": args, "base": base, "feats": frozenset(feats), "passes": passes}


def _c(v: int) -> str:
    return f"%cm{-v}" if v < 0 else f"%c{v}"


def _consts(used: set, ty: str = "index", ind: str = "    ") -> str:
    return "".join(f"{ind}{_c(v)} = arith.constant {v} : {ty}\n" for v in sorted(used))


# ---- generic scf.for family -----------------------------------------------------------------
# body alphabet; "last" = the last index value defined in the body (the induction variable if there is none):
#   A(x, c)   %v = addi x, c          x in {iv, last}, c in {2, %p}         (range folding looks for these users of iv)
#   M(x, c)   %v = muli x, c          x in {iv, last}, c in {-1, 0, 2, %p}
#   ACC       %v = addi %acc, last    (only with an iter_arg; the last value is what the loop yields)
#   INV       %v = addi %p, 2         loop-invariant pure op           INVR  %v = remsi 3, %p  (invariant, UB when %p == 0)
#   LOGV      call @log(last)         effect on a loop-variant value    LOGI  call @log(%p)     effect on an invariant value
#   NIF e/r/g scf.if on `cmpi slt iv, 2` with an effect / with a pure result; g: `if %p != 0 { last remsi %p }`
#   NFOR j/s/u nested scf.for 0 to 2 step 1 logging j / i + j / an invariant value
def body_alphabet(level: int) -> list[tuple]:
    """level 0: full alphabet, level 1: reduced alphabet used for the longest bodies"""
    ops: list[tuple] = []
    for x in (("iv", "last") if level == 0 else ("iv",)):
        for c in (2, "p"):
            ops.append(("A", x, c))
    for x in (("iv", "last") if level == 0 else ("iv",)):
        for c in ((-1, 0, 2, "p") if level == 0 else (-1, 2, "p")):
            ops.append(("M", x, c))
    ops += [("ACC",), ("INV",), ("INVR",), ("LOGV",), ("LOGI",)]
    ops += [("NIF", "e"), ("NIF", "r")] + ([("NIF", "g")] if level == 0 else [])
    ops += [("NFOR", "s"), ("NFOR", "u")] + ([("NFOR", "j")] if level == 0 else [])
    return ops


def for_program(bounds: tuple, iter_arg: bool, body: tuple) -> dict | None:
    """bounds: (lb, ub, step) each an int or "arg".  Returns None for ill-formed combinations."""
    used: set[int] = set()
    feats: set[str] = set()
    fargs: list[str] = []
    names = []
    for b, nm in zip(bounds, ("lb", "ub", "st")):
        if b == "arg":
            fargs.append(f"%{nm}: index")
            names.append(f"%{nm}")
        else:
            used.add(b)
            names.append(_c(b))
    uses_p = False
    lines: list[str] = []
    last = None
    n = 0
    if iter_arg:
        feats.add("iter-arg")

    def L():
        return last if last is not None else "%i"

    chain = False       # `last` is an addi/muli chain on the induction variable
    for op in body:
        n += 1
        k = op[0]
        if k in ("ACC", "INV", "INVR") or (k == "NIF" and op[1] in ("r", "g")):
            chain = False                     # these ops redefine `last`
        if k in ("A", "M"):
            _, x, c = op
            if x == "last" and last is None:
                return None                      # same program as x == "iv"
            src = "%i" if x == "iv" else last
            if c == "p":
                uses_p = True
                cn = "%p"
            else:
                used.add(c)
                cn = _c(c)
            if x == "iv" or chain:            # the operand is the induction variable or an addi/muli chain on it
                if k == "A":
                    feats.add("iv-addi")
                else:
                    feats.add("iv-muli-by-argument" if c == "p" else
                              "iv-muli-by-positive-const" if c > 0 else "iv-muli-by-nonpositive-const")
                chain_next = True
            else:
                chain_next = False
            lines.append(f"%v{n} = arith.{'addi' if k == 'A' else 'muli'} {src}, {cn} : index")
            last = f"%v{n}"
            chain = chain_next
            continue
        elif k == "ACC":
            if not iter_arg:
                return None
            lines.append(f"%v{n} = arith.addi %acc, {L()} : index")
            last = f"%v{n}"
        elif k == "INV":
            uses_p = True
            used.add(2)
            feats.add("invariant-pure")
            lines.append(f"%v{n} = arith.addi %p, %c2 : index")
            last = f"%v{n}"
        elif k == "INVR":
            uses_p = True
            used.add(3)
            feats.add("invariant-remsi")
            lines.append(f"%v{n} = arith.remsi %c3, %p : index")
            last = f"%v{n}"
        elif k == "LOGV":
            lines.append(f"func.call @log({L()}) : (index) -> ()")
        elif k == "LOGI":
            uses_p = True
            feats.add("invariant-effect")
            lines.append("func.call @log(%p) : (index) -> ()")
        elif k == "NIF":
            v = op[1]
            if v == "e":
                used.add(2)
                feats.add("if-effect")
                lines.append(f"%b{n} = arith.cmpi slt, %i, %c2 : index")
                lines.append(f"scf.if %b{n} {{")
                lines.append(f"  func.call @log({L()}) : (index) -> ()")
                lines.append("}")
            elif v == "r":
                used.add(2)
                uses_p = True
                feats.add("if-pure")
                lines.append(f"%b{n} = arith.cmpi slt, %i, %c2 : index")
                lines.append(f"%v{n} = scf.if %b{n} -> (index) {{")
                lines.append(f"  %t{n} = arith.addi {L()}, %p : index")
                lines.append(f"  scf.yield %t{n} : index")
                lines.append("} else {")
                lines.append(f"  scf.yield {L()} : index")
                lines.append("}")
                last = f"%v{n}"
            else:
                used.add(0)
                uses_p = True
                feats.add("if-guarded-remsi")
                lines.append(f"%b{n} = arith.cmpi ne, %p, %c0 : index")
                lines.append(f"%v{n} = scf.if %b{n} -> (index) {{")
                lines.append(f"  %t{n} = arith.remsi {L()}, %p : index")
                lines.append(f"  scf.yield %t{n} : index")
                lines.append("} else {")
                lines.append(f"  scf.yield {L()} : index")
                lines.append("}")
                last = f"%v{n}"
        elif k == "NFOR":
            v = op[1]
            used.update((0, 1, 2))
            lines.append(f"scf.for %j{n} = %c0 to %c2 step %c1 {{")
            if v == "j":
                feats.add("nested-for")
                lines.append(f"  func.call @log(%j{n}) : (index) -> ()")
            elif v == "s":
                feats.add("nested-for-iv-sum")
                lines.append(f"  %t{n} = arith.addi %i, %j{n} : index")
                lines.append(f"  func.call @log(%t{n}) : (index) -> ()")
            else:
                uses_p = True
                feats.add("nested-for-ivs-unused")
                lines.append(f"  %t{n} = arith.addi %p, %c2 : index")
                lines.append(f"  func.call @log(%t{n}) : (index) -> ()")
            lines.append("}")
        else:
            raise AssertionError(op)
    if uses_p:
        fargs.append("%p: index")
    if iter_arg:
        used.add(1)
    head = f"  func.func @f({', '.join(fargs)}) -> ({'index' if iter_arg else ''}) {{\n"
    t = "builtin.module {\n  func.func private @log(index) -> ()\n" + head + _consts(used)
    if iter_arg:
        t += f"    %r = scf.for %i = {names[0]} to {names[1]} step {names[2]} iter_args(%acc = %c1) -> (index) {{\n"
    else:
        t += f"    scf.for %i = {names[0]} to {names[1]} step {names[2]} {{\n"
    t += "".join(f"      {ln}\n" for ln in lines)
    if iter_arg:
        t += f"      scf.yield {last if last is not None else '%acc'} : index\n"
    t += "    }\n"
    t += "    func.return %r : index\n" if iter_arg else "    func.return\n"
    t += "  }\n}\n"
    base = "for"
    feats.add("const-bounds" if "arg" not in bounds else "symbolic-bounds")
    if len(body) == 1 and body[0][0] == "NFOR" and not iter_arg:      # a perfect 2-nest: name it as the flatten family does
        kind = {"s": "sum", "u": "unused", "j": "inner"}[body[0][1]]
        feats.add(flatten_feature("index", kind, bounds[0], bounds[1], bounds[2], 0, 2, 1))
    return _prog(t, [ARGV] * len(fargs), base, feats, SCF_PASSES)


CONST_RANGE = (-2, -1, 0, 1, 2, 3, 4)


def bounds_full() -> list[tuple]:
    vals = CONST_RANGE + ("arg",)
    return [(lb, ub, st) for lb in vals for ub in vals for st in vals if st == "arg" or st > 0]


BOUNDS_CORE_Q = [(0, 3, 1), (0, 3, 2), (2, 0, 1), (1, "arg", 1), ("arg", 3, 2), (0, 3, "arg")]
BOUNDS_CORE_T = BOUNDS_CORE_Q + [(-2, 2, 3), (1, 1, 1), (0, 4, 4), ("arg", "arg", 1), (0, "arg", "arg"), (-2, "arg", 2)]
BOUNDS_3FULL = [(0, 3, 2), (1, "arg", 1)]
BODIES_SMALL = [(False, (("LOGV",),)), (True, (("ACC",),)), (False, (("M", "iv", 2), ("LOGV",))),
                (False, (("A", "iv", 2), ("LOGV",))), (True, (("M", "iv", -1), ("ACC",)))]


def bodies(max_len: int, level: int) -> list[tuple]:
    alpha = body_alphabet(level)
    out = []
    for n in range(0, max_len + 1):
        out.extend(itertools.product(alpha, repeat=n))
    return out


def gen_for(quick: bool) -> list[dict]:
    out = []
    for b in bounds_full():
        for it, body in BODIES_SMALL:
            out.append(for_program(b, it, body))
    if quick:
        plan = [(BOUNDS_CORE_Q, bodies(2, 0))]
    else:
        plan = [(bounds_full(), bodies(1, 0)), (BOUNDS_CORE_T, bodies(2, 0)), (BOUNDS_CORE_Q, bodies(3, 1)),
                (BOUNDS_3FULL, bodies(3, 0))]
    for bs, bds in plan:
        for b in bs:
            for it in (False, True):
                for body in bds:
                    out.append(for_program(b, it, body))
    return [p for p in out if p is not None]


# ---- perfectly nested pairs for scf-for-loop-flatten ---------------------------------------------
def flatten_feature(ty: str, kind: str, olb, oub, ost, ilb: int, iub: int, ist: int) -> str:
    """shape class of a perfect 2-nest, from the program text only (constants / which bounds are arguments)"""
    pre = "nested-for-" if ty == "index" else f"nested-for-{ty}-"
    symbolic = "arg" in (olb, oub, ost)
    if kind == "sum":      # body uses addi %i, %j only
        if symbolic:
            return pre + "flatten-iv-sum-symbolic"
        return pre + ("flatten-iv-sum-nondividing" if (oub - olb) % ost or ost % ist else "flatten-iv-sum-dividing")
    if kind == "unused":   # neither induction variable is used
        if ty != "index":
            return pre + "flatten-unused"
        if symbolic or (oub - olb) % ost or (iub - ilb) % ist or iub < ilb:
            return pre + "flatten-unused-nondividing"
        return pre + "flatten-unused-dividing"
    return pre + "flatten-declined-shape"


def flatten_program(ty: str, olb, oub, ost: int, ilb: int, iub: int, ist: int, kind: str, iter_arg: bool) -> dict:
    used = {ost, ilb, iub, ist}
    fargs = []
    on = []
    for b, nm in ((olb, "lb"), (oub, "ub")):
        if b == "arg":
            fargs.append(f"%{nm}: {ty}")
            on.append(f"%{nm}")
        else:
            used.add(b)
            on.append(_c(b))
    if iter_arg or kind == "unused":
        used.add(1)
    body = []
    val = None
    if kind == "sum":
        body.append(f"%k = arith.addi %i, %j : {ty}")
        body.append(f"func.call @log(%k) : ({ty}) -> ()")
        val = "%k"
    elif kind == "unused":
        body.append(f"func.call @log(%c1) : ({ty}) -> ()")
        val = "%c1"
    elif kind == "inner":
        body.append(f"func.call @log(%j) : ({ty}) -> ()")
        val = "%j"
    else:  # "both": both induction variables used, separately
        body.append(f"func.call @log(%i) : ({ty}) -> ()")
        body.append(f"func.call @log(%j) : ({ty}) -> ()")
        val = "%j"
    t = f"builtin.module {{\n  func.func private @log({ty}) -> ()\n"
    t += f"  func.func @f({', '.join(fargs)}) -> ({ty if iter_arg else ''}) {{\n" + _consts(used, ty)
    if iter_arg:
        t += f"    %r = scf.for %i = {on[0]} to {on[1]} step {_c(ost)} iter_args(%acc = %c1) -> ({ty}) : {ty} {{\n" \
            if ty != "index" else \
            f"    %r = scf.for %i = {on[0]} to {on[1]} step {_c(ost)} iter_args(%acc = %c1) -> ({ty}) {{\n"
        t += f"      %r2 = scf.for %j = {_c(ilb)} to {_c(iub)} step {_c(ist)} iter_args(%acc2 = %acc) -> ({ty})" \
             + (f" : {ty}" if ty != "index" else "") + " {\n"
        t += "".join(f"        {ln}\n" for ln in body)
        t += f"        %n = arith.addi %acc2, {val} : {ty}\n        scf.yield %n : {ty}\n      }}\n"
        t += f"      scf.yield %r2 : {ty}\n    }}\n    func.return %r : {ty}\n"
    else:
        suffix = f" : {ty}" if ty != "index" else ""
        t += f"    scf.for %i = {on[0]} to {on[1]} step {_c(ost)}{suffix} {{\n"
        t += f"      scf.for %j = {_c(ilb)} to {_c(iub)} step {_c(ist)}{suffix} {{\n"
        t += "".join(f"        {ln}\n" for ln in body)
        t += "      }\n    }\n    func.return\n"
    t += "  }\n}\n"
    feats = {flatten_feature(ty, kind, olb, oub, ost, ilb, iub, ist)}
    if iter_arg:
        feats.add("iter-arg")
    return _prog(t, [ARGV] * len(fargs), "nested-for", feats, ("scf-for-loop-flatten", "convert-scf-to-cf"))


def gen_flatten(quick: bool) -> list[dict]:
    out = []
    if quick:
        outer = [(lb, ub, st) for lb in (0, 1) for ub in (-2, 0, 3, 4) for st in (1, 2)] + [(0, "arg", 2), ("arg", 4, 2)]
        inner = [(lb, ub, st) for lb in (0, 1) for ub in (0, 2, 3) for st in (1, 2)]
        types = ("index",)
    else:
        outer = [(lb, ub, st) for lb in (0, 1, "arg") for ub in CONST_RANGE + ("arg",) for st in (1, 2, 3)]
        inner = [(lb, ub, st) for lb in (0, 1) for ub in (0, 1, 2, 3, 4) for st in (1, 2, 3)]
        types = ("index", "i32")
    for ty in types:
        for o in outer:
            for i in inner:
                for kind in ("sum", "unused", "inner", "both"):
                    for it in (False, True):
                        out.append(flatten_program(ty, *o, *i, kind, it))
    if quick:  # a few i32 nests
        for o in ((0, 4, 2), (0, 3, 2)):
            for i in ((0, 2, 1), (0, 3, 2)):
                for kind in ("sum", "unused"):
                    out.append(flatten_program("i32", *o, *i, kind, False))
    return out


# ---- explicit templates: scf.if / scf.index_switch / scf.while / memory loops --------------------
_HDR = "builtin.module {\n  func.func private @log(index) -> ()\n"
_K = ("    %cm1 = arith.constant -1 : index\n    %c0 = arith.constant 0 : index\n    %c1 = arith.constant 1 : index\n"
      "    %c2 = arith.constant 2 : index\n    %c3 = arith.constant 3 : index\n    %c4 = arith.constant 4 : index\n")


def _wrap(sig: str, body: str) -> str:
    return _HDR + f"  func.func @f({sig[0]}) -> ({sig[1]}) {{\n" + _K + body + "  }\n}\n"


def gen_if(quick: bool) -> list[dict]:
    out = []
    conds = [("slt", "%a", "%b"), ("eq", "%a", "%b"), ("ne", "%b", "%c0"), ("sge", "%a", "%c1")]
    log = "func.call @log({}) : (index) -> ()"
    for pred, x, y in conds:
        c = f"    %c = arith.cmpi {pred}, {x}, {y} : index\n"
        two = ("%a: index, %b: index", "")
        twor = ("%a: index, %b: index", "index")
        shapes = [
            ("if-effect", two, c + "    scf.if %c {\n      " + log.format("%a") + "\n    }\n    " + log.format("%b") + "\n    func.return\n"),
            ("if-effect", two, c + "    scf.if %c {\n      " + log.format("%a") + "\n    } else {\n      " + log.format("%b")
             + "\n    }\n    func.return\n"),
            ("if", twor, c + "    %r = scf.if %c -> (index) {\n      scf.yield %a : index\n    } else {\n      scf.yield %b : index\n    }\n"
             "    func.return %r : index\n"),
            ("if-pure", twor, c + "    %r = scf.if %c -> (index) {\n      %t = arith.addi %a, %b : index\n      scf.yield %t : index\n    } else {\n"
             "      %u = arith.muli %a, %b : index\n      scf.yield %u : index\n    }\n    func.return %r : index\n"),
            ("if-pure", twor, c + "    %r = scf.if %c -> (index) {\n      %t = arith.addi %a, %b : index\n      %u = arith.muli %t, %t : index\n"
             "      scf.yield %u : index\n    } else {\n      scf.yield %a : index\n    }\n    func.return %r : index\n"),
            ("if-guarded-remsi", twor, c + "    %r = scf.if %c -> (index) {\n      %t = arith.remsi %a, %b : index\n      scf.yield %t : index\n"
             "    } else {\n      scf.yield %a : index\n    }\n    func.return %r : index\n"),
            ("if-guarded-divsi", twor, c + "    %r = scf.if %c -> (index) {\n      %t = arith.divsi %a, %b : index\n      scf.yield %t : index\n"
             "    } else {\n      scf.yield %a : index\n    }\n    func.return %r : index\n"),
            ("if-guarded-floordivsi", twor, c + "    %r = scf.if %c -> (index) {\n      %t = arith.floordivsi %a, %b : index\n      scf.yield %t : index\n"
             "    } else {\n      scf.yield %a : index\n    }\n    func.return %r : index\n"),
            ("if-guarded-ceildivsi", twor, c + "    %r = scf.if %c -> (index) {\n      %t = arith.ceildivsi %a, %b : index\n      scf.yield %t : index\n"
             "    } else {\n      scf.yield %a : index\n    }\n    func.return %r : index\n"),
            ("if-effect", twor, c + "    %r = scf.if %c -> (index) {\n      " + log.format("%a") + "\n      scf.yield %a : index\n    } else {\n"
             "      scf.yield %b : index\n    }\n    " + log.format("%r") + "\n    func.return %r : index\n"),
            ("if-effect", two, c + "    %d = arith.cmpi slt, %a, %c1 : index\n    scf.if %c {\n      scf.if %d {\n        " + log.format("%a")
             + "\n      } else {\n        " + log.format("%b") + "\n      }\n      " + log.format("%c2") + "\n    }\n    func.return\n"),
            ("if-pure", twor, c + "    %d = arith.cmpi slt, %a, %c1 : index\n    %r = scf.if %c -> (index) {\n      %q = scf.if %d -> (index) {\n"
             "        %t = arith.addi %a, %c2 : index\n        scf.yield %t : index\n      } else {\n        scf.yield %b : index\n      }\n"
             "      scf.yield %q : index\n    } else {\n      scf.yield %c3 : index\n    }\n    func.return %r : index\n"),
            ("if-effect", two, c + "    scf.if %c {\n      scf.for %i = %c0 to %b step %c1 {\n        " + log.format("%i")
             + "\n      }\n    }\n    func.return\n"),
            ("if", ("%a: index, %b: index", "index, index"),
             c + "    %r, %s = scf.if %c -> (index, index) {\n      scf.yield %a, %b : index, index\n    } else {\n"
             "      scf.yield %b, %a : index, index\n    }\n    func.return %r, %s : index, index\n"),
        ]
        for feat, sig, body in shapes:
            out.append(_prog(_wrap(sig, body), [ARGV, ARGV], "if", {feat}, SCF_PASSES))
    return out


def gen_switch(quick: bool) -> list[dict]:
    out = []
    case_sets = [(), (0,), (0, 2), (-1, 3), (1, 2, 3)]
    log = "func.call @log({}) : (index) -> ()"
    for cases in case_sets:
        # effect only
        b = "    scf.index_switch %a\n"
        for i, cv in enumerate(cases):
            b += f"    case {cv} {{\n      {log.format(_c(i + 1))}\n      scf.yield\n    }}\n"
        b += f"    default {{\n      {log.format('%cm1')}\n      scf.yield\n    }}\n    func.return\n"
        out.append(_prog(_wrap(("%a: index", ""), b), [ARGV], "index-switch", {"index-switch"}, SCF_PASSES))
        # result
        b = "    %r = scf.index_switch %a -> index\n"
        for i, cv in enumerate(cases):
            b += f"    case {cv} {{\n      scf.yield {_c(i + 1)} : index\n    }}\n"
        b += "    default {\n      scf.yield %cm1 : index\n    }\n    func.return %r : index\n"
        out.append(_prog(_wrap(("%a: index", "index"), b), [ARGV], "index-switch", {"index-switch"}, SCF_PASSES))
        # result + effect + computation on the argument
        b = "    %r = scf.index_switch %a -> index\n"
        for i, cv in enumerate(cases):
            b += f"    case {cv} {{\n      %t{i} = arith.addi %a, {_c(i + 1)} : index\n      {log.format(f'%t{i}')}\n      scf.yield %t{i} : index\n    }}\n"
        b += f"    default {{\n      {log.format('%a')}\n      scf.yield %a : index\n    }}\n    {log.format('%r')}\n    func.return %r : index\n"
        out.append(_prog(_wrap(("%a: index", "index"), b), [ARGV], "index-switch", {"index-switch"}, SCF_PASSES))
        # inside a loop, switching on the induction variable
        b = "    %r = scf.for %i = %cm1 to %a step %c1 iter_args(%acc = %c0) -> (index) {\n      %s = scf.index_switch %i -> index\n"
        for i, cv in enumerate(cases):
            b += f"      case {cv} {{\n        {log.format(_c(i + 1))}\n        scf.yield {_c(i + 1)} : index\n      }}\n"
        b += ("      default {\n        scf.yield %c4 : index\n      }\n      %n = arith.addi %acc, %s : index\n      scf.yield %n : index\n    }\n"
              "    func.return %r : index\n")
        out.append(_prog(_wrap(("%a: index", "index"), b), [ARGV], "index-switch", {"index-switch"}, SCF_PASSES))
    return out


def gen_while(quick: bool) -> list[dict]:
    out = []
    log = "func.call @log({}) : (index) -> ()"
    for pred, lim in (("sgt", "%c0"), ("sge", "%c0"), ("ne", "%c0"), ("sgt", "%b")):
        for step in (1, 2, 3):
            sig2 = "%a: index, %b: index" if lim == "%b" else "%a: index"
            dom = [ARGV, ARGV] if lim == "%b" else [ARGV]
            # countdown, one carried value
            b = (f"    %r = scf.while (%x = %a) : (index) -> (index) {{\n      %c = arith.cmpi {pred}, %x, {lim} : index\n"
                 f"      scf.condition(%c) %x : index\n    }} do {{\n    ^bb0(%y: index):\n      {log.format('%y')}\n"
                 f"      %n = arith.subi %y, {_c(step)} : index\n      scf.yield %n : index\n    }}\n    func.return %r : index\n")
            out.append(_prog(_wrap((sig2, "index"), b), dom, "while", {"while"}, SCF_PASSES))
            # two carried values, accumulator, value forwarded from the before region
            b = (f"    %r, %s = scf.while (%x = %a, %acc = %c0) : (index, index) -> (index, index) {{\n"
                 f"      %c = arith.cmpi {pred}, %x, {lim} : index\n      %k = arith.addi %acc, %x : index\n"
                 f"      scf.condition(%c) %x, %k : index, index\n    }} do {{\n    ^bb0(%y: index, %z: index):\n"
                 f"      %n = arith.subi %y, {_c(step)} : index\n      scf.yield %n, %z : index, index\n    }}\n"
                 f"    func.return %r, %s : index, index\n")
            out.append(_prog(_wrap((sig2, "index, index"), b), dom, "while", {"while"}, SCF_PASSES))
            # do-while: effect in the before region
            b = (f"    %r = scf.while (%x = %a) : (index) -> (index) {{\n      {log.format('%x')}\n"
                 f"      %n = arith.subi %x, {_c(step)} : index\n      %c = arith.cmpi {pred}, %n, {lim} : index\n"
                 f"      scf.condition(%c) %n : index\n    }} do {{\n    ^bb0(%y: index):\n      scf.yield %y : index\n    }}\n"
                 f"    func.return %r : index\n")
            out.append(_prog(_wrap((sig2, "index"), b), dom, "while", {"while"}, SCF_PASSES))
            # structured ops inside the after region
            b = (f"    %r = scf.while (%x = %a) : (index) -> (index) {{\n      %c = arith.cmpi {pred}, %x, {lim} : index\n"
                 f"      scf.condition(%c) %x : index\n    }} do {{\n    ^bb0(%y: index):\n      %e = arith.cmpi slt, %y, %c2 : index\n"
                 f"      scf.if %e {{\n        {log.format('%y')}\n      }}\n      scf.for %i = %c0 to %y step %c2 {{\n"
                 f"        %t = arith.addi %i, %y : index\n        {log.format('%t')}\n      }}\n"
                 f"      %n = arith.subi %y, {_c(step)} : index\n      scf.yield %n : index\n    }}\n    func.return %r : index\n")
            out.append(_prog(_wrap((sig2, "index"), b), dom, "while", {"while"}, SCF_PASSES))
            # while inside a for body
            b = (f"    scf.for %i = %c0 to %c3 step %c2 {{\n      %r = scf.while (%x = %a) : (index) -> (index) {{\n"
                 f"        %c = arith.cmpi {pred}, %x, {lim} : index\n        scf.condition(%c) %x : index\n      }} do {{\n"
                 f"      ^bb0(%y: index):\n        %t = arith.addi %y, %i : index\n        {log.format('%t')}\n"
                 f"        %n = arith.subi %y, {_c(step)} : index\n        scf.yield %n : index\n      }}\n"
                 f"      {log.format('%r')}\n    }}\n    func.return\n")
            out.append(_prog(_wrap((sig2, ""), b), dom, "while", {"while"}, SCF_PASSES))
    return out


# ---- loops with TWO iter_args and every yield wiring ----------------------------------------------
def gen_for2(quick: bool) -> list[dict]:
    """scf.for with iter_args(%a = %x, %b = %y), body values %s = %a + %b and %t = %b * 2 + %i, and `scf.yield u, v` for every
    ordered pair (u, v) over {%a, %b, %s, %t}; constant bounds with trip counts 0..3 (unroll) and a symbolic upper bound."""
    out = []
    bounds = [(0, 0, 1), (2, 0, 1), (0, 1, 1), (0, 2, 1), (0, 3, 1), (1, 4, 2), (0, 4, 2), (-2, 4, 3)]
    if not quick:
        bounds += [(0, 4, 1), (-1, 2, 1), (0, 3, 2)]
    bounds.append((0, "arg", 1))
    vals = ("%a", "%b", "%s", "%t")
    for lb, ub, st in bounds:
        for u in vals:
            for v in vals:
                for logged in ((False, True) if not quick or ub != "arg" else (False,)):
                    used = {lb, st, 2}
                    if ub != "arg":
                        used.add(ub)
                    sig = "%x: index, %y: index" + (", %n: index" if ub == "arg" else "")
                    t = _HDR + f"  func.func @f({sig}) -> (index, index) {{\n" + _consts(used)
                    t += (f"    %r, %q = scf.for %i = {_c(lb)} to {'%n' if ub == 'arg' else _c(ub)} step {_c(st)} "
                          "iter_args(%a = %x, %b = %y) -> (index, index) {\n")
                    t += "      %s = arith.addi %a, %b : index\n      %d = arith.muli %b, %c2 : index\n      %t = arith.addi %d, %i : index\n"
                    if logged:
                        t += "      func.call @log(%a) : (index) -> ()\n      func.call @log(%b) : (index) -> ()\n"
                    t += f"      scf.yield {u}, {v} : index, index\n    }}\n    func.return %r, %q : index, index\n  }}\n}}\n"
                    crossed = v == "%a" or u == "%b"
                    feats = {"two-iter-args-crossed-yield" if crossed else "two-iter-args"}
                    out.append(_prog(t, [ARGV] * (3 if ub == "arg" else 2), "for", feats, SCF_PASSES))
    return out


def gen_memloops(quick: bool) -> list[dict]:
    """loops over a 4-element buffer with memref.load / memref.store (licm must not move the accesses)"""
    out = []
    sig = ("%m: memref<4xindex>, %a: index", "index")
    dom = [(MEM0,), ARGV]
    log = "func.call @log({}) : (index) -> ()"
    for ub in ("%a", "%c3", "%c0"):
        bodies_ = [
            # read-modify-write of one cell
            "      %v = memref.load %m[%c0] : memref<4xindex>\n      %n = arith.addi %v, %c1 : index\n"
            "      memref.store %n, %m[%c0] : memref<4xindex>\n",
            # invariant load after a variant store to the same cell
            "      memref.store %i, %m[%c1] : memref<4xindex>\n      %v = memref.load %m[%c1] : memref<4xindex>\n"
            f"      {log.format('%v')}\n",
            # invariant store, variant load
            "      memref.store %a, %m[%c2] : memref<4xindex>\n      %v = memref.load %m[%i] : memref<4xindex>\n"
            f"      {log.format('%v')}\n",
            # invariant load only (cell never written)
            "      %v = memref.load %m[%c3] : memref<4xindex>\n      %n = arith.addi %v, %i : index\n"
            f"      {log.format('%n')}\n",
        ]
        for bd in bodies_:
            b = f"    scf.for %i = %c0 to {ub} step %c1 {{\n{bd}    }}\n    %z = memref.load %m[%c0] : memref<4xindex>\n    func.return %z : index\n"
            out.append(_prog(_wrap(sig, b), dom, "for", {"load-store"}, SCF_PASSES))
    return out


# ---- affine family ------------------------------------------------------------------------------
AFF_EXPRS = [("d0", "id"), ("d0 + 1", "add"), ("d0 * -1 + 3", "neg"), ("d0 mod 2", "mod"), ("d0 floordiv 2", "floordiv"),
             ("d0 ceildiv 2", "ceildiv"), ("(d0 + 2) mod 4", "mod"), ("d0 * 2", "mul")]


MT = "memref<4xindex>"


def _aload(res: str, expr: str, idx: str, ind: str) -> str:
    return f'{ind}{res} = "affine.load"(%m, {idx}) <{{"map" = affine_map<(d0) -> ({expr})>}}> : ({MT}, index) -> index\n'


def _astore(val: str, expr: str, idx: str, ind: str) -> str:
    return f'{ind}"affine.store"({val}, %m, {idx}) <{{"map" = affine_map<(d0) -> ({expr})>}}> : (index, {MT}, index) -> ()\n'


def _afor(res: str, lbmap: str, lbops: list, ubmap: str, ubops: list, step: int, init: str | None, body: str, ind: str, iv: str = "%i") -> str:
    ops = list(lbops) + list(ubops) + ([init] if init else [])
    t = ind + (f"{res} = " if init else "")
    t += (f'"affine.for"({", ".join(ops)}) <{{"lowerBoundMap" = affine_map<{lbmap}>, "upperBoundMap" = affine_map<{ubmap}>, '
          f'"step" = {step} : index, operandSegmentSizes = array<i32: {len(lbops)}, {len(ubops)}, {1 if init else 0}>}}> ({{\n')
    t += f"{ind}^bb0({iv}: index" + (", %acc: index" if init else "") + "):\n" + body
    t += f"{ind}}}) : ({', '.join(['index'] * len(ops))}) -> ({'index' if init else ''})\n"
    return t


def gen_affine(quick: bool) -> list[dict]:
    out = []
    log = "func.call @log({}) : (index) -> ()"
    hdr = _HDR
    yld = '"affine.yield"() : () -> ()\n'
    # affine.for with constant bounds; load / store with an affine index expression
    lbs = (0, 1, 2) if quick else (0, 1, 2, 3)
    ubs = (0, 2, 3, 4) if quick else (0, 1, 2, 3, 4)
    steps = (1, 2) if quick else (1, 2, 3)
    for lb in lbs:
        for ub in ubs:
            for st in steps:
                for e, en in AFF_EXPRS:
                    feats = {"affine-for-" + en}
                    # (1) load, log
                    body = _aload("%v", e, "%i", "      ") + f"      {log.format('%v')}\n      " + yld
                    b = _afor("", f"() -> ({lb})", [], f"() -> ({ub})", [], st, None, body, "    ") + "    func.return\n"
                    t = hdr + f"  func.func @f(%m: {MT}) -> () {{\n" + b + "  }\n}\n"
                    out.append(_prog(t, [(MEM0,)], "affine", feats, AFFINE_PASSES))
                    # (2) store iv to expr, iter_arg sum of loads at iv
                    body = (_aload("%v", "d0", "%i", "      ") + _astore("%i", e, "%i", "      ")
                            + '      %n = arith.addi %acc, %v : index\n      "affine.yield"(%n) : (index) -> ()\n')
                    b = ("    %c0 = arith.constant 0 : index\n"
                         + _afor("%r", f"() -> ({lb})", [], f"() -> ({ub})", [], st, "%c0", body, "    ") + "    func.return %r : index\n")
                    t = hdr + f"  func.func @f(%m: {MT}) -> (index) {{\n" + b + "  }\n}\n"
                    out.append(_prog(t, [(MEM0,)], "affine", feats, AFFINE_PASSES))
    # affine.apply on arguments
    maps = [("(d0) -> (d0 + 1)", 1, "add"), ("(d0) -> (d0 * 2 + 1)", 1, "mul"), ("(d0) -> (d0 * -3)", 1, "mul"),
            ("(d0) -> (d0 mod 2)", 1, "mod"), ("(d0) -> (d0 mod 3)", 1, "mod"), ("(d0) -> (d0 floordiv 2)", 1, "floordiv"),
            ("(d0) -> (d0 ceildiv 2)", 1, "ceildiv"), ("(d0) -> (d0 floordiv 3)", 1, "floordiv"), ("(d0) -> (d0 ceildiv 3)", 1, "ceildiv"),
            ("(d0)[s0] -> (d0 + s0)", 2, "add"), ("(d0)[s0] -> (d0 * 2 + s0 * 3)", 2, "mul"), ("(d0, d1) -> (d0 - d1)", 2, "sub"),
            ("(d0)[s0] -> ((d0 + s0) mod 2)", 2, "mod"), ("(d0)[s0] -> ((d0 + s0) floordiv 2 + s0)", 2, "floordiv"),
            ("(d0)[s0] -> (d0 mod 4 + s0 ceildiv 2)", 2, "mod"), ("()[s0] -> (s0 * 2)", 1, "mul"), ("() -> (3)", 0, "const")]
    for mp, n, en in maps:
        ops = ["%a", "%b"][:n]
        if mp.startswith("(d0)[s0]"):
            operands = "(%a)[%b]"
        elif mp.startswith("()[s0]"):
            operands = "()[%a]"
        elif mp.startswith("() ->"):
            operands = "()"
        else:
            operands = "(" + ", ".join(ops) + ")"
        sig = ", ".join(f"{o}: index" for o in ops)
        b = f"    %r = affine.apply affine_map<{mp}> {operands}\n    {log.format('%r')}\n    func.return %r : index\n"
        t = hdr + f"  func.func @f({sig}) -> (index) {{\n" + b + "  }\n}\n"
        out.append(_prog(t, [ARGV] * n, "affine", {"affine-apply-" + en}, AFFINE_PASSES))
    # affine.apply of the induction variable; load / store at an argument index
    for e, en in AFF_EXPRS:
        body = f"      %x = affine.apply affine_map<(d0) -> ({e})> (%i)\n      {log.format('%x')}\n      " + yld
        b = _afor("", "() -> (0)", [], "() -> (4)", [], 1, None, body, "    ") + "    func.return\n"
        out.append(_prog(hdr + "  func.func @f() -> () {\n" + b + "  }\n}\n", [], "affine", {"affine-apply-" + en}, AFFINE_PASSES))
        b = _aload("%v", e, "%a", "    ") + _astore("%a", e, "%a", "    ") + "    func.return %v : index\n"
        out.append(_prog(hdr + f"  func.func @f(%m: {MT}, %a: index) -> (index) {{\n" + b + "  }\n}\n", [(MEM0,), ARGV], "affine",
                         {"affine-access-" + en}, AFFINE_PASSES))
    # nested affine.for, symbolic / min / max bounds (the pass may refuse these)
    inner = _afor("", "() -> (0)", [], "() -> (2)", [], 1, None,
                  f'        %v = "affine.load"(%m, %i, %j) <{{"map" = affine_map<(d0, d1) -> (d0 * 2 + d1)>}}> : ({MT}, index, index) -> index\n'
                  f"        {log.format('%v')}\n        " + yld, "      ", iv="%j")
    extra = [
        ("affine-for-nested", f"%m: {MT}", "",
         _afor("", "() -> (0)", [], "() -> (2)", [], 1, None, inner + "      " + yld, "    ") + "    func.return\n", [(MEM0,)]),
        ("affine-for-symbolic-bound", f"%m: {MT}, %a: index", "",
         _afor("", "() -> (0)", [], "()[s0] -> (s0)", ["%a"], 1, None,
               _aload("%v", "d0", "%i", "      ") + f"      {log.format('%v')}\n      " + yld, "    ") + "    func.return\n", [(MEM0,), ARGV]),
        ("affine-for-symbolic-bound", "%a: index, %b: index", "",
         _afor("", "(d0) -> (d0)", ["%a"], "(d0) -> (d0)", ["%b"], 2, None, f"      {log.format('%i')}\n      " + yld, "    ")
         + "    func.return\n", [ARGV, ARGV]),
        ("affine-for-minmax-bound", "%a: index", "",
         _afor("", "()[s0] -> (0, s0)", ["%a"], "()[s0] -> (s0 + 2, 4)", ["%a"], 1, None, f"      {log.format('%i')}\n      " + yld, "    ")
         + "    func.return\n", [ARGV]),
    ]
    for feat, sig, res, b, dom in extra:
        out.append(_prog(hdr + f"  func.func @f({sig}) -> ({res}) {{\n" + b + "  }\n}\n", dom, "affine", {feat}, AFFINE_PASSES))
    return out


# ---- affine accesses to a 2-D buffer with permuted / duplicated dims -------------------------------
MT2 = "memref<2x3xindex>"
MEM2 = (5, -3, 2, 7, 11, -6)
MAPS2 = (("(d0, d1)", "id"), ("(d1, d0)", "swap"), ("(d0, d0)", "dup0"), ("(d1, d1)", "dup1"))


def gen_affine2d(quick: bool) -> list[dict]:
    """affine.load / affine.store on memref<2x3xindex> with every access map (d0,d1)->(d0,d1) | (d1,d0) | (d0,d0) | (d1,d1),
    inside a 2-nest of affine.for (2x2 and 2x3 iterations) and with argument indices; out-of-bounds inputs are excluded."""
    out = []
    log = "func.call @log({}) : (index) -> ()"

    def ld(res, mp, i, j, ind):
        return f'{ind}{res} = "affine.load"(%m, {i}, {j}) <{{"map" = affine_map<(d0, d1) -> {mp}>}}> : ({MT2}, index, index) -> index\n'

    def st(val, mp, i, j, ind):
        return f'{ind}"affine.store"({val}, %m, {i}, {j}) <{{"map" = affine_map<(d0, d1) -> {mp}>}}> : (index, {MT2}, index, index) -> ()\n'

    yld = '"affine.yield"() : () -> ()\n'
    for ml, nl in MAPS2:
        for ms, ns in MAPS2 + ((None, "none"),):
            feats = {"affine-2d-identity-map" if nl == "id" and ns in ("id", "none") else "affine-2d-permuted-map"}
            for ni, nj in ((2, 2), (2, 3), (3, 2)):
                body = ld("%v", ml, "%i", "%j", "        ") + f"        {log.format('%v')}\n"
                if ms is not None:
                    body += "        %w = arith.addi %v, %j : index\n" + st("%w", ms, "%i", "%j", "        ")
                inner = _afor("", "() -> (0)", [], f"() -> ({nj})", [], 1, None, body + "        " + yld, "      ", iv="%j")
                b = _afor("", "() -> (0)", [], f"() -> ({ni})", [], 1, None, inner + "      " + yld, "    ") + "    func.return\n"
                out.append(_prog(_HDR + f"  func.func @f(%m: {MT2}) -> () {{\n" + b + "  }\n}\n", [(MEM2,)], "affine", feats, AFFINE_PASSES))
            b = ld("%v", ml, "%a", "%b", "    ")
            if ms is not None:
                b += st("%a", ms, "%a", "%b", "    ")
            b += "    func.return %v : index\n"
            out.append(_prog(_HDR + f"  func.func @f(%m: {MT2}, %a: index, %b: index) -> (index) {{\n" + b + "  }\n}\n",
                             [(MEM2,), ARGV, ARGV], "affine", feats, AFFINE_PASSES))
    return out


# ---- symref family ------------------------------------------------------------------------------
def gen_symref(quick: bool) -> list[dict]:
    """every sequence over <= 2 symbols with <= N accesses: declare s | fetch s (logged) | update s = v,
    v in {%x, %y, last fetched value};  @a is declared before @b (symmetry)."""
    out = []
    max_acc = 4 if quick else 5
    log = '"test.op"({}) : (index) -> ()'       # opaque effect op: an external declaration makes the pass refuse the module
    hdr = "builtin.module {\n"
    seqs: list[tuple] = []

    def rec(seq, declared, written, have_last, nacc):
        # keep sequences with at least one (logged) fetch that do not end in a declaration; the pruning only
        # removes programs that are undefined on every input (use before declaration / initialisation)
        if seq and seq[-1][0] != "D" and any(o[0] == "F" for o in seq):
            seqs.append(tuple(seq))
        for s in "ab":
            if s not in declared and (s == "a" or "a" in declared):
                rec(seq + [("D", s)], declared | {s}, written, have_last, nacc)
        if nacc < max_acc:
            for s in sorted(declared):
                if s in written:
                    rec(seq + [("F", s)], declared, written, True, nacc + 1)
                for v in ("x", "y") + (("last",) if have_last else ()):
                    rec(seq + [("U", s, v)], declared, written | {s}, have_last, nacc + 1)

    rec([], frozenset(), frozenset(), False, 0)
    for seq in seqs:
        lines = []
        last = None
        for k, o in enumerate(seq):
            if o[0] == "D":
                lines.append(f'symref.declare "{o[1]}"')
            elif o[0] == "F":
                lines.append(f"%f{k} = symref.fetch @{o[1]} : index")
                lines.append(log.format(f"%f{k}"))
                last = f"%f{k}"
            else:
                v = {"x": "%x", "y": "%y", "last": last}[o[2]]
                lines.append(f"symref.update @{o[1]} = {v} : index")
        t = hdr + "  func.func @f(%x: index, %y: index) -> (index) {\n" + "".join(f"    {ln}\n" for ln in lines)
        t += f"    func.return {last} : index\n  }}\n}}\n"
        out.append(_prog(t, [ARGV, ARGV], "symref", {"straight-line"}, SYMREF_PASSES))
    # symbols used inside nested regions
    nested = [
        ("nested-region-if", "%x: index, %y: index",
         '    symref.declare "a"\n    symref.update @a = %x : index\n    %c0 = arith.constant 0 : index\n    %c = arith.cmpi slt, %y, %c0 : index\n'
         "    scf.if %c {\n      symref.update @a = %y : index\n    }\n    %r = symref.fetch @a : index\n    func.return %r : index\n"),
        ("nested-region-if", "%x: index, %y: index",
         '    symref.declare "a"\n    symref.update @a = %x : index\n    %c0 = arith.constant 0 : index\n    %c = arith.cmpi slt, %y, %c0 : index\n'
         "    scf.if %c {\n      symref.update @a = %y : index\n    } else {\n      symref.update @a = %c0 : index\n    }\n"
         "    %r = symref.fetch @a : index\n    func.return %r : index\n"),
        ("nested-region-for", "%x: index, %y: index",
         '    symref.declare "a"\n    symref.update @a = %x : index\n    %c0 = arith.constant 0 : index\n    %c1 = arith.constant 1 : index\n'
         "    scf.for %i = %c0 to %y step %c1 {\n      %t = symref.fetch @a : index\n      %u = arith.addi %t, %i : index\n"
         "      symref.update @a = %u : index\n    }\n    %r = symref.fetch @a : index\n    func.return %r : index\n"),
        ("nested-region-for", "%x: index, %y: index",
         '    symref.declare "a"\n    symref.update @a = %x : index\n    %c0 = arith.constant 0 : index\n    %c1 = arith.constant 1 : index\n'
         f"    scf.for %i = %c0 to %y step %c1 {{\n      %t = symref.fetch @a : index\n      {log.format('%t')}\n    }}\n"
         "    %r = symref.fetch @a : index\n    func.return %r : index\n"),
        ("nested-region-local", "%x: index, %y: index",
         "    %c0 = arith.constant 0 : index\n    %c = arith.cmpi slt, %y, %c0 : index\n    %r = scf.if %c -> (index) {\n"
         '      symref.declare "a"\n      symref.update @a = %x : index\n      %t = symref.fetch @a : index\n      scf.yield %t : index\n'
         "    } else {\n      scf.yield %y : index\n    }\n    func.return %r : index\n"),
    ]
    for feat, sig, b in nested:
        out.append(_prog(hdr + f"  func.func @f({sig}) -> (index) {{\n" + b + "  }\n}\n", [ARGV, ARGV], "symref", {feat}, SYMREF_PASSES))
    # the same kind of program next to an external declaration (the pass is expected to refuse it)
    out.append(_prog(_HDR + '  func.func @f(%x: index, %y: index) -> (index) {\n    symref.declare "a"\n    symref.update @a = %x : index\n'
                     "    %r = symref.fetch @a : index\n    func.call @log(%r) : (index) -> ()\n    func.return %r : index\n  }\n}\n",
                     [ARGV, ARGV], "symref", {"with-external-declaration"}, SYMREF_PASSES))
    return out


FAMILIES = (("for", gen_for), ("flatten", gen_flatten), ("if", gen_if), ("switch", gen_switch), ("while", gen_while),
            ("memloops", gen_memloops), ("affine", gen_affine), ("symref", gen_symref), ("for2", gen_for2), ("affine2d", gen_affine2d))


def all_programs(quick: bool) -> tuple[list[dict], dict]:
    seen: set[str] = set()
    out = []
    per_family = {}
    for name, gen in FAMILIES:
        k = 0
        for p in gen(quick):
            if p["text"] in seen:
                continue
            seen.add(p["text"])
            p["family"] = name
            out.append(p)
            k += 1
        per_family[name] = k
    return out, per_family


# ======================================================================================
# the check of one program
# ======================================================================================
def _jsonable(run):
    if run[0] != "ok":
        return list(run)
    return {"results": repr(run[1]), "log": repr(run[2])[:600], "memory": repr(run[3])}


def check_program(st: Stats, prog: dict, only_pass: str | None = None, sample: bool = False) -> None:
    x = X()
    text = prog["text"]
    m0 = x["Parser"](x["ctx"], text).parse_module()
    m0.verify()
    base_text = str(m0)
    vectors = [[list(a) if isinstance(a, tuple) else a for a in v] for v in itertools.product(*prog["args"])]
    ref = []
    for v in vectors:
        r = run_ref(m0, v)
        if r[0] in ("unsupported", "malformed"):
            raise RuntimeError(f"harness: reference cannot run a generated program: {r}\n{text}")
        if r[0] == "ok":
            ref.append((v, r))
    st.bump("argument_vectors", len(vectors))
    st.bump("argument_vectors_defined", len(ref))
    if not ref:
        st.outcomes["skipped:original-defined-on-no-input"] += 1
        return
    interesting = any(r[2] or r[1] for _, r in ref)
    for pn in prog["passes"]:
        if only_pass is not None and pn != only_pass:
            continue
        label = shape_class(pn, prog["base"], prog["feats"])
        m = m0.clone()
        st.transitions += 1
        try:
            apply_pass(pn, m)
        except _Timeout:
            st.outcomes[f"{pn}|timeout"] += 1
            st.bump("pass_timeouts")
            continue
        except Exception as e:  # noqa: BLE001 - a pass that raises reports failure itself
            st.outcomes[f"{pn}|reported-failure"] += 1
            st.bump("reported_failures")
            d = st.extra.setdefault("reported_failure_kinds", {})
            key = f"{pn}|{label}|{type(e).__name__}"
            d[key] = d.get(key, 0) + 1
            continue
        wit = {"text": text, "pass": pn, "label": label, "args_domain": [[list(a) if isinstance(a, tuple) else a for a in d] for d in prog["args"]],
               "base": prog["base"], "feats": sorted(prog["feats"])}
        try:
            m.verify()
            after = str(m)
        except Exception as e:  # noqa: BLE001
            st.outcomes[f"{pn}|violation"] += 1
            st.violate(f"C16|{pn}|{label}|does-not-verify", f"the output of {pn} does not verify: {type(e).__name__}: {str(e)[:160]}", wit)
            continue
        if after == base_text:
            st.outcomes[f"{pn}|declined"] += 1
            continue
        worst = None
        unsupported = None
        for v, r in ref:
            g = run_ref(m, v)
            if g[0] == "unsupported":
                unsupported = g[1]
                break
            st.executions += 1
            st.evaluations += 3
            k = diff_kind(r, g)
            if k is not None and (worst is None or _KIND_RANK[k] < _KIND_RANK[worst[0]]):
                worst = (k, v, r, g)
        if unsupported is not None:
            st.outcomes[f"{pn}|output-not-modelled"] += 1
            st.cap(f"refsem cannot execute the output of {pn}: {unsupported}")
            continue
        if interesting:
            st.nontrivial += 1
        if worst is None:
            st.outcomes[f"{pn}|changed-equivalent"] += 1
            if sample:
                st.sample({"pass": pn, "label": label, "text": text, "vectors": len(ref)})
            continue
        k, v, r, g = worst
        st.outcomes[f"{pn}|violation"] += 1
        st.violate(f"C16|{pn}|{label}|{k}",
                   f"{pn} changes the behaviour of a {label} program ({k}) on arguments {v}",
                   {**wit, "args": v, "expected": _jsonable(r), "got": _jsonable(g), "after": after[:1500]})


_PROGRAMS: list[dict] = []


def _shard(task) -> Stats:
    lo, hi, seed = task
    st = Stats()
    for i in range(lo, hi):
        check_program(st, _PROGRAMS[i], sample=(i + seed) % 997 == 0)
        st.states += 1
    return st


def run(ctx):
    global _PROGRAMS
    _PROGRAMS, per_family = all_programs(ctx.quick)
    X()  # import xdsl before forking
    n = len(_PROGRAMS)
    chunk = 40
    tasks = [(lo, min(n, lo + chunk), ctx.seed) for lo in range(0, n, chunk)]
    # interleave so that expensive families are spread over the workers
    tasks = tasks[::2] + tasks[1::2]
    for _, st in pmap(_shard, tasks):
        ctx.merge(st)
    ctx.bounds = {
        "programs_per_family": per_family,
        "argument_grid": list(ARGV), "memref_contents": list(MEM0),
        "for_bounds": "lb, ub in {-2..4} or argument; step in {1..4} or argument (all 320 combinations x 5 small bodies)",
        "for_bodies": ("<=2 ops of the full 23-op alphabet x 6 core bound shapes" if ctx.quick else
                       "<=1 op x all 320 bound shapes; <=2 ops x 12 core bound shapes; <=3 ops of the reduced 14-op alphabet x 6 core bound "
                       "shapes; <=3 ops of the full alphabet x 2 bound shapes"),
        "flatten_nests": "perfect 2-nests, constant inner bounds, outer constant or argument, 4 body kinds x with/without iter_args"
                         + ("" if ctx.quick else ", index and i32"),
        "symref": f"<= 2 declared symbols, <= {4 if ctx.quick else 5} fetch/update ops in one block, plus 6 nested-region / declaration templates",
        "two_iter_args": "iter_args(%a, %b), yield over all 16 ordered pairs of {%a, %b, a+b, 2b+i}, constant bounds with 0..3 trips + symbolic ub",
        "affine_2d": "load/store on memref<2x3xindex>, maps (d0,d1)->(d0,d1)|(d1,d0)|(d0,d0)|(d1,d1), 2-nests 2x2/2x3/3x2 and argument indices",
        "passes": list(ALL_PASSES), "refsem_fuel": FUEL,
    }
    ctx.rule = ("programs are enumerated family by family (see bounds) and de-duplicated by text; states = distinct programs, "
                "transitions = pass applications, executions = (transformed program, argument vector) runs of the reference "
                "semantics compared with the run of the original; non-trivial = (program, pass) pairs where the pass changed "
                "the IR and the original has a non-empty effect log or result on some defined input")
    ctx.assumptions = ["mc/refsem.py implements the MLIR semantics of func/arith/cf/scf/memref/affine (self test: python -m mc.refsem)",
                       "symref semantics: a per-function dict store (declare = uninitialised cell; see symref_hook)",
                       "inputs on which the original is poison / UB / ambiguous / out of fuel are excluded",
                       "a pass that raises or times out is counted, not a violation; scf.for with a non-positive step is UB",
                       "index is 64 bits wide"]


def replay(rep) -> bool:
    w = rep["witness"]
    prog = {"text": w["text"], "args": [tuple(tuple(a) if isinstance(a, list) else a for a in d) for d in w["args_domain"]],
            "base": w["base"], "feats": frozenset(w["feats"]), "passes": (w["pass"],)}
    st = Stats()
    check_program(st, prog, only_pass=w["pass"])
    return rep["signature"] not in st.violations
