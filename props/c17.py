"""C17 — every registered pass that succeeds leaves valid, printable IR.

Finite, completely enumerated cross products (hard-killed and bisected so that no case is dropped):
 quick   : (a) for every corpus file, every single-pass spec (name + options) that occurs in one of its
               RUN-line pipelines x every verified chunk of that file, run one pass at a time AND as the
               file's pipelines in sequence (oracle after every stage);
           (b) every registered pass with default options x the verified chunks of a fixed list of
               structurally rich files.
 thorough: (a) + every registered pass with default options x EVERY verified chunk of the corpus.
Oracle after a pass returns (a pass that raises anything = reported failure, counted, not a violation):
 module.verify(); structural invariant of mc/irinv.py incl. "no ErasedSSAValue operand in attached IR";
 generic print -> parse in a fresh context -> canonical form equal (the C04 oracle).
"""
from __future__ import annotations

import io
import os
import re
import sys
from typing import Any

from mc import corpus
from mc.canon import canon, first_op_diff
from mc.irinv import irinv
from mc.pool import run_batches_bisect
from mc.stats import Stats

RICH = (
    "tests/filecheck/dialects/scf/scf_ops.mlir", "tests/filecheck/dialects/cf/cf_ops.mlir", "tests/filecheck/dialects/arith/arith_ops.mlir",
    "tests/filecheck/dialects/func/func_ops.mlir", "tests/filecheck/dialects/memref/memref_ops.mlir", "tests/filecheck/dialects/builtin/attrs.mlir",
    "tests/filecheck/dialects/linalg/linalg_ops.mlir", "tests/filecheck/dialects/scf/canonicalize.mlir",
    "tests/filecheck/dialects/riscv/riscv_ops.mlir", "tests/filecheck/dialects/stencil/stencil_ops.mlir",
    "tests/filecheck/dialects/cf/canonicalize.mlir", "tests/filecheck/dialects/memref/canonicalize.mlir",
)
# hand-written shapes that no corpus file contains (each x every registered pass with default options)
SHAPES = {
    "forward-ref-in-func": '''func.func @f() {
  "test.op"(%v, %w) : (i32, i32) -> ()
  %v = "test.pureop"(%w) : (i32) -> i32
  %w = "test.pureop"() : () -> i32
  func.return
}''',
    "use-cycle-in-nested-module": '''builtin.module {
  %a = "test.pureop"(%b) : (i32) -> i32
  %b = "test.pureop"(%a) : (i32) -> i32
  "test.op"(%c) : (i32) -> ()
  %c = "test.pureop"(%c) : (i32) -> i32
}''',
    "unregistered-branch": '''"test.op"() ({
  %0 = "test.op"() : () -> i32
  "d.br"(%0) [^bb1, ^bb2] : (i32) -> ()
^bb1:
  "test.op"(%0) : (i32) -> ()
  "d.br"() [^bb2] : () -> ()
^bb2:
  "test.op_with_memwrite"() : () -> ()
  "test.termop"() : () -> ()
}) : () -> ()''',
    "cond-br-same-successor": '''func.func @f(%c: i1, %a: i32, %b: i32) -> i32 {
  cf.cond_br %c, ^m(%a : i32), ^m(%b : i32)
^m(%r: i32):
  func.return %r : i32
}''',
    "branch-to-entry-block": '''"test.op"() ({
  %0 = "test.op"() : () -> i1
  "test.termop"() [^bb1] : () -> ()
^bb1:
  "test.termop"() [^bb0x, ^bb1] : () -> ()
^bb0x:
  "test.termop"() : () -> ()
}) : () -> ()''',
    "for-single-iteration-yields-block-args": '''func.func @f(%x: index) -> (index, index) {
  %c0 = arith.constant 0 : index
  %c1 = arith.constant 1 : index
  %r:2 = scf.for %i = %c0 to %c1 step %c1 iter_args(%a = %x, %b = %c0) -> (index, index) {
    scf.yield %i, %a : index, index
  }
  func.return %r#0, %r#1 : index, index
}''',
    "if-same-expression-in-both-branches": '''func.func @f(%c: i1, %x: i32) -> i32 {
  %r = scf.if %c -> (i32) {
    %t = arith.addi %x, %x : i32
    scf.yield %t : i32
  } else {
    %e = arith.addi %x, %x : i32
    scf.yield %e : i32
  }
  func.return %r : i32
}''',
    "unreachable-blocks-and-dead-cycle": '''func.func @f(%x: i32) -> i32 {
  cf.br ^exit(%x : i32)
^dead1(%d: i32):
  %u = arith.addi %d, %x : i32
  cf.br ^dead2(%u : i32)
^dead2(%e: i32):
  cf.br ^dead1(%e : i32)
^exit(%r: i32):
  func.return %r : i32
}''',
    "op-uses-own-result": '''builtin.module {
  %s = "test.op"(%s) : (i32) -> i32
  %p = "test.pureop"(%p, %s) : (i32, i32) -> i32
}''',
    "empty-regions-and-declarations": '''builtin.module {
  func.func private @ext(i32) -> i32
  "test.op"() ({
  }) : () -> ()
  builtin.module {
  }
}''',
}

RUNP = re.compile(r"""-p\s+("[^"]*"|'[^']*'|\S+)""")


def pipelines_of(rel: str) -> list[str]:
    out = []
    with open(os.path.join(corpus.CORPUS_ROOT, rel), encoding="utf-8", errors="replace") as f:
        for line in f:
            if "RUN:" in line:
                for m in RUNP.finditer(line):
                    p = m.group(1).strip("\"'")
                    if p and p not in out and "%" not in p:
                        out.append(p)
    return out


_PASSES = None


def all_passes():
    global _PASSES
    if _PASSES is None:
        from xdsl.transforms import get_all_passes

        _PASSES = {k: v for k, v in sorted(get_all_passes().items())}
    return _PASSES


def build_pipeline(spec: str):
    """-> list of (single spec string, pass instance) or None if the spec does not build"""
    from xdsl.utils.arg_spec import parse_pipeline  # type: ignore

    try:
        specs = list(parse_pipeline(spec))
        out = []
        for s in specs:
            cls = all_passes()[s.name]()
            out.append((str(s), cls.from_pass_spec(s)))
        return out
    except BaseException as e:  # noqa: BLE001
        if isinstance(e, (KeyboardInterrupt, SystemExit)):
            raise
        return None


def gprint(m: Any) -> str:
    from xdsl.printer import Printer

    s = io.StringIO()
    Printer(stream=s, print_generic_format=True).print_op(m)
    return s.getvalue()


def input_roundtrips(m: Any) -> bool:
    """C04 oracle on the INPUT: if the input itself does not survive print/parse (a C04 finding, e.g.
    dense_resource keys), a failure of the same oracle after the pass cannot be blamed on the pass."""
    from xdsl.parser import Parser

    try:
        m2 = Parser(corpus.fresh_ctx(), gprint(m)).parse_module()
        return canon([m], normalize=True) == canon([m2], normalize=True)
    except BaseException as e:  # noqa: BLE001
        if isinstance(e, (KeyboardInterrupt, SystemExit)):
            raise
        return False


def check_after(st: Stats, pname: str, m: Any, wit: dict, rt: bool = True) -> bool:
    from xdsl.parser import Parser

    st.evaluations += 1
    # signatures name the input: a known finding is one (pass, failure, input) triple, so the same failure class on any
    # other input is still reported
    at = f"@{wit.get('file')}#{wit.get('chunk')}"
    try:
        m.verify()
    except BaseException as e:  # noqa: BLE001
        if isinstance(e, (KeyboardInterrupt, SystemExit)):
            raise
        msg = str(e).strip().splitlines()
        st.violate(f"C17|{pname}|result-does-not-verify|{type(e).__name__}|{at}",
                   f"{pname} returned normally but the module does not verify: {(msg[-1] if msg else '')[:140]}", wit)
        return False
    # uses recorded by ops that were detached but never erased are not among the things the property lists
    # (erased values in use, dangling successors, broken parent links): counted, not a violation
    errs = irinv([m], forbid_erased_operands=True)
    stale = [e for e in errs if e[0].endswith("-uses-stale") or e[0].endswith("-uses-mismatch")]
    if stale:
        st.bump("stale_uses_by_detached_ops_seen")
    errs = [e for e in errs if e not in stale]
    if errs:
        st.violate(f"C17|{pname}|structure|{errs[0][0]}|{at}", f"{pname} left inconsistent IR: {errs[0][1][:140]}", wit)
        return False
    if not rt:
        st.bump("roundtrip_oracle_skipped_input_does_not_roundtrip")
        return True
    try:
        t = gprint(m)
    except BaseException as e:  # noqa: BLE001
        if isinstance(e, (KeyboardInterrupt, SystemExit)):
            raise
        st.violate(f"C17|{pname}|print-raises|{type(e).__name__}|{at}", f"printing the output of {pname} raised {type(e).__name__}: {str(e)[:100]}", wit)
        return False
    try:
        m2 = Parser(corpus.fresh_ctx(), t).parse_module()
    except BaseException as e:  # noqa: BLE001
        if isinstance(e, (KeyboardInterrupt, SystemExit)):
            raise
        msg = str(e).strip().splitlines()
        st.violate(f"C17|{pname}|output-does-not-parse-back|{type(e).__name__}|{at}",
                   f"the printed output of {pname} does not parse back: {(msg[-1] if msg else '')[:140]}", {**wit, "text": t[:1000]})
        return False
    if canon([m], normalize=True) != canon([m2], normalize=True):
        where = first_op_diff(m, m2)
        st.violate(f"C17|{pname}|output-parses-to-different-ir|{where}|{at}", f"the printed output of {pname} parses to different IR ({where})",
                   {**wit, "text": t[:1000]})
        return False
    return True


def run_batch(batch) -> Stats:
    tag, items = batch
    st = Stats()
    rt_cache: dict = {}
    devnull = open(os.devnull, "w")
    old = sys.stdout, sys.stderr
    sys.stdout = sys.stderr = devnull
    try:
        for (rel, ci, kind, spec) in items:
            text = SHAPES[rel[len("<shape:"):-1]] if rel.startswith("<shape:") else corpus.chunks_of(rel)[ci]
            m = corpus.parse(text, rel)
            if m is None:
                continue
            pl = build_pipeline(spec)
            if pl is None:
                st.outcomes["spec-does-not-build"] += 1
                continue
            st.states += 1
            before = canon([m], normalize=True)
            key = (rel, ci)
            if key not in rt_cache:
                rt_cache[key] = input_roundtrips(m)
            rt = rt_cache[key]
            changed_any = False
            for si, (single, p) in enumerate(pl):
                wit = {"file": rel, "chunk": ci, "pipeline": spec, "stage": si, "pass": single}
                st.executions += 1
                st.transitions += 1
                try:
                    p.apply(corpus.fresh_ctx(), m)
                except BaseException as e:  # noqa: BLE001  any exception = reported failure
                    if isinstance(e, (KeyboardInterrupt, SystemExit)):
                        raise
                    st.outcomes[f"reported-failure:{type(e).__name__}"] += 1
                    break
                ok = check_after(st, p.name, m, wit, rt)
                st.outcomes["pass-ok" if ok else "violation"] += 1
                if not ok:
                    break
                changed_any = True
            if changed_any and canon([m], normalize=True) != before:
                st.nontrivial += 1
    finally:
        sys.stdout, sys.stderr = old
        devnull.close()
    return st


def cases(quick: bool):
    verified: dict[str, list[int]] = {}
    # which chunks verify is decided inside the workers (parse is repeated there); here enumerate all chunks
    files = corpus.files()
    allp = list(all_passes())
    out = []
    for rel in files:
        n = len(corpus.chunks_of(rel))
        pls = pipelines_of(rel)
        singles: list[str] = []
        for p in pls:
            try:
                from xdsl.utils.arg_spec import parse_pipeline  # type: ignore

                for s in parse_pipeline(p):
                    if s.name in all_passes() and str(s) not in singles:
                        singles.append(str(s))
            except BaseException:  # noqa: BLE001
                continue
        for ci in range(n):
            for p in pls:
                out.append((rel, ci, "file-pipeline", p))
            for s in singles:
                if s not in pls:
                    out.append((rel, ci, "file-single", s))
            size = len(corpus.chunks_of(rel)[ci])
            if (rel in RICH and size <= 10000) or (not quick and size <= 3000):
                for name in allp:
                    out.append((rel, ci, "default", name))
    for name in SHAPES:
        for pname in allp:
            out.append((f"<shape:{name}>", 0, "shape", pname))
    return out


def run(ctx):
    items = cases(ctx.quick)
    # batches grouped by chunk so that the chunk is parsed few times
    batches = []
    cur: list = []
    last = None
    for it in items:
        key = (it[0], it[1])
        if cur and (key != last or len(cur) >= 12):
            batches.append(("c17", cur))
            cur = []
        cur.append(it)
        last = key
    if cur:
        batches.append(("c17", cur))

    def on_timeout(task, status):
        _tag, (rel, ci, kind, spec) = task
        st = Stats()
        st.executions += 1
        st.outcomes[f"pass-{status}"] += 1
        st.extra["timeouts"] = [f"{spec} on {rel}#{ci}"]
        ctx.merge(st)

    run_batches_bisect(run_batch, batches, ctx.merge, on_timeout, kill_s=12.0, per_item_s=0.3, min_kill_s=6.0)
    ctx.stats.sample({"file": "tests/filecheck/transforms/canonicalize.mlir", "chunk": 0, "pipeline": "canonicalize"})
    ctx.bounds = {"cases": len(items), "registered_passes": len(all_passes()), "default_passes_on": list(RICH) if ctx.quick else "rich files + every chunk of at most 3000 characters",
                  "per_case_hard_limit_s": 6}
    ctx.rule = ("finite cross product enumerated completely: RUN-line pass specs x chunks of their file (single passes and whole pipelines), "
                "registered passes with default options x chunks of the rich files (quick) / of the whole corpus (thorough); states = "
                "(chunk, pipeline) pairs on verified chunks, executions = pass applications; non-trivial = the pipeline changed the module")
    ctx.assumptions = ["any exception raised by a pass, and a hard timeout, are reported failures per the property", "mc/irinv.py, mc/canon.py"]


def replay(rep) -> bool:
    w = rep["witness"]
    st = run_batch(("replay", [(w["file"], w["chunk"], "replay", w["pipeline"])]))
    return rep["signature"] not in st.violations
