"""C18 — pass pipeline specifications round-trip through text.

Part 1 (configurations): for every registered pass class (and two synthetic pass classes defined
here that have one field of every supported option type) every field is driven through the
complete alphabet of its declared type, the other fields staying at their defaults; every pair
of fields is driven through the product of two reduced alphabets.  Every instance the
constructor accepts is printed through the public paths (``str(pass)``,
``str(pass.pipeline_pass_spec(include_default=True))`` and the comma-joined pipeline text that
xdsl.interactive prints) and parsed back with ``parse_pipeline`` + ``from_pass_spec`` /
``PassPipeline.parse_spec``.  Oracle: re-parsed pass equals the original, field by field, with
floats compared by bit pattern; printing the re-parsed pass gives the same text.

Part 2 (inputs): every token string up to the length bound over one lexeme per token class of
the pipeline lexer plus suspicious spellings (bare, and framed as ``a{ ... }``) is parsed.
Oracle: the parser yields pass specs / passes or raises one of the deliberate error channels
(ArgSpecParseError, ParseError, ValueError); any other exception class is a violation.

Part 3 (multi-entry pipelines): pipelines of 2 and 3 entries in which the same pass class occurs
twice with DIFFERENT values of one field (all ordered pairs over a reduced alphabet per field),
identical repeats and repeats that set different option names, with and without another pass in
between; the comma-joined text is parsed with PassPipeline.parse_spec and must give the original
passes position by position and the same text again.

Part 4 (history oracle, specs are values): from_pass_spec must leave the caller's ArgSpec
untouched (snapshot before / after), a second instantiation from the same spec must give the
same pass, and a spec that equalled pass.pipeline_pass_spec() before must still equal it.  Run on
every round-tripping instance of part 1 (parsed spec, the pass's own spec, the dashed-name spelling),
on every pipeline of part 3 and on every pipeline the parser builds in part 2.

No sampling anywhere: all parts are plain products over the stated alphabets.
(No ``from __future__ import annotations`` here on purpose: xdsl inspects ``Field.type`` of the
synthetic classes, which must be real types.)
"""
import dataclasses
import gc
import itertools
import math
import struct
import traceback
import types
import typing
from dataclasses import dataclass
from typing import Literal

from mc.pool import pmap
from mc.stats import Stats

from xdsl.passes import ModulePass, PassPipeline

INF = float("inf")
NAN = float("nan")


# ======================================================================================
# synthetic pass classes (coverage must not depend on which registered passes exist)
# ======================================================================================
@dataclass(frozen=True)
class SynthReq(ModulePass):
    """Every supported option type as a REQUIRED field."""

    name = "c18-synth-req"

    i: int
    f: float
    b: bool
    s: str
    lit: Literal["x", "y-z", "true"]
    ti: tuple[int, ...]
    tf: tuple[float, ...]
    ts: tuple[str, ...]
    tb: tuple[bool, ...]
    tif: tuple[int | float, ...]
    u: tuple[int, ...] | tuple[float, ...]
    on: int | None

    def apply(self, ctx, op) -> None:  # pragma: no cover - never applied
        pass


@dataclass(frozen=True)
class SynthOpt(ModulePass):
    """Every supported option type as an optional / defaulted field."""

    name = "c18-synth-opt"

    oi: int | None = None
    of: float | None = None
    ob: bool | None = None
    ostr: str | None = None
    olit: Literal["x", "y"] | None = None
    oti: tuple[int, ...] | None = None
    ots: tuple[str, ...] | None = None
    di: int = 7
    df: float = 0.0
    db: bool = True
    ds: str = "dflt"
    dti: tuple[int, ...] = (1, 2)
    dts: tuple[str, ...] = ()
    dnone_i: int | None = 5
    two_part_name: int = 0

    def apply(self, ctx, op) -> None:  # pragma: no cover
        pass


@dataclass(frozen=True)
class LexA(ModulePass):
    """Reachable from the Part-2 alphabet: pass name and option names are lexemes."""

    name = "a"

    a: int | None = None
    a_b: tuple[str, ...] = ()
    true: bool = False

    def apply(self, ctx, op) -> None:  # pragma: no cover
        pass


@dataclass(frozen=True)
class LexAB(ModulePass):
    name = "a-b"

    a: float | None = None
    a_b: tuple[int | float, ...] = ()

    def apply(self, ctx, op) -> None:  # pragma: no cover
        pass


SYNTH = (SynthReq, SynthOpt)
LEX = (LexA, LexAB)
PARTNER = "dce"  # a registered pass without options, used as the second pass of pipelines

_REG: dict[str, type] | None = None
_IMPORT_FAILED: list[str] = []


def registry() -> dict[str, type]:
    """name -> pass class for every registered pass that can be imported, plus the synthetic ones."""
    global _REG
    if _REG is None:
        from xdsl.transforms import get_all_passes

        reg: dict[str, type] = {}
        for name, thunk in sorted(get_all_passes().items()):
            try:
                reg[name] = thunk()
            except Exception:  # noqa: BLE001 - optional dependency missing: not a property matter
                _IMPORT_FAILED.append(name)
        for c in SYNTH + LEX:
            reg[c.name] = c
        _REG = reg
    return _REG


def available() -> dict[str, typing.Callable[[], type]]:
    return {n: (lambda c=c: c) for n, c in registry().items()}


# ======================================================================================
# values: keys, classes, encodings
# ======================================================================================
def fbits(x: float) -> str:
    return struct.pack(">d", x).hex()


def eqkey(v):
    """Oracle key: dataclass equality, except floats by bit pattern."""
    if isinstance(v, float):
        return ("f", fbits(v))
    if isinstance(v, (bool, int)):
        return ("i", int(v))
    if isinstance(v, str):
        return ("s", v)
    if v is None:
        return ("n",)
    if isinstance(v, tuple):
        return ("t", tuple(eqkey(e) for e in v))
    return ("?", repr(v))


def tkey(v):
    """Typed key, only used to de-duplicate alphabets."""
    if isinstance(v, bool):
        return ("b", v)
    if isinstance(v, tuple):
        return ("t", tuple(tkey(e) for e in v))
    return eqkey(v)


def enc(v):
    if v is None:
        return ["n"]
    if isinstance(v, bool):
        return ["b", v]
    if isinstance(v, int):
        return ["i", str(v)]
    if isinstance(v, float):
        return ["f", v.hex()]
    if isinstance(v, str):
        return ["s", v]
    if isinstance(v, tuple):
        return ["t", [enc(e) for e in v]]
    raise TypeError(v)


def dec(e):
    t = e[0]
    if t == "n":
        return None
    if t == "b":
        return bool(e[1])
    if t == "i":
        return int(e[1])
    if t == "f":
        return float.fromhex(e[1])
    if t == "s":
        return e[1]
    if t == "t":
        return tuple(dec(x) for x in e[1])
    raise ValueError(e)


def _looks_numeric(s: str) -> bool:
    if not s or s.strip() != s:
        return False
    try:
        float(s)
        return True
    except ValueError:
        return False


def scalar_class(v) -> tuple[str, str, int]:
    """(type, class, rank) — a description of the VALUE only (never of the implementation).
    rank > 0 marks classes that dominate the class of a tuple containing them."""
    if v is None:
        return ("none", "none", 0)
    if isinstance(v, bool):
        return ("bool", "true" if v else "false", 0)
    if isinstance(v, int):
        return ("int", "negative" if v < 0 else ("wide" if v >= 2**63 else "plain"), 0)
    if isinstance(v, float):
        if v != v:
            return ("float", "nan", 6)
        if v in (INF, -INF):
            return ("float", "inf", 6)
        if "e" in repr(v):
            return ("float", "exponent-form", 5)
        if v == 0 and math.copysign(1.0, v) < 0:
            return ("float", "negative-zero", 4)
        return ("float", "plain", 0)
    if isinstance(v, str):
        ctl = sorted({c for c in v if (ord(c) < 32 and c not in "\n\t") or ord(c) == 127})
        if ctl:
            return ("str", "contains-vt-ff-or-cr" if any(c in "\x0b\x0c\r" for c in ctl) else "contains-other-control-char", 10)
        if '"' in v:
            return ("str", "contains-quote", 9)
        if "\\" in v:
            return ("str", "contains-backslash", 8)
        if "\n" in v:
            return ("str", "contains-newline", 7)
        if v == "":
            return ("str", "empty", 0)
        if v in ("true", "false"):
            return ("str", "keyword", 0)
        if _looks_numeric(v):
            return ("str", "numeric", 0)
        if any(ord(c) > 127 for c in v):
            return ("str", "non-ascii", 0)
        if " " in v:
            return ("str", "space", 0)
        if not all(c.isalnum() or c in "_-" for c in v):
            return ("str", "punct", 0)
        return ("str", "ident", 0)
    return ("other", type(v).__name__, 0)


def value_class(v, shp: str) -> tuple[str, str]:
    if v is None:
        return ("none", f"in-{shp}")
    if isinstance(v, tuple):
        if not v:
            return ("tuple", f"empty-in-{shp}")
        best = max((scalar_class(e) for e in v), key=lambda c: c[2])
        if best[2] > 0:
            return (best[0], best[1])
        return ("tuple", f"len{len(v)}-in-{shp}")
    c = scalar_class(v)
    return (c[0], c[1])


# ======================================================================================
# declared types: shape and alphabets
# ======================================================================================
_UNIONS = (typing.Union, types.UnionType)


def shape(tp) -> str | None:
    if tp in (int, float, bool, str):
        return tp.__name__
    if tp is types.NoneType:
        return "none"
    o = typing.get_origin(tp)
    if o is Literal:
        return "literal"
    if o is tuple:
        a = typing.get_args(tp)
        if len(a) == 2 and a[1] is Ellipsis:
            inner = shape(a[0])
            return None if inner is None else f"tuple[{inner}]"
        return None
    if o in _UNIONS:
        parts = [shape(a) for a in typing.get_args(tp)]
        if any(p is None for p in parts):
            return None
        non = [p for p in parts if p != "none"]
        s = non[0] if len(non) == 1 else "union(" + ",".join(non) + ")"
        return f"opt({s})" if "none" in parts else s
    return None


STR_CHARS = ["a", " ", '"', "\\", ",", "=", "{", "}", "-", "1", "é", "\n", "\t", "\r", "\f", "\v", "\x00", "\x7f"]
STR_EXTRA = ["true", "false", "1", "1.0", ""]
INTS = [0, 1, -1, 2**63, 2**53 + 1, -(2**53) - 1, 10**30 + 1, 10**400]
FLOATS = [0.0, -0.0, 1.5, 1e-7, 1e22, -2.5e-3, INF, NAN]
# reduced alphabets: subsets of the full ones (tuple elements and pairs)
STR_RED = ["a", "", " ", '"', "\\", ",", "=", "{", "}", "-", "1", "é", "\n", "true", "a b", "1.0"]
STR_PAIR = ["a", "", " ", '"', "\\", ",", "a=", "true", "1", "é"]
INT_PAIR = [0, -1, 2**63, 2**53 + 1]
FLOAT_PAIR = [-0.0, 1.5, 1e-7, INF]


def _dedup(vals):
    seen = set()
    out = []
    for v in vals:
        k = tkey(v)
        if k not in seen:
            seen.add(k)
            out.append(v)
    return out


def str_alphabet(maxlen: int):
    out = []
    for n in range(maxlen + 1):
        out.extend("".join(p) for p in itertools.product(STR_CHARS, repeat=n))
    return _dedup(out + STR_EXTRA)


def alphabet(tp, mode: str, thorough: bool):
    """mode: 'full' (single field), 'elem' (tuple element), 'pair' (field pairs), 'pelem'."""
    if tp is bool:
        return [True, False]
    if tp is int:
        return {"full": INTS, "elem": INTS, "pair": INT_PAIR, "pelem": [0, -1]}[mode]
    if tp is float:
        return {"full": FLOATS, "elem": FLOATS, "pair": FLOAT_PAIR, "pelem": [1.5, 1e-7]}[mode]
    if tp is str:
        if mode == "full":
            return str_alphabet(3 if thorough else 2)
        return {"elem": STR_RED, "pair": STR_PAIR, "pelem": ["a", ","]}[mode]
    if tp is types.NoneType:
        return [None]
    o = typing.get_origin(tp)
    if o is Literal:
        return list(typing.get_args(tp))
    if o is tuple:
        el = typing.get_args(tp)[0]
        sub = "elem" if mode in ("full", "elem") else "pelem"
        elems = alphabet(el, sub, thorough)
        maxlen = 3 if (thorough and mode == "full" and len(elems) <= 8) else 2
        out = []
        for n in range(maxlen + 1):
            out.extend(itertools.product(elems, repeat=n))
        return _dedup(out)
    if o in _UNIONS:
        out = []
        for a in typing.get_args(tp):
            out.extend(alphabet(a, mode, thorough))
        # a tuple alternative next to a scalar alternative: also tuples made of those scalars
        scalars = [v for v in out if v is not None and not isinstance(v, tuple)]
        for a in typing.get_args(tp):
            if typing.get_origin(a) is tuple:
                el = typing.get_args(a)[0]
                for m in scalars:
                    if _fits(m, el):
                        out.extend([(m,), (m, m)])
        return _dedup(out)
    raise TypeError(tp)


def _fits(v, tp) -> bool:
    if tp in (int, float, str, bool):
        return type(v) is tp
    if typing.get_origin(tp) in _UNIONS:
        return any(_fits(v, a) for a in typing.get_args(tp))
    if typing.get_origin(tp) is Literal:
        return v in typing.get_args(tp)
    return False


def benign(tp):
    if tp is bool:
        return True
    if tp is int:
        return 1
    if tp is float:
        return 1.5
    if tp is str:
        return "a"
    o = typing.get_origin(tp)
    if o is Literal:
        return typing.get_args(tp)[0]
    if o is tuple:
        return (benign(typing.get_args(tp)[0]),)
    if o in _UNIONS:
        args = typing.get_args(tp)
        if types.NoneType in args:
            return None
        return benign(args[0])
    raise TypeError(tp)


def pass_fields(cls):
    """[(field name, declared type, shape or None)] for init fields, and the base kwargs."""
    hints = typing.get_type_hints(cls)
    out = []
    base = {}
    for f in dataclasses.fields(cls):
        if not f.init:
            continue
        tp = hints[f.name]
        shp = shape(tp)
        out.append((f.name, tp, shp))
        if f.default is not dataclasses.MISSING:
            base[f.name] = f.default
        elif f.default_factory is not dataclasses.MISSING:
            base[f.name] = f.default_factory()
        elif shp is not None:
            base[f.name] = benign(tp)
    return out, base


# ======================================================================================
# the round trip (real implementation) and its oracle
# ======================================================================================
def _last_line(e: BaseException) -> str:
    s = str(e).strip().splitlines()
    return (s[-1].strip() if s else "")[:160]


def _reraise_if_control(e: BaseException) -> None:
    if isinstance(e, (KeyboardInterrupt, SystemExit, GeneratorExit, MemoryError)):
        raise e


def inst_key(p):
    return (type(p).__name__, tuple((f.name, eqkey(getattr(p, f.name))) for f in dataclasses.fields(p) if f.compare))


def _diff(p, q):
    out = {}
    for f in dataclasses.fields(p):
        if f.compare and eqkey(getattr(p, f.name)) != eqkey(getattr(q, f.name, None)):
            out[f.name] = [repr(getattr(p, f.name)), repr(getattr(q, f.name, None))]
    return out


def print_pass(p, include_default: bool) -> str:
    if include_default:
        return str(p.pipeline_pass_spec(include_default=True))
    return str(p)


def roundtrip_one(st: Stats, p, include_default: bool):
    """print -> parse_pipeline -> from_pass_spec -> compare -> print.  None if it holds, else
    (kind, detail, text)."""
    from xdsl.utils.arg_spec import parse_pipeline
    from xdsl.utils.exceptions import ArgSpecParseError, ParseError

    cls = type(p)
    st.executions += 1
    st.transitions += 3
    try:
        text = print_pass(p, include_default)
    except BaseException as e:  # noqa: BLE001
        _reraise_if_control(e)
        return (f"print-raises-{type(e).__name__}", _last_line(e), None)
    try:
        specs = list(parse_pipeline(text))
    except (ArgSpecParseError, ParseError) as e:
        return ("parse-error", _last_line(e), text)
    except BaseException as e:  # noqa: BLE001
        _reraise_if_control(e)
        return (f"parse-raises-{type(e).__name__}", _last_line(e), text)
    st.evaluations += 1
    if len(specs) != 1 or specs[0].name != cls.name:
        return ("spec-count", f"{len(specs)} specs: {[s.name for s in specs]}", text)
    try:
        q = cls.from_pass_spec(specs[0])
    except ValueError as e:
        return ("option-error", _last_line(e), text)
    except BaseException as e:  # noqa: BLE001
        _reraise_if_control(e)
        return (f"build-raises-{type(e).__name__}", _last_line(e), text)
    st.evaluations += 1
    if type(q) is not cls or inst_key(q) != inst_key(p):
        d = _diff(p, q)
        given = {k.replace("-", "_") for k in specs[0].parameters}
        kind = "omitted" if d and all(n not in given for n in d) else "value-differs"
        return (kind, d, text)
    st.evaluations += 1
    try:
        text2 = print_pass(q, include_default)
    except BaseException as e:  # noqa: BLE001
        _reraise_if_control(e)
        return (f"reprint-raises-{type(e).__name__}", _last_line(e), text)
    if text2 != text:
        return ("reprint-differs", text2, text)
    return None


def pipeline_text(passes) -> str:
    # the public printing path of a pipeline (xdsl/interactive/app.py get_query_string)
    return ",".join(str(p.pipeline_pass_spec()) for p in passes)


def roundtrip_pipeline(st: Stats, passes):
    from xdsl.utils.exceptions import ArgSpecParseError, ParseError

    st.executions += 1
    st.transitions += 2
    try:
        text = pipeline_text(passes)
    except BaseException as e:  # noqa: BLE001
        _reraise_if_control(e)
        return (f"print-raises-{type(e).__name__}", _last_line(e), None)
    try:
        pp = PassPipeline.parse_spec(available(), text)
    except (ArgSpecParseError, ParseError) as e:
        return ("parse-error", _last_line(e), text)
    except ValueError as e:
        return ("option-error", _last_line(e), text)
    except BaseException as e:  # noqa: BLE001
        _reraise_if_control(e)
        return (f"parse-raises-{type(e).__name__}", _last_line(e), text)
    st.evaluations += 1
    if [inst_key(q) for q in pp.passes] != [inst_key(p) for p in passes]:
        return ("value-differs", [str(q) for q in pp.passes], text)
    st.evaluations += 1
    text2 = pipeline_text(pp.passes)
    if text2 != text:
        return ("reprint-differs", text2, text)
    return None


def spec_snapshot(sp):
    return (str(sp), sp.name, [(k, eqkey(v)) for k, v in sp.parameters.items()])


def history_spec(st: Stats, cls, sp, expect_key=None, own_spec=None):
    """from_pass_spec(sp) twice on the SAME spec object.  None if the spec behaved as a value,
    else (kind, detail).  A first instantiation that raises is not this oracle's business."""
    st.executions += 1
    st.transitions += 2
    before = spec_snapshot(sp)
    eq_before = own_spec is not None and sp == own_spec
    try:
        p1 = cls.from_pass_spec(sp)
    except BaseException as e:  # noqa: BLE001
        _reraise_if_control(e)
        st.outcomes["history:first-instantiation-raises"] += 1
        return None
    st.evaluations += 1
    after = spec_snapshot(sp)
    if after != before:
        return ("spec-mutated-by-from-spec", {"spec_before": before[0], "spec_after": after[0]})
    st.evaluations += 1
    try:
        p2 = cls.from_pass_spec(sp)
    except BaseException as e:  # noqa: BLE001
        _reraise_if_control(e)
        return ("second-instantiation-raises", f"{type(e).__name__}: {_last_line(e)}")
    if inst_key(p1) != inst_key(p2):
        return ("second-instantiation-differs", [str(p1), str(p2)])
    st.evaluations += 1
    if expect_key is not None and inst_key(p1) != expect_key:
        return ("instantiation-differs-from-original", str(p1))
    if eq_before and not (sp == own_spec):
        return ("spec-no-longer-equals-pass-spec", after[0])
    return None


def history_one(st: Stats, p):
    """The three spellings of the spec of a (round-tripping) pass instance."""
    from xdsl.utils.arg_spec import ArgSpec, parse_pipeline

    cls = type(p)
    try:
        parsed = list(parse_pipeline(str(p)))
        own = p.pipeline_pass_spec()
        ref = p.pipeline_pass_spec()
        dashed = ArgSpec(own.name, {k.replace("_", "-"): v for k, v in p.pipeline_pass_spec().parameters.items()})
    except BaseException as e:  # noqa: BLE001 - reported by the round-trip oracle
        _reraise_if_control(e)
        return None
    variants = [("own-spec", own), ("dashed-names", dashed)]
    if len(parsed) == 1:
        variants.insert(0, ("parsed-spec", parsed[0]))
    for tag, sp in variants:
        r = history_spec(st, cls, sp, inst_key(p), ref)
        if r is not None:
            return (r[0], {"spec_variant": tag, "observed": r[1]}, str(p))
    return None


def check_multi(st: Stats, passes, originals_ok=None):
    """Part 3 oracle on one pipeline.  None if it holds, else (kind, detail, text)."""
    from xdsl.utils.arg_spec import parse_pipeline
    from xdsl.utils.exceptions import ArgSpecParseError, ParseError

    st.executions += 1
    st.transitions += 2
    try:
        text = pipeline_text(passes)
    except BaseException as e:  # noqa: BLE001
        _reraise_if_control(e)
        return (f"print-raises-{type(e).__name__}", _last_line(e), None)
    try:
        pp = PassPipeline.parse_spec(available(), text)
    except (ArgSpecParseError, ParseError) as e:
        return ("parse-error", _last_line(e), text)
    except ValueError as e:
        return ("option-error", _last_line(e), text)
    except BaseException as e:  # noqa: BLE001
        _reraise_if_control(e)
        return (f"parse-raises-{type(e).__name__}", _last_line(e), text)
    st.evaluations += 1
    got = tuple(pp.passes)
    if len(got) != len(passes):
        return ("length-differs", [str(q) for q in got], text)
    for k, (a, b) in enumerate(zip(passes, got)):
        st.evaluations += 1
        if type(a) is not type(b) or inst_key(a) != inst_key(b):
            return (f"position-{k}-differs", {"expected": str(a), "got": str(b), "all": [str(q) for q in got]}, text)
    text2 = pipeline_text(got)
    if text2 != text:
        return ("reprint-differs", text2, text)
    # pipeline-level history: parse -> instantiate every spec -> the parsed specs are unchanged
    st.executions += 1
    try:
        specs = list(parse_pipeline(text))
        before = [spec_snapshot(sp) for sp in specs]
        insts = [registry()[sp.name].from_pass_spec(sp) for sp in specs]
    except BaseException as e:  # noqa: BLE001
        _reraise_if_control(e)
        return (f"history:first-instantiation-raises-{type(e).__name__}", _last_line(e), text)
    after = [spec_snapshot(sp) for sp in specs]
    st.evaluations += 2
    if after != before:
        return ("history:spec-mutated-by-from-spec", {"before": ",".join(b[0] for b in before),
                                                      "after": ",".join(a[0] for a in after)}, text)
    try:
        insts2 = [registry()[sp.name].from_pass_spec(sp) for sp in specs]
    except BaseException as e:  # noqa: BLE001
        _reraise_if_control(e)
        return ("history:second-instantiation-raises", f"{type(e).__name__}: {_last_line(e)}", text)
    for k, (a, b, c) in enumerate(zip(passes, insts, insts2)):
        if inst_key(b) != inst_key(c):
            return ("history:second-instantiation-differs", {"position": k, "got": [str(b), str(c)]}, text)
        if inst_key(a) != inst_key(b):
            return ("history:instantiation-differs-from-original", {"position": k, "expected": str(a), "got": str(b)}, text)
    return None


def check_instance(st: Stats, cls, kwargs: dict, partner=None, skip_modes=()):
    """Run every printing path for one instance.  Returns (status, api, kind, detail, text):
    status in {'ctor-reject', 'ok', 'fail'}; only the FIRST failing path is reported (the later
    ones repeat it)."""
    st.transitions += 1
    try:
        p = cls(**kwargs)
    except BaseException as e:  # noqa: BLE001
        _reraise_if_control(e)
        return ("ctor-reject", type(e).__name__, None, None, None)
    if "default" not in skip_modes:
        r = roundtrip_one(st, p, False)
        if r is not None:
            return ("fail", "roundtrip", *r)
        r = history_one(st, p)
        if r is not None:
            return ("fail", "history", *r)
    if "include-default" not in skip_modes:
        r = roundtrip_one(st, p, True)
        if r is not None:
            return ("fail", "roundtrip-include-default", *r)
    if "default" not in skip_modes:
        pipes = [[p], [p, p]]
        if partner is not None:
            pipes += [[p, partner], [partner, p]]
        for pl in pipes:
            r = roundtrip_pipeline(st, pl)
            if r is not None:
                return ("fail", f"pipeline-of-{len(pl)}", *r)
    return ("ok", None, None, None, str(p))


def _partner():
    c = registry().get(PARTNER)
    try:
        return c() if c is not None else None
    except Exception:  # noqa: BLE001
        return None


def base_status(st: Stats, cls, base: dict):
    """Which printing modes already fail on the all-defaults instance (reported by the base
    task under its own signature; varied instances must not be blamed for it)."""
    skip = []
    st0 = Stats()
    try:
        p = cls(**base)
    except Exception:  # noqa: BLE001
        return ("default", "include-default")
    if roundtrip_one(st0, p, False) is not None:
        skip.append("default")
    if roundtrip_one(st0, p, True) is not None:
        skip.append("include-default")
    return tuple(skip)


def _wit(cls, kwargs, varied, api, kind, detail, text):
    return {"part": "instance", "pass": cls.name, "values": {k: enc(kwargs[k]) for k in varied},
            "python": {k: repr(kwargs[k]) for k in varied}, "other_fields": "defaults (required fields: benign value)",
            "varied": list(varied), "api": api, "kind": kind, "printed": text, "observed": detail,
            "expected": "re-parsed pass equal to the original (floats by bits) and identical re-print"}


# ---------------------------------------------------------------- tasks of part 1
def task_base(arg) -> Stats:
    """All registered + synthetic passes at their base (default) options."""
    (seed,) = arg
    st = Stats()
    partner = _partner()
    for i, (name, cls) in enumerate(sorted(registry().items())):
        try:
            fields, base = pass_fields(cls)
        except Exception as e:  # noqa: BLE001
            st.outcomes[f"base:type-hints-unresolvable:{type(e).__name__}"] += 1
            continue
        if any(shp is None for _, _, shp in fields):
            st.outcomes["base:has-unsupported-field-type"] += 1
            st.bump("unsupported_field_types", 1)
        st.states += 1
        status, api, kind, detail, text = check_instance(st, cls, base, partner)
        if status == "ctor-reject":
            st.outcomes[f"base:ctor-reject:{api}"] += 1
            continue
        if status == "fail":
            st.outcomes[f"base:fail:{api}:{kind}"] += 1
            st.violate(f"C18|history|{kind}|base" if api == "history" else f"C18|{api}|base|{name}",
                       f"pass {name} with default/benign options does not round-trip ({api}: {kind})",
                       _wit(cls, base, [], api, kind, detail, text))
            continue
        st.outcomes["base:ok:" + ("with-options" if "{" in text else "bare-name")] += 1
        if "{" in text:
            st.nontrivial += 1
        if (i + seed) % 29 == 0:
            st.sample({"pass": name, "printed": text})
    for n in _IMPORT_FAILED:
        st.outcomes["base:import-failed"] += 1
    return st


def _record(st, cls, kwargs, varied, vclasses, res, tag):
    status, api, kind, detail, text = res
    if status == "ctor-reject":
        st.outcomes[f"{tag}:ctor-reject:{api}"] += 1
        return
    if status == "ok":
        st.outcomes[f"{tag}:ok"] += 1
        if "{" in text:
            st.nontrivial += 1
        return
    st.outcomes[f"{tag}:fail:{api}:{kind}"] += 1
    if api == "history":
        sig = f"C18|history|{kind}|" + "+".join(t for t, _ in vclasses)
    elif len(vclasses) == 1:
        t, c = vclasses[0]
        sig = f"C18|{api}|{t}|{c}"
    else:
        sig = f"C18|{api}-pair|" + "|".join(f"{t}:{c}" for t, c in vclasses)
    st.violate(sig, f"{cls.name}: option value of class {'+'.join(t + ':' + c for t, c in vclasses)} does not "
                    f"round-trip through the printed pipeline spec ({api}: {kind})",
               _wit(cls, kwargs, varied, api, kind, detail, text))


def task_field(arg) -> Stats:
    pname, fname, thorough, seed = arg
    st = Stats()
    cls = registry()[pname]
    fields, base = pass_fields(cls)
    tp, shp = next((t, s) for n, t, s in fields if n == fname)
    if shp is None:
        st.outcomes[f"unsupported-type:{tp!r}"[:80]] += 1
        return st
    skip = base_status(st, cls, base)
    partner = _partner()
    basek = tkey(base[fname]) if fname in base else None
    for i, v in enumerate(alphabet(tp, "full", thorough)):
        if fname in base and tkey(v) == basek:
            continue  # the base instance is the base task's case
        kwargs = dict(base)
        kwargs[fname] = v
        st.states += 1
        res = check_instance(st, cls, kwargs, partner, skip)
        _record(st, cls, kwargs, [fname], [value_class(v, shp)], res, f"single:{shp}")
        if (i + seed) % 97 == 0 and res[0] == "ok":
            st.sample({"pass": pname, "field": fname, "value": enc(v), "printed": res[4]})
    return st


def task_pair(arg) -> Stats:
    pname, fa, fb, thorough, seed = arg
    st = Stats()
    cls = registry()[pname]
    fields, base = pass_fields(cls)
    info = {n: (t, s) for n, t, s in fields}
    (ta, sa), (tb, sb) = info[fa], info[fb]
    if sa is None or sb is None:
        return st
    skip = base_status(st, cls, base)
    partner = _partner()
    single_ok: dict = {}

    def single_fails(f, v):
        k = (f, tkey(v))
        if k not in single_ok:
            kw = dict(base)
            kw[f] = v
            single_ok[k] = check_instance(Stats(), cls, kw, partner, skip)[0] == "fail"
        return single_ok[k]

    n = 0
    for va in alphabet(ta, "pair", thorough):
        if fa in base and tkey(va) == tkey(base[fa]):
            continue
        for vb in alphabet(tb, "pair", thorough):
            if fb in base and tkey(vb) == tkey(base[fb]):
                continue
            kwargs = dict(base)
            kwargs[fa] = va
            kwargs[fb] = vb
            st.states += 1
            n += 1
            res = check_instance(st, cls, kwargs, partner, skip)
            if res[0] == "fail" and (single_fails(fa, va) or single_fails(fb, vb)):
                # same defect as the single-field case, which the field task reports under its
                # own narrow signature (pair alphabets are subsets of the full alphabets)
                st.outcomes["pair:fail-explained-by-single-field-failure"] += 1
                continue
            _record(st, cls, kwargs, [fa, fb], [value_class(va, sa), value_class(vb, sb)], res, "pair")
            if (n + seed) % 499 == 0 and res[0] == "ok":
                st.sample({"pass": pname, "fields": [fa, fb], "printed": res[4]})
    return st


# ---------------------------------------------------------------- part 3: multi-entry pipelines
def multi_alphabet(tp, thorough: bool):
    vals = alphabet(tp, "pair", thorough)
    if thorough:
        big = alphabet(tp, "elem", thorough)
        if len(big) <= 20:
            vals = _dedup(list(vals) + list(big))
    return vals


def _multi_report(st, cls, form, entries, passes, r):
    """entries: JSON description of the pipeline; r: failure of check_multi."""
    kind, detail, text = r
    # a pipeline that fails because ONE of its passes does not round-trip on its own is the
    # single-pass defect, reported (or registered as known) under its own signature
    for q in passes:
        if roundtrip_one(Stats(), q, False) is not None:
            st.outcomes["multi:fail-explained-by-single-pass-failure"] += 1
            return
    st.outcomes[f"multi:fail:{form}:{kind}"] += 1
    if kind.startswith("history:"):
        sig = f"C18|history|{kind[8:]}|pipeline"
        what = f"{cls.name}: instantiating the parsed specs of a pipeline does not treat them as values ({kind[8:]})"
    else:
        sig = f"C18|pipeline|multi-entry|{form}|{kind}"
        what = (f"{cls.name}: a pipeline with several entries of the same pass ({form}) does not parse back "
                f"position by position ({kind})")
    st.violate(sig, what,
               {"part": "multi", "pass": cls.name, "form": form, "entries": entries, "printed": text,
                "kind": kind, "observed": detail,
                "expected": "PassPipeline.parse_spec(text).passes == originals, same text again, parsed specs untouched"})


def _multi_build(cls, base, entries, partner):
    out = []
    for e in entries:
        if e == "sep":
            out.append(partner)
        else:
            kw = dict(base)
            kw.update({k: dec(v) for k, v in e.items()})
            out.append(cls(**kw))
    return out


def _multi_run(st, cls, base, partner, form, entries, differs: bool, sample: bool):
    if partner is None and "sep" in entries:
        return
    st.transitions += len(entries)
    try:
        passes = _multi_build(cls, base, entries, partner)
    except BaseException as e:  # noqa: BLE001
        _reraise_if_control(e)
        st.outcomes[f"multi:ctor-reject:{type(e).__name__}"] += 1
        return
    st.states += 1
    st.max_depth = max(st.max_depth, len(entries))
    r = check_multi(st, passes)
    if r is None:
        st.outcomes[f"multi:ok:{form}"] += 1
        if differs:
            st.nontrivial += 1
        if sample:
            st.sample({"pipeline": pipeline_text(passes)})
        return
    _multi_report(st, cls, form, entries, passes, r)


def task_multi(arg) -> Stats:
    pname, thorough, seed = arg
    st = Stats()
    cls = registry()[pname]
    fields, base = pass_fields(cls)
    partner = _partner()
    usable = [(n, tp, shp) for n, tp, shp in fields if shp is not None]
    n = 0
    first_off_base = {}
    for fname, tp, _ in usable:
        vals = list(multi_alphabet(tp, thorough))
        if fname in base:
            vals = _dedup([base[fname]] + vals)
        off = [v for v in vals if fname not in base or tkey(v) != tkey(base[fname])]
        first_off_base[fname] = off[:2]
        for v1 in vals:
            for v2 in vals:
                same = tkey(v1) == tkey(v2)
                a, b = {fname: enc(v1)}, {fname: enc(v2)}
                forms = [("identical-repeat", [a, b]), ("identical-repeat+sep", [a, "sep", b])] if same else \
                        [("same-field", [a, b]), ("same-field+sep", [a, "sep", b]), ("same-field-aba", [a, b, a])]
                for form, entries in forms:
                    n += 1
                    _multi_run(st, cls, base, partner, form, entries, not same, (n + seed) % 997 == 0)
    for (fa, _, _), (fb, _, _) in itertools.combinations(usable, 2):
        for va in first_off_base[fa]:
            for vb in first_off_base[fb]:
                a, b = {fa: enc(va)}, {fb: enc(vb)}
                for form, entries in (("different-option-names", [a, b]), ("different-option-names", [b, a]),
                                      ("different-option-names+sep", [a, "sep", b]),
                                      ("different-option-names-aba", [a, b, a])):
                    n += 1
                    _multi_run(st, cls, base, partner, form, entries, True, (n + seed) % 997 == 0)
    return st


# ======================================================================================
# part 2: token strings
# ======================================================================================
LEXEMES = ["{", "}", "=", ",", " ", "a", "a-b", "a_b", "1", "-1", "1.5", "1e", '"x"', '"', '"\\', "true",
           "é", "\n", "[x]", "[", "mlir-opt", '"\\f"']
IDENT_START = {"a", "a-b", "a_b", "1e", "true", "mlir-opt"}
FRAME = ("a{", "}")  # 2 + 1 tokens
ALLOWED = ("ArgSpecParseError", "ParseError", "ValueError")


def _innermost_xdsl(e: BaseException) -> str:
    name = "?"
    for fr in traceback.extract_tb(e.__traceback__):
        if "/xdsl/" in fr.filename.replace("\\", "/"):
            name = fr.name
    return name


def _spec_well_formed(sp) -> bool:
    from xdsl.utils.arg_spec import ArgSpec

    if not isinstance(sp, ArgSpec) or not isinstance(sp.name, str) or not isinstance(sp.parameters, dict):
        return False
    for k, v in sp.parameters.items():
        if not isinstance(k, str) or not isinstance(v, tuple):
            return False
        if not all(isinstance(x, (str, int, bool, float)) for x in v):
            return False
    return True


def check_text(st: Stats, s: str, first_is_ident: bool) -> None:
    from xdsl.utils.arg_spec import parse_pipeline
    from xdsl.utils.exceptions import ArgSpecParseError, ParseError

    allowed = (ArgSpecParseError, ParseError, ValueError)
    st.executions += 1
    st.transitions += 1
    st.evaluations += 1
    try:
        specs = list(parse_pipeline(s))
    except allowed as e:
        st.outcomes[f"parse:{type(e).__name__}"] += 1
        if first_is_ident:
            st.nontrivial += 1
        return
    except BaseException as e:  # noqa: BLE001
        _reraise_if_control(e)
        fn = _innermost_xdsl(e)
        st.outcomes[f"parse:ESCAPED:{type(e).__name__}"] += 1
        st.violate(f"C18|parse|{type(e).__name__}|{fn}",
                   f"parse_pipeline lets {type(e).__name__} escape from {fn} instead of a pipeline parse error",
                   {"part": "parse", "text": s, "observed": f"{type(e).__name__}: {_last_line(e)}",
                    "expected": "list of ArgSpec, or " + " / ".join(ALLOWED)})
        return
    if specs:
        st.nontrivial += 1
    if not all(_spec_well_formed(sp) for sp in specs):
        st.violate("C18|parse|result|malformed-spec", "parse_pipeline returned something that is not a well-typed ArgSpec",
                   {"part": "parse", "text": s, "observed": repr(specs)[:300]})
        return
    # ---- stage 2: specs -> passes
    st.executions += 1
    st.transitions += 1
    st.evaluations += 1
    try:
        pp = PassPipeline.parse_spec(available(), s)
    except allowed as e:
        st.outcomes[f"parse:specs={min(len(specs), 3)};build:{type(e).__name__}"] += 1
        return
    except BaseException as e:  # noqa: BLE001
        _reraise_if_control(e)
        fn = _innermost_xdsl(e)
        st.outcomes[f"build:ESCAPED:{type(e).__name__}"] += 1
        st.violate(f"C18|parse|{type(e).__name__}|{fn}",
                   f"PassPipeline.parse_spec lets {type(e).__name__} escape from {fn} instead of an option error",
                   {"part": "parse", "text": s, "observed": f"{type(e).__name__}: {_last_line(e)}",
                    "expected": "PassPipeline, or " + " / ".join(ALLOWED)})
        return
    if not isinstance(pp, PassPipeline) or not all(isinstance(p, ModulePass) for p in pp.passes) \
            or len(pp.passes) != len(specs):
        st.violate("C18|parse|result|not-a-pipeline", "PassPipeline.parse_spec returned something that is not a pipeline of passes",
                   {"part": "parse", "text": s, "observed": repr(pp)[:300]})
        return
    st.outcomes[f"parse:specs={min(len(specs), 3)};build:passes"] += 1
    # ---- "printing a pipeline and parsing it yields the same pipeline", on parser-made pipelines
    if pp.passes:
        blamed = False
        for p in pp.passes:
            r = roundtrip_one(st, p, False)
            if r is not None:
                # same oracle as part 1; blame the most suspicious option value of that pass
                blamed = True
                kind, detail, text = r
                t, c = _blame(p)
                st.outcomes[f"parsed-pass:fail:{kind}"] += 1
                st.violate(f"C18|roundtrip|{t}|{c}",
                           f"{type(p).name}: a pass obtained by parsing holds an option value of class {t}:{c} and does "
                           f"not round-trip through its printed spec ({kind})",
                           {"part": "parse", "text": s, "printed": text, "kind": kind, "observed": detail})
        if not blamed:
            for sp, q in zip(specs, pp.passes):
                h = history_spec(st, type(q), sp, inst_key(q))
                if h is not None:
                    blamed = True
                    st.violate(f"C18|history|{h[0]}|parsed",
                               f"{type(q).name}: from_pass_spec does not treat a parsed ArgSpec as a value ({h[0]})",
                               {"part": "parse", "text": s, "kind": h[0], "observed": h[1]})
        r = None if blamed else roundtrip_pipeline(st, list(pp.passes))
        if r is not None:
            kind, detail, text = r
            st.violate("C18|parse-print-parse|pipeline|any",
                       f"a pipeline obtained by parsing does not survive print -> parse ({kind})",
                       {"part": "parse", "text": s, "printed": text, "kind": kind, "observed": detail})


def _blame(p) -> tuple[str, str]:
    """Class of the most suspicious non-default option value of a pass instance."""
    fields, base = pass_fields(type(p))
    best = None
    for n, _, shp in fields:
        v = getattr(p, n)
        if n in base and tkey(base[n]) == tkey(v):
            continue
        elems = v if isinstance(v, tuple) else (v,)
        rank = max([scalar_class(e)[2] for e in elems] or [0])
        if best is None or rank > best[0]:
            best = (rank, value_class(v, shp or "unsupported"))
    return best[1] if best is not None else ("parsed", type(p).name)


def task_tokens(arg) -> Stats:
    """All token strings prefix + w with |prefix + w| <= maxlen.  framed: wrap as a{ ... }; framed
    words whose total token count <= skip_upto are skipped (they are bare words of another shard)."""
    prefix, maxlen, framed, skip_upto, seed = arg
    st = Stats()
    n = 0
    for extra in range(0, maxlen - len(prefix) + 1):
        for w in itertools.product(LEXEMES, repeat=extra):
            toks = tuple(prefix) + w
            if framed:
                if len(toks) + 3 <= skip_upto:
                    continue
                s = FRAME[0] + "".join(toks) + FRAME[1]
                ident = True
            else:
                s = "".join(toks)
                ident = bool(toks) and toks[0] in IDENT_START
            st.states += 1
            st.max_depth = max(st.max_depth, len(toks) + (3 if framed else 0))
            n += 1
            check_text(st, s, ident)
            if (n + seed) % 20011 == 0:
                st.sample({"text": s})
    return st


# ======================================================================================
def run(ctx):
    thorough = not ctx.quick
    reg = registry()  # import every pass in the parent so that forked workers inherit them
    tasks: list = [("base", (ctx.seed,))]
    n_fields = 0
    n_pairs = 0
    n_cls = 0
    for name, cls in sorted(reg.items(), key=lambda kv: (kv[1] in SYNTH, kv[0])):  # registered passes first
        if cls in LEX:
            continue
        try:
            fields, _ = pass_fields(cls)
        except Exception:  # noqa: BLE001 - counted by the base task
            continue
        if not fields:
            continue
        n_cls += 1
        for fname, _, _ in fields:
            tasks.append(("field", (name, fname, thorough, ctx.seed)))
            n_fields += 1
        for (fa, _, _), (fb, _, _) in itertools.combinations(fields, 2):
            tasks.append(("pair", (name, fa, fb, thorough, ctx.seed)))
            n_pairs += 1
        tasks.append(("multi", (name, thorough, ctx.seed)))
    bare_len = ctx.pick(4, 5)
    framed_len = ctx.pick(4, 5)
    for framed, maxlen in ((False, bare_len), (True, framed_len)):
        skip = bare_len if framed else 0
        plen = max(1, maxlen - 3)  # ~10^4 strings per shard
        # words shorter than the shard prefix length, then one shard per prefix
        for k in range(plen):
            for w in itertools.product(LEXEMES, repeat=k):
                tasks.append(("tokens", (w, k, framed, skip, ctx.seed)))
        for w in itertools.product(LEXEMES, repeat=plen):
            tasks.append(("tokens", (w, maxlen, framed, skip, ctx.seed)))
    # unique decodability of the lexeme code (distinct token sequences <=> distinct strings)
    words = ["".join(w) for k in range(4) for w in itertools.product(LEXEMES, repeat=k)]
    if len(set(words)) != len(words):
        ctx.stats.cap("lexeme alphabet is not uniquely decodable: 'states' over-counts distinct strings")
    # few coarse buckets (many tiny tasks are slow on a loaded machine): big token shards stay
    # alone, everything else is dealt round-robin into buckets
    tasks = list(enumerate(tasks))  # index = merge order (keeps the recorded witnesses stable)
    is_big = lambda t: t[1][0] == "tokens" and t[1][1][1] - len(t[1][1][0]) >= 3  # noqa: E731
    big = [t for t in tasks if is_big(t)]
    small = [t for t in tasks if not is_big(t)]
    nb = 48
    buckets = [tuple(big[i::nb * 4]) for i in range(min(nb * 4, len(big)))] + \
              [tuple(small[i::nb]) for i in range(min(nb, len(small)))]
    gc.collect()
    gc.freeze()  # keep the forked workers from copying the parent's heap on every collection
    results = []
    for _, res in pmap(_bucket, [b for b in buckets if b]):
        results.extend(res)
    for _, st in sorted(results, key=lambda r: r[0]):
        ctx.merge(st)
    ctx.bounds = {
        "part1": {
            "pass_classes_with_fields": n_cls, "registered_passes": len(reg) - len(SYNTH) - len(LEX),
            "synthetic_classes": [c.name for c in SYNTH], "fields": n_fields, "field_pairs": n_pairs,
            "int": [str(x) for x in INTS], "float": [repr(x) for x in FLOATS], "bool": [True, False],
            "str": f"all strings of length <= {3 if thorough else 2} over {STR_CHARS!r} plus {STR_EXTRA!r}",
            "tuple": f"length 0..2 (0..3 in thorough when the element alphabet has <= 8 values) over int/float full, str reduced ({len(STR_RED)} strings)",
            "optional": "None", "literal": "every member",
            "pairs": "all field pairs of every class x product of reduced alphabets "
                     f"(int {len(INT_PAIR)}, float {len(FLOAT_PAIR)}, str {len(STR_PAIR)}, tuples len 0..2 over 2 elements)",
            "printing_paths": ["str(pass)", "str(pass.pipeline_pass_spec(include_default=True))",
                               "','.join(str(p.pipeline_pass_spec())) for [p], [p,p], [p,dce], [dce,p]"],
        },
        "part3": {"entries": "2 and 3", "forms": ["same-field [A,B] [A,dce,B] [A,B,A]", "identical-repeat [A,A] [A,dce,A]",
                                                   "different-option-names [A,B] [B,A] [A,dce,B] [A,B,A]"],
                  "values": "per field: default + reduced (pair) alphabet, all ORDERED pairs"
                            + ("; thorough adds the element alphabet when it has <= 20 values" if thorough else ""),
                  "different_names": "every field pair x first two off-default values of each"},
        "part4": "history oracle on every round-tripping instance (parsed / own / dashed spec), every part-3 pipeline, every parser-built pipeline",
        "part2": {"lexemes": LEXEMES, "bare_max_tokens": bare_len, "framed": "a{ <w> }", "framed_max_tokens": framed_len},
    }
    ctx.rule = ("part 1: states = distinct pass instances (one field or one field pair moved off the base instance, "
                "all values of the type alphabet), each printed through every public path and re-parsed; non-trivial = "
                "constructor accepted it, it round-trips and its printed spec carries at least one option; "
                "part 3: states = distinct multi-entry pipelines, non-trivial = the repeated class carries two different "
                "option assignments and the pipeline parses back; "
                "part 2: states = distinct token strings (the lexeme code is uniquely decodable), bare and framed as a{...}; "
                "non-trivial = the parser yielded at least one spec, or failed after accepting a leading pass name")
    ctx.assumptions = [
        "ArgSpecParseError, ParseError and ValueError are the deliberate 'pipeline parse or option error' channels",
        "equality of passes = equality of compared dataclass fields, floats by IEEE bit pattern, bool == int as in Python",
        "the public printing path of a pipeline is ','.join(str(p.pipeline_pass_spec())) (xdsl/interactive/app.py)",
        "passes whose module cannot be imported in this environment are skipped (outcome base:import-failed)",
    ]


def _bucket(ts):
    return [(i, _task(t)) for i, t in ts]


def _task(t):
    kind, arg = t
    return {"base": task_base, "field": task_field, "pair": task_pair, "tokens": task_tokens,
            "multi": task_multi}[kind](arg)


def replay(rep) -> bool:
    w = rep["witness"]
    sig = rep["signature"]
    st = Stats()
    if w.get("part") == "parse":
        check_text(st, w["text"], True)
        return sig not in st.violations
    cls = registry()[w["pass"]]
    fields, base = pass_fields(cls)
    if w.get("part") == "multi":
        passes = _multi_build(cls, base, w["entries"], _partner())
        r = check_multi(st, passes)
        if r is not None:
            _multi_report(st, cls, w["form"], w["entries"], passes, r)
        return sig not in st.violations
    kwargs = dict(base)
    kwargs.update({k: dec(v) for k, v in w["values"].items()})
    info = {n: s for n, _, s in fields}
    varied = w["varied"]
    partner = _partner()
    skip = base_status(st, cls, base) if varied else ()
    res = check_instance(st, cls, kwargs, partner, skip)
    if not varied:
        if res[0] == "fail":
            st.violate(f"C18|history|{res[2]}|base" if res[1] == "history" else f"C18|{res[1]}|base|{cls.name}", "", {})
    else:
        _record(st, cls, kwargs, varied, [value_class(kwargs[f], info[f]) for f in varied], res, "replay")
    return sig not in st.violations
